#!/usr/bin/env python3
"""mk.py <round> <id> [<id>...]: creates a scratch worktree /tmp/seed_<id>r<round> of /repo and the prompt
file /tmp/seed_prompt_<id>r<round>.txt for an independent seeding agent.  The prompt contains the
property text only, plus (rounds > 1) one line per earlier seed of that property naming the function
it changed, so that the agent picks another mechanism."""
import glob, json, os, subprocess, sys
V = os.path.dirname(os.path.dirname(os.path.abspath(__file__)))
rnd = sys.argv[1]
props = {json.loads(l)["id"]: json.loads(l) for l in open(os.path.join(V, "properties.jsonl"))}
tmpl = open(os.path.join(V, "seeding", "prompt.tmpl")).read()
for pid in sys.argv[2:]:
    p = props[pid]
    a = p["anchors"]
    text = "Property %s: %s\n\nStatement: %s\n\nQuantified over: %s\n\nWhy tests cannot settle it: %s\n\nAnchored in files: %s\nMechanisms: %s" % (
        pid, p["title"], p["statement"], p["quantifier"]["text"], p["why_tests_cant"], ", ".join(a["files"]),
        "; ".join("%s (%s)" % (m["name"], m["where"]) for m in a["mechanism"]))
    avoid = ""
    earlier = []
    for mf in sorted(glob.glob(os.path.join(V, "seeded", pid + "*", "meta.json"))):
        m = json.load(open(mf))
        earlier.append("  - clause \"%s\" via: %s" % (m["breaks"], m["change"]))
    if earlier:
        avoid = "\nOther engineers have already seeded the following changes for this property; pick a DIFFERENT clause of the statement or a different mechanism / source location than these:\n" + "\n".join(earlier) + "\n"
    wt = "/tmp/seed_%sr%s" % (pid, rnd)
    subprocess.run(["git", "-C", "/repo", "worktree", "add", "-q", "--detach", wt, "HEAD"], check=True)
    open("/tmp/seed_prompt_%sr%s.txt" % (pid, rnd), "w").write(tmpl.replace("{WT}", wt).replace("{PROP}", text).replace("{AVOID}", avoid))
    print(wt)
