#!/usr/bin/env python3
"""meta.py <ID> <property> <detected:true|false> <<JSON {breaks, change, needs, confirmed, detected_by, note?}"""
import json, os, sys
V = os.path.dirname(os.path.dirname(os.path.abspath(__file__)))
sid, prop, det = sys.argv[1:4]
d = {"property": prop}
d.update(json.load(sys.stdin))
d["detected"] = det == "true"
d["written_by"] = "independent sub-agent that saw only the property text, one line per earlier seed of the property, and a scratch worktree"
json.dump(d, open(os.path.join(V, "seeded", sid, "meta.json"), "w"), indent=1)
