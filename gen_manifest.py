#!/usr/bin/env python3
"""Generates MANIFEST.json from the table below (kept in one place so that it is always valid)."""
import json
import os

HERE = os.path.dirname(os.path.abspath(__file__))

SCHED_NOTE = ("Trusted base: the verifvs scheduler/instrumenter (instrumented sources must pass the repository's own tests at setup); "
              "virtual time assumes computation is instantaneous relative to timers; bounds as reported in the evidence file.")

U = "every interleaving up to Mazurkiewicz equivalence (unbounded preemptions; dynamic partial-order reduction + sleep sets, sound for data-race-free code)"

CHECKS = {
    "C02": {
        "script": "c02.py", "category": "model_checking",
        "technique": "stateless model checking of the real broker code under a controlled scheduler (exhaustive DFS over schedules with DPOR + sleep sets, virtual time)",
        "text": U + " of the real IPC/HTTP/AMP handlers, Broker() and timers for <=2-3 proxies x <=2 clients x answer behaviours x entry points {IPC, POST, legacy POST, AMP GET} x fingerprints {none, default, second bridge, absent, listed + junk}; oracle on every execution: answers routed to the client whose offer the answering poll received, each offer in <=1 poll, relay URL of the named bridge, absent bridge never matched.",
        "design_ref": "§3 C02", "note": SCHED_NOTE,
    },
    "C03": {
        "script": "c03.py", "category": "model_checking",
        "technique": "stateless model checking of the real broker code under a controlled scheduler (exhaustive DFS over schedules with DPOR + sleep sets, virtual time)",
        "text": U + " for all populations of <=3 waiting proxies (NAT x load x type) and <=2 concurrent clients (the three names, empty, absent, and case/blank/unknown spellings, for which refusal or service like unknown or like the normalised name is accepted), proxies arriving together or 100 ms apart, all load triples of one pool x 2 clients, clients arriving after every poll has ended unanswered; oracle: pool compatibility, refusal only when the eligible pool is exhausted, least-loaded proxy first, /debug counts equal the reference population and zero afterwards.",
        "design_ref": "§3 C03", "note": SCHED_NOTE,
    },
    "C04": {
        "script": "c04.py", "category": "model_checking",
        "technique": "stateless model checking of the real broker code under a controlled scheduler (exhaustive DFS over schedules with DPOR + sleep sets, virtual time)",
        "text": U + " of real IPC.ProxyPolls/ClientOffers/ProxyAnswers, Broker() and their timers for arrivals at {0,5s,=timeout,>timeout}, proxy NAT {unrestricted, restricted, unknown, none} x client NAT, and answers prompt/at-timeout/late/never/duplicate/unknown-id; every request thread must return within 10 s virtual time and the broker must be empty afterwards (map, heaps, gauge, /debug, fresh client).",
        "design_ref": "§3 C04", "note": SCHED_NOTE,
    },
}

ENUM_NOTE = ("Trusted base: the independent reference written in the harness, Go's compiler/runtime; scope is the stated alphabet and bounds "
             "(small-scope hypothesis), nothing is sampled.")

CHECKS["C09"] = {
    "script": "c09.py", "category": "exploration", "engine": "enum",
    "technique": "bounded-exhaustive enumeration of operation sequences x reader behaviours (deviation-bounded environment scripts) on the real codec against a reference decoder",
    "text": "All Data/Pad sequences of length <=3 over every prefix-size boundary x 5 extreme reader strategies x every reader script with <=2 deviations (short/zero-length/half reads, EOF attached); every truncation point; a reader failing with a non-EOF error at every byte offset (plain or attached to the last bytes); all byte strings <=4 over 12 boundary bytes; WritePadding(n) for all n<=70000; MaxDataForSize(n) for all n<=2^20+16; allocation bound.",
    "design_ref": "§3 C09", "note": ENUM_NOTE,
}
CHECKS["C11"] = {
    "script": "c11.py", "category": "exploration", "engine": "enum",
    "technique": "bounded-exhaustive enumeration on the real path/cache-URL/rendezvous code against independent references (AMP cache URL spec steps, base64url reader), recording RoundTripper and on-the-wire observation",
    "text": "DecodePath over all data strings <=3 over 6 boundary bytes x all paddings <=3 tokens; EncodePath with pinned randomness; malformed paths; CacheURL over a host-label grammar (IDN, hyphens at 3-4, 63/64-byte labels) x schemes x ports x userinfo x paths x queries x cache URLs x content types against a reference of the AMP spec + published vectors (fallback: SHA-256 of the domain as written or of its A-label form); fronting (URL.Host = front, Host header = origin) at the RoundTripper and on the wire, for three successive exchanges on one rendezvous object; status x body-size matrix around the 100 kB limit for HTTP and AMP.",
    "design_ref": "§3 C11", "note": ENUM_NOTE + " The endpoint-equivalence clause (AMP endpoint == POST endpoint) is decided by the broker SCHED harness (c02 explores the amp entry point with the same oracle) and, over poll sizes up to the 100 000 byte limit and 14 polls that differ in content (unlisted / malformed fingerprint, version, null members, legacy body), by a sequential enumeration through both handlers; redirect answers (3xx + Location, then 200) are enumerated for all rendezvous variants; x/net/idna is the trusted punycode primitive; slash normalisation by CacheURL is accepted (see DESIGN.md).",
}
CHECKS["C12"] = {
    "script": "c12.py", "category": "exploration", "engine": "enum",
    "technique": "bounded-exhaustive enumeration of field alphabets, JSON shape lattices, truncations, byte mutations and token strings on the real codecs against a reference written from the protocol comments",
    "text": "All six messages: full products of field alphabets (round trip with documented defaults), JSON shape lattice per decoder, every truncation, every single-byte replacement/deletion/swap/insertion of valid documents, token strings <=5; flags panics, must-reject-but-accepted, round-trip/default mismatches.",
    "design_ref": "§3 C12", "note": ENUM_NOTE + " Encoders are also checked for handing out memory they reuse (several encoded messages outstanding).",
}
CHECKS["C17"] = {
    "script": "c17.py", "category": "model_checking",
    "technique": "stateless model checking of the real turbotunnel adapters under a controlled scheduler (exhaustive DFS over schedules with DPOR + sleep sets, virtual time) with scripted carriers",
    "text": U + " of RedialPacketConn with 1-3 scripted carriers x failure scripts {none, read, write, both, late write} x dial end {error, block} x close instants (no error before Close/dial failure, at most one carrier active, every carrier closed, no goroutine of the package alive after Close, packets unmodified and in order despite buffer scribbling); QueuePacketConn: all operation sequences <=5(6) against a FIFO reference, overflow run, concurrent feeders/reader/writer/closer, 2-3 concurrent producers meeting a queue with 0-2 free slots (len(ch) is a scheduling point), a client written to all the time for four timeouts under the real sweeper; ClientMap with its real sweeper on virtual time (first seen at 5 instants x refreshed after {never, 2 ns, 0.5 s, 0.999 s, T/4, T/2, T/2+1, T-1}: retention until T-1ns after the last sighting, discarded and closed by 1.5T); clientMapInner with explicit clock (steps T/8, T/2, T-1ns, T): breadth-first to a fixpoint with heap/index invariants and exact last-seen times.",
    "design_ref": "§3 C17", "note": SCHED_NOTE,
}
CHECKS["C01"] = {
    "script": "c01.py", "category": "model_checking",
    "technique": "stateless model checking (DPOR + sleep sets, virtual time) of the real client dialContext closure + WebRTCPeer + encapsulationPacketConn + RedialPacketConn against the real server turbotunnelMode + QueuePacketConn, with scripted carrier faults and an ARQ stand-in for KCP",
    "text": U + " of the composition for: no fault; every single fault {carrier cut before / inside / after a write, freeze} x direction x write index (token, ClientID, length prefix+payload writes) x {enough standby carriers, one too few} x replacement delay {0, 10 s}; pairs of faults in the thorough tier. Oracle: every packet handed up on either side is byte-identical to one the peer sent in this session and attributed to its ClientID; the application byte streams are exact prefixes (never missing, duplicated, reordered or foreign data); both directions complete whenever a working carrier exists after the last fault; the redialling conn never surfaces an error; nothing of the transport is left running after shutdown.",
    "design_ref": "§3 C01", "note": SCHED_NOTE + " Tier 1: KCP+smux are replaced by a stop-and-wait ARQ driver, the proxy by a transparent relay. Tier 2 (real time, loopback): the real client newSession (kcp-go, smux) over real WebRTCPeer objects with an in-memory data channel <-> relay <-> real server listener, ~95 fault scenarios at relay messages incl. bulk transfers with a late replacement, the bridge closing after its last write, two proxies in a row that freeze and keep their connections to the server open, and an outage of 125 s without any proxy after acknowledged traffic; pion itself and real proxy processes are not covered. The dialContext closure is the real one (captured from newSession by a build-time hook); WebRTCPeer's transport/pipe fields are retyped to interfaces by a build-time pre-pass.",
}
CHECKS["C05"] = {
    "script": "c05.py", "category": "model_checking",
    "technique": "tier 1: stateless model checking of the real turbotunnelMode + QueuePacketConn + ClientMap + clientIDAddrMap under a controlled scheduler (DPOR + sleep sets, virtual time) with in-memory carriers and a KCP stand-in; tier 2: sequential enumeration of token variants and carrier schedules against the real listener (Transport.Listen, ServeHTTP, kcp-go, smux) over loopback WebSockets",
    "text": U + " for 1 session x 10 carrier schedules (cut at every byte class + reconnect, overlapping carriers, idle gaps 30/59/61/95 s with a packet written during the gap) and for 2-3 concurrent sessions; oracle: every packet from ReadFrom was framed on a carrier that presented that ClientID (byte-identical, exactly once, none lost), downstream packets leave only through carriers of their session in FIFO order and survive gaps below the retention time, carrier handlers and their goroutines end, the address looked up at accept time is that of the most recent carrier of that ClientID and never another session's. Cuts surface as EOF or as a non-EOF error. Tier 2: 75 carriers without the token (64 bit flips, prefixes, ...) each followed by a full client stack: carrier ended, no connection produced; 96 scenarios of 1-3 concurrent real sessions over 8 carrier schedules x payload sizes and bursts of 8 simultaneous sessions: exactly one accepted connection per session, exact bytes both ways, right client address; a session whose ClientID the (capacity-2) address map has forgotten is given no address; a session idle until 27.5 s and then without a carrier for 36 s (a whole keep-alive window inside the retention time) continues as the same connection.",
    "design_ref": "§3 C05", "note": SCHED_NOTE + " Tier 2 runs in real time: its oracles compare bytes and counts, missing progress is believed only after 4 runs, loopback trouble marks the run incomplete; the 30-95 s gaps exist only in tier 1 (virtual time).",
}
CHECKS["C06"] = {
    "script": "c06.py", "category": "model_checking",
    "technique": "exhaustive enumeration of pattern pairs x hostnames (matcher law) + exhaustive exploration of the real broker rejection path and of the real proxy runSession/datachannelHandler over a relay-URL grammar under the controlled scheduler",
    "text": "(i) all 15.3 M ordered pairs of patterns <=5 over {^,$,a,b,.} x 364 hostnames: IsSupersetOf implies member inclusion; (ii) broker: allowed (10) x proxy pattern (14, incl. letter-case variants) x present/absent x presumed (4/10): 'incorrect relay pattern' iff not a superset by an independent reference, never registered, next client refused; (iii) proxy: relay URLs from a grammar (schemes, userinfo, lookalike hosts, IPv6, trailing dot, case, ports, fragments) x 3 patterns x AllowNonTLSRelay: every dialled host satisfies the proxy's matcher, wss unless allowed, slot released.",
    "design_ref": "§3 C06", "note": SCHED_NOTE + " (iii) uses the C16 seams; the dial is observed at websocket.DefaultDialer.NetDial.",
}
CHECKS["C16"] = {
    "script": "c16.py", "category": "model_checking",
    "technique": "stateless model checking (DPOR + sleep sets, virtual time) of the real tokens_t/runSession/datachannelHandler with a scripted broker and two build-time seams for the pion-facing functions, explicit enumeration of session-outcome sequences",
    "text": U + " for capacity in {1,2,3} x all sequences of <=3 (4) session outcomes over 11 exit paths incl. the data channel opening in the instant of the 20 s timeout and an answer request that fails although the client connects, sessions overlapping; oracle: slots in use <= capacity, every reported Clients value a multiple of 8 and <= slots in use, after the sequence count()==0 with an empty token channel, nobody blocked in a token operation, the proxy keeps polling.",
    "design_ref": "§3 C16", "note": SCHED_NOTE + " Seams: makePeerConnectionFromOffer (real unconnected PeerConnection + scripted OnDataChannel contract) and copyLoop; Start()'s polling loop is copied verbatim. Harness c16-load: capacity 16 with clients leaving while the proxy polls. Tier 2 (real time): the real SnowflakeProxy.Start with real pion clients in the same process (echo, close at open, never answers, stalls during a download, unreachable relay, relay that accepts and never answers the WebSocket handshake, undecodable offer, a broker answering polls with 502 pages or the /answer request with a 503 page; capacities 1-3); it marks itself incomplete where in-process WebRTC cannot connect.",
}
CHECKS["C07"] = {
    "script": "c07.py", "category": "exploration", "engine": "enum",
    "technique": "bounded-exhaustive enumeration of address spellings (filtered by Go's own parsers) x delimiter contexts x joiners x write splits on the real scrubber, with a parse-based oracle; concurrent writers: exhaustive interleaving exploration of the real LogScrubber under the controlled scheduler up to a preemption bound, without reduction",
    "text": "3,500 (quick) / 16,186 (thorough) spellings Go accepts or prints x 33-65 left x 38-69 right contexts; ordered pairs and triples x 7 joiners; every split of two/three-line inputs into <=3 Write calls through a real LogScrubber (split invariance, whole lines only); lines of 65-200 kB with an address at every offset around the write boundary; event String() methods. Oracle: no maximal [0-9A-Fa-f:.] run of the output parses to an injected address.",
    "design_ref": "§3 C07", "note": ENUM_NOTE + " Concurrent writers: 2-3 goroutines x 6 line scripts through one LogScrubber into a sink that can be descheduled before it consumes the bytes, all interleavings with <=3 (2 for 3 writers) preemptions; oracle: whole lines only, no address, no byte of a reused caller buffer, multiset of lines = scrubbed lines written.",
}
CHECKS["C10"] = {
    "script": "c10.py", "category": "exploration", "engine": "enum",
    "technique": "bounded-exhaustive enumeration of payload sizes x write/read chunkings (deviation-bounded scripts) x whitespace rewritings x markup insertions x token strings on the real AMP armor codec",
    "text": "Payload lengths on every chunk/element boundary up to 120 kB x contents; encoder write scripts and decoder read scripts with <=2 deviations; every sequence of <=4 (5) Writes over 16 boundary sizes up to 4097 B on a 26 kB payload; every separator rewritten to each ASCII whitespace / doubled / CRLF; 4 markups at every outside-pre offset; every truncation; all token strings <=5 (<=6 thorough) over 16 tokens; each of the 256 byte values and all pairs of 12 special bytes inserted at 5 places of a valid document; endless inputs (incl. a never-closed element cut into small tokens by inner tags) with bounded-buffering measurement and 60 s watchdog re-run 3x.",
    "design_ref": "§3 C10", "note": ENUM_NOTE,
}
CHECKS["C14"] = {
    "script": "c14.py", "category": "model_checking",
    "technique": "exhaustive enumeration of request matrices and request pairs through the real handlers under the controlled scheduler (virtual time, DPOR over the broker's goroutines), with a post-request probe; tier 2: the same matrix as raw HTTP exchanges with the broker binary",
    "text": "Single requests: 5 methods x 12 paths (all endpoints + near misses) x 17 body classes (empty, valid, mutated-valid, legacy, garbage, 99 999/100 000/100 001/200 000 bytes, bad/absent fingerprint, mismatching/absent relay pattern) x 6 Snowflake-NAT-Type values x 3 broker states; all ordered pairs (triples in thorough) from a reduced alphabet, sequential, at the same instant and one second apart (valid proxy polls share a session id); legacy vs versioned request on identical states. Oracle: the handler returns (no panic), status is valid, virtual time <= 10 s, a fresh proxy+client happy path still works afterwards, legacy outcome equals the versioned outcome under the documented status mapping.",
    "design_ref": "§3 C14", "note": SCHED_NOTE + " Tier 1: handlers are registered on a fresh mux with the registrations main() makes. Tier 2 (real time): the broker binary built from the tree, started with -disable-tls on a loopback port, receives the same matrix as raw HTTP (4 256 requests on their own connections, 121 pairs on kept-alive connections) with a strict response parser; afterwards a proxy poll + client offer + answer and every endpoint must still work; a missing response is believed after 3 repetitions. TLS/ACME listeners are not covered.",
}
CHECKS["C15"] = {
    "script": "c15.py", "category": "model_checking",
    "technique": "stateless model checking of the real Peers/connectLoop/WebRTCPeer.Close under a controlled scheduler (DPOR + sleep sets, virtual time) + enumeration of constructor failure kinds with real pion",
    "text": U + " of connectLoop, a popping data path, peers closing on their own and one or two End callers for max in {1,2(,3)} x scripted Catch outcomes {now, 3 s, error, error after 3 s}; oracle: live peers <= max, Pop never returns a peer whose Close completed before the call, every End returns and never panics, no Catch begins after End returned, no Catch begins once an earlier one has ended after the stop, a rendezvous begins within ReconnectTimeout after the peers went away on their own, connectLoop stops, all peers closed. Plus NewWebRTCPeerWithEvents (real pion) over 6 ICE configurations x 20 rendezvous failures with a listener that renders every event like the client program's, the NAT-type probe (updateNATType) on 10 ICE lists incl. blank entries and SnowflakeConn.Close once/twice/three times/concurrently x {healthy, session dead, stream closed, packet conn closed, collection ended} on a real KCP+smux session with postconditions (collection stopped, no peer held, session and packet conn closed); a broker that accepts the connection and never answers (every rendezvous variant): Negotiate gives up within 60 s.",
    "design_ref": "§3 C15", "note": SCHED_NOTE + " Peers in the scheduled harness carry no pion objects (as in the repository's own tests); process exit status is not decided.",
}
CHECKS["C19"] = {
    "script": "c19.py", "category": "model_checking",
    "technique": "exhaustive interleaving exploration of the rounded counter's atomic operations with a brute-force linearizability check; driven-traffic enumeration through the real IPC calls under virtual time; exhaustive binning check; journal enumeration with an injected clock",
    "text": "roundedCounter: base in {0,7,8} x 2-3 threads x 1-2 Inc + a reader, every interleaving with <=3 (4) preemptions, no reduction, history linearizable w.r.t. 'n++; read=ceil8(n)' and final value = ceil8(total); metrics log lines and rounded prometheus counters after n in {0,1,7,8,9,16,17} events of 9 kinds (two of them alternating sub-kinds, so that total lines differ from their parts), then {0,1,9} events in the next period (the broker's own ticker prints and zeroes on virtual time); binCount(n) for all n <= 2^20; unique-address, per-country and per-NAT figures for all poll sequences <=2 (3) over 3 addresses x 5 types x 2 NATs followed by a second period {nobody, the first proxy again, a new proxy + the first}; journal: chunkings of sets of size 0..64 into <=3 overlapping chunks x every order of the journal's lines x all windows on chunk edges +-1 ns (exact), 10^3 and 10^5 addresses (within 2 %), no address text in the file.",
    "design_ref": "§3 C19", "note": SCHED_NOTE + " Linearizability is checked by brute force over the recorded call/return history instead of porcupine (histories have <= 8 operations). Journal: also with a flush failing once; every chunk must cover the moments at which its addresses were recorded.",
}
CHECKS["C20"] = {
    "script": "c20.py", "category": "model_checking",
    "technique": "the SCHED harnesses of the other properties rebuilt with -race and explored by the controlled scheduler (DPOR + sleep sets) in race mode: Go's happens-before detector with the scheduler's own hand-offs hidden (RaceDisable brackets, norace engine); plus free-running race-detector passes over the real-stack harnesses (C05, C01 and C16 tier-2 scenarios)",
    "text": "Broker herds (2 proxies x 2 clients at timeout boundaries, all entry points), the metrics ticker firing while requests are in flight, the rounded counter, RedialPacketConn with failing carriers, QueuePacketConn users, Peers/connectLoop/End, server carriers of 2 sessions, the end-to-end composition with faults, proxy slot sessions, the proxy's per-connection traffic logger (two data-path threads + the logger goroutine + an OnClose-style reader; summaries must pair byte totals with the event counts of the same instant), concurrent log writers: every explored execution runs under the race detector; a report counts when both racing accesses are in snowflake (non-harness) source.",
    "design_ref": "§2.5, §3 C20", "note": SCHED_NOTE + " A race is only reported if both accesses occur in some explored execution (budgeted, not exhaustive for the larger harnesses); third-party stacks are outside the harnesses; one recorded finding (ClientMap sweeper close vs QueuePacketConn.WriteTo send) is listed in known_findings.txt.",
}
CHECKS["C08"] = {
    "script": "c08.py", "category": "exploration", "engine": "enum",
    "technique": "bounded-exhaustive enumeration of SDP documents from a grammar on the real stripping code against an independent net/netip classifier",
    "text": "All single candidates (40 boundary addresses of every RFC range x 4 candidate types x 3 layouts x 1-2 media sections), all ordered address pairs, triples over a reduced alphabet; IsLocal vs reference for every a.b.0.1/a.b.255.254 and xx00::1; every truncation/line deletion/duplication and token soups for totality; the client's Negotiate call site with keepLocalAddresses both ways.",
    "design_ref": "§3 C08", "note": ENUM_NOTE + " pion/sdp Unmarshal->Marshal is the normal form of untouched fields; the proxy's sendAnswer call site is covered by reading only.",
}
CHECKS["C13"] = {
    "script": "c13.py", "category": "exploration", "engine": "enum",
    "technique": "bounded-exhaustive enumeration of a JSON value lattice through the real deserialiser and its real callers (client Negotiate, proxy pollOffer, remoteIPFromSDP)",
    "text": "Members type/sdp each over 24 JSON values x each other, top-level shapes, duplicate keys, truncations: value or error, never panic - directly and through BrokerChannel.Negotiate (scripted rendezvous) and SignalingServer.pollOffer (scripted transport); round trip for 4 types x 10 SDP texts; remoteIPFromSDP over candidate grammars, a c= token grammar (7 heads x 15 tails, media/session level, CRLF/LF), truncations and hostile strings.",
    "design_ref": "§3 C13", "note": ENUM_NOTE + " Callers are driven in-process, not as separate binaries; probetest's /probe handler is driven with posted poll responses.",
}
CHECKS["C18"] = {
    "script": "c18.py", "category": "model_checking", "engine": "enum",
    "technique": "explicit-state search to a fixpoint over Set sequences on the real ring map + enumeration of a client_ip grammar against a net/netip reference",
    "text": "Ring map: capacities 0..3 x 4 ClientIDs x 2 addresses, all reachable canonical states (fixpoint), Get of every id compared with the reference 'latest of the last cap Sets' in every state; sanitiser: ~200 client_ip spellings (zones, ports, brackets, leading zeros, mapped/unspecified, garbage, very long) against netip; remoteIPFromSDP against a reference.",
    "design_ref": "§3 C18", "note": ENUM_NOTE + " Concurrent Set/Get on a ring of capacity 1-2 under the scheduler (DPOR), the same executions also in race mode (an access outside the lock is no scheduling point); attribution on the real stack: the sessions section of the C05 tier-2 harness (address at accept time and asked again later, carriers from different or no addresses, a ClientID the map has forgotten); proxy side: all sequences of <=3 (4) sessions over 6 kinds through the real datachannelHandler, the relay URL it dials carries this session's address or none.",
}

PENDING = {}
ALL = ["C%02d" % i for i in range(1, 21)]


def main():
    checks = []
    for pid in ALL:
        c = CHECKS.get(pid)
        if not c:
            continue
        checks.append({
            "property_id": pid,
            "quick_cmd": "python3 checks/%s quick" % c["script"],
            "thorough_cmd": "python3 checks/%s thorough" % c["script"],
            "evidence_file": "/verif/evidence/%s.json" % pid,
            "replay_cmd_template": "python3 checks/replay.py {path}",
            "engine": c.get("engine", "verifvs"),
            "level_claimed": {"category": c["category"], "text": c["text"], "design_ref": c["design_ref"]},
            "level_note": c["note"],
            "technique": c["technique"],
        })
    na = [{"property_id": pid, "reason": PENDING.get(pid, "check not built yet (work in progress; see DESIGN.md §7 build order)")}
          for pid in ALL if pid not in CHECKS]
    m = {
        "version": 1,
        "setup_cmd": "bash bin/setup.sh",
        "hooks": {
            "guard": "none (no source hooks: instrumentation is applied at build time through go build -overlay)",
            "enable": "checks run /verif/.work/bin/instr over /repo's working tree and build with -overlay; /repo itself carries no hook code",
            "baseline_off_cmd": "bash /verif/bin/baseline.sh",
            "source_commits": [],
            "add_only": True,
        },
        "engines": [
            {"name": "verifvs", "path": "/verif/engine/vs", "serves_properties": sorted(p for p, c in CHECKS.items() if c.get("engine", "verifvs") == "verifvs"),
             "kind_free_text": "controlled scheduler runtime + stateless DFS explorer (preemption/deviation bounds, HB state cache, virtual time) over mechanically instrumented real code"},
            {"name": "instr", "path": "/verif/engine/instr", "serves_properties": [], "kind_free_text": "AST instrumenter (go/packages) rewriting go/chan/select/sync/atomic/time/context to verifvs hooks"},
            {"name": "enum", "path": "/verif/harness", "serves_properties": sorted(p for p, c in CHECKS.items() if c.get("engine") == "enum"),
             "kind_free_text": "bounded-exhaustive enumeration of inputs/operation sequences against independent reference models, run on the real code"},
        ],
        "checks": checks,
        "not_applicable": na,
        "notes": "See DESIGN.md. known_findings.txt lists repaired defects (fixed:) and recorded findings (finding:).",
    }
    json.dump(m, open(os.path.join(HERE, "MANIFEST.json"), "w"), indent=1)


if __name__ == "__main__":
    main()
