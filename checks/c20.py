#!/usr/bin/env python3
"""C20 — no data races in broker, server, proxy or client under load (DESIGN.md §2.5, §3 C20):
the SCHED harnesses of the other properties, rebuilt with -race and explored in race mode."""
import glob
import os
import sys
import time

sys.path.insert(0, os.path.join(os.path.dirname(os.path.abspath(__file__)), "..", "lib"))
import enumlib  # noqa: E402
import racelib  # noqa: E402
import vlib  # noqa: E402
import broker_common  # noqa: E402
import client_common  # noqa: E402
import proxy_common  # noqa: E402
import server_common  # noqa: E402
import tt_common  # noqa: E402
import safelog_common  # noqa: E402


def main():
    tier = vlib.tier_arg(sys.argv)
    rep = vlib.Report("C20", tier, "model_checking")
    q = tier == "quick"
    plan = [
        (broker_common.build_broker, [
            ("c04", {"P": "2", "C": "2", "beh": "4"}, 25 if q else 120, True),
            ("c02", {"P": "2", "C": "2", "beh": "2", "via": "4", "fp": "2"}, 20 if q else 120, True),
            ("c20-ticker", {}, 10 if q else 40, True),
            ("c20-journal", {"polls": "3"}, 8 if q else 30, True),
            ("c14", {"requests": "2", "alphabet": "reduced"}, 15 if q else 60, True),
            ("c14", {"requests": "2", "alphabet": "reduced", "overlap": "1"}, 15 if q else 60, True),
            ("c19-ips", {"maxlen": "2", "conc": "1"}, 10 if q else 40, True),
            ("c19-counter", {}, 10 if q else 60, False),
        ]),
        (tt_common.build, [("c17a", {"carriers": "2", "fails": "4", "dialends": "1", "closes": "2"}, 15 if q else 90, True), ("c17b-conc", {}, 10 if q else 60, True)]),
        (client_common.build, [("c15", {"maxes": "2", "script": "2", "end2s": "3"}, 15 if q else 90, True)]),
        (server_common.build, [("c05", {"sessions": "2", "other": "single", "light": "1"}, 15 if q else 90, True), ("c01", {"faults": "1", "payloads": "1", "maxidx": "4"}, 20 if q else 120, True),
                               ("c18-ringconc", {"setters": "3"}, 8 if q else 30, True)]),
        (proxy_common.build, [("c16", {"capacities": "2", "maxlen": "2"}, 15 if q else 90, True), ("c16-load", {}, 8 if q else 30, True), ("c20-byteslogger", {}, 8 if q else 30, True)]),
        (safelog_common.build, [("c07-writers", {"writers": "2"}, 8 if q else 40, False)]),
    ]
    passes = []
    tot_exec = tot_trans = 0
    harness_only = 0
    mixed = {}
    exh = True
    for build, runs in plan:
        try:
            binary = build(race=True)
        except SystemExit:
            rep.engine_errors.append("race build failed for %s" % build.__module__)
            continue
        work = os.path.dirname(binary)
        for harness, cfg, budget, por in runs:
            t0 = time.time()
            try:
                r = vlib.explore(binary, harness, -1 if por else 2, budget, cfg=cfg, race=True, por=por, cache=False)
            except vlib.EngineError as e:
                rep.engine_errors.append(str(e))
                continue
            viol, honly, mx, eng = racelib.collect(work, harness)
            for k in eng:
                rep.engine_errors.append("race report inside the scheduler runtime itself (engine bug): " + k)
            harness_only += honly
            for k, v in mx.items():
                mixed[k] = mixed.get(k, 0) + v
            for sig, text in sorted(viol.items()):
                rep.finding(sig, text.split("\n")[0], {"harness": harness, "cfg": cfg, "kind": "race detector report", "report": text})
            passes.append({"label": "%s %s in race mode (%s)" % (harness, cfg, "DPOR + sleep sets" if por else "preemption bound 2"), "executions": r["executions"], "transitions": r["transitions"],
                           "exhaustive": r["exhaustive"], "races_in_snowflake_code": sorted(viol), "wall_s": round(time.time() - t0, 1)})
            tot_exec += r["executions"]
            tot_trans += r["transitions"]
            exh = exh and r["exhaustive"]
    # free-running pass (no scheduler): the real-stack harness of C05 tier 2 (Transport.Listen, ServeHTTP, websocketconn,
    # acceptSessions/acceptStreams, turbotunnelMode with real kcp-go and smux) under the race detector
    try:
        files = {"zz_verif_c05t2_test.go": os.path.join(vlib.VERIF, "harness", "serverlib", "c05t2_test.go")}
        eb = enumlib.build("serverlib-t2-race", "server/lib", files, race=True)
        work = os.path.dirname(eb)
        for f in glob.glob(os.path.join(work, "race-c05t2.*")):
            os.remove(f)
        t0 = time.time()
        res = enumlib.run(eb, "TestVerifEnumC05T2", tier, 60 if q else 240, nshards=8,
                          env_extra={"GORACE": "halt_on_error=0 exitcode=0 history_size=3 log_path=%s/race-c05t2" % work}, accept_test_failure=True)
        viol, honly, mx, eng = racelib.collect(work, "c05t2", pattern="race-%s.*")
        harness_only += honly
        for k, v in mx.items():
            mixed[k] = mixed.get(k, 0) + v
        for sig, text in sorted(viol.items()):
            rep.finding(sig, text.split("\n")[0], {"harness": "TestVerifEnumC05T2 (free-running, real stack)", "kind": "race detector report", "report": text})
        passes.append({"label": "real server stack on loopback (C05 tier-2 scenarios: token variants, carrier schedules, bursts of simultaneous sessions), free-running under the race detector",
                       "executions": res["evaluations"], "transitions": 0, "exhaustive": False, "races_in_snowflake_code": sorted(viol), "wall_s": round(time.time() - t0, 1),
                       "note": "schedules are whatever the Go runtime produced; the detector reports unordered conflicting accesses of the executions that happened"})
        tot_exec += res["evaluations"]
    except vlib.EngineError as e:
        rep.engine_errors.append(str(e))
    # free-running pass over the C01 tier-2 scenarios: real client session (newSession, WebRTCPeer, encapsulation,
    # RedialPacketConn) against the real server listener
    try:
        import client_t2_common
        eb = client_t2_common.build(race=True)
        work = os.path.dirname(eb)
        for f in glob.glob(os.path.join(work, "race-c01t2.*")):
            os.remove(f)
        t0 = time.time()
        res = enumlib.run(eb, "TestVerifEnumC01T2", tier, 60 if q else 240, nshards=8,
                          env_extra={"GORACE": "halt_on_error=0 exitcode=0 history_size=3 log_path=%s/race-c01t2" % work, "VERIF_T2_SKIP_LONG": "1"}, accept_test_failure=True)
        viol, honly, mx, eng = racelib.collect(work, "c01t2", pattern="race-%s.*")
        harness_only += honly
        for k, v in mx.items():
            mixed[k] = mixed.get(k, 0) + v
        for sig, text in sorted(viol.items()):
            rep.finding(sig, text.split("\n")[0], {"harness": "TestVerifEnumC01T2 (free-running, real stacks)", "kind": "race detector report", "report": text})
        passes.append({"label": "real client session <-> relay <-> real server listener (C01 tier-2 scenarios with faults), free-running under the race detector",
                       "executions": res["evaluations"], "transitions": 0, "exhaustive": False, "races_in_snowflake_code": sorted(viol), "wall_s": round(time.time() - t0, 1)})
        tot_exec += res["evaluations"]
    except vlib.EngineError as e:
        rep.engine_errors.append(str(e))
    # free-running pass over the C16 tier-2 scenarios: the real proxy (Start, runSession, datachannelHandler, webRTCConn,
    # copyLoop) with real pion clients
    try:
        import proxy_t2_common
        eb = proxy_t2_common.build(race=True)
        work = os.path.dirname(eb)
        for f in glob.glob(os.path.join(work, "race-c16t2.*")):
            os.remove(f)
        t0 = time.time()
        res = enumlib.run(eb, "TestVerifEnumC16T2", tier, 240 if q else 900, nshards=16,
                          env_extra={"GORACE": "halt_on_error=0 exitcode=0 history_size=3 log_path=%s/race-c16t2" % work}, accept_test_failure=True)
        viol, honly, mx, eng = racelib.collect(work, "c16t2", pattern="race-%s.*")
        harness_only += honly
        for k, v in mx.items():
            mixed[k] = mixed.get(k, 0) + v
        for sig, text in sorted(viol.items()):
            rep.finding(sig, text.split("\n")[0], {"harness": "TestVerifEnumC16T2 (free-running, real proxy and pion)", "kind": "race detector report", "report": text})
        passes.append({"label": "real proxy with real pion clients (C16 tier-2 scenarios), free-running under the race detector",
                       "executions": res["evaluations"], "transitions": 0, "exhaustive": False, "races_in_snowflake_code": sorted(viol), "wall_s": round(time.time() - t0, 1)})
        tot_exec += res["evaluations"]
    except vlib.EngineError as e:
        rep.engine_errors.append(str(e))
    rep.coverage.update({
        "states": max(1, tot_exec), "transitions": max(1, tot_trans), "traces_validated_against_impl": tot_exec,
        "samples": passes[:3] or [{"note": "no pass ran"}], "passes": passes, "exhaustive": exh,
        "reports_with_both_accesses_in_harness_files": harness_only,
        "reports_with_one_access_in_a_harness_file_or_a_third_party_module (not counted; the harness reads results without synchronisation by design; third-party stacks are out of scope)": mixed,
        "explanation": "every execution explored by the scheduler runs under Go's happens-before race detector with the scheduler's own hand-offs hidden (RaceDisable brackets), so the program's own synchronisation is all the detector sees; a report counts when both racing accesses are in snowflake (non-harness) source files",
    })
    rep.assumptions += ["races inside third-party stacks (pion, KCP, smux, gorilla) are outside the harnesses", "Check functions are not run in race mode"]
    rep.finish()


if __name__ == "__main__":
    main()
