#!/usr/bin/env python3
"""C18 — bridge is told the right client address or none (DESIGN.md §3 C18)."""
import glob
import os
import sys

sys.path.insert(0, os.path.join(os.path.dirname(os.path.abspath(__file__)), "..", "lib"))
import enumlib  # noqa: E402
import vlib  # noqa: E402


def files(d):
    return {"zz_verif_" + os.path.basename(f): f for f in glob.glob(os.path.join(vlib.VERIF, "harness", d, "*_test.go"))}


def main():
    tier = vlib.tier_arg(sys.argv)
    rep = vlib.Report("C18", tier, "model_checking")
    try:
        b = enumlib.build("serverlib-enum", "server/lib", files("serverlib"))
        res = enumlib.run(b, "TestVerifEnumC18", tier, 60, nshards=4)
        enumlib.report(rep, res, "explicit-state search over Set sequences on the real ring map to a fixpoint of canonical states, and enumeration of a client_ip grammar against a net/netip reference")
        b = enumlib.build("proxylib-enum", "proxy/lib", files("proxylib"))
        res2 = enumlib.run(b, "TestVerifEnumC13Proxy", tier, 60, nshards=4)
        enumlib.report(rep, res2, "…; remoteIPFromSDP over candidate/c= grammars against a reference")
        ring = [s for s in res["samples"] if isinstance(s, dict) and "reachable_states" in s]
        rep.coverage["states"] = max(1, sum(s["reachable_states"] for s in ring))
        rep.coverage["transitions"] = max(1, sum(s["transitions"] for s in ring))
        rep.coverage["traces_validated_against_impl"] = rep.coverage["transitions"]
        rep.coverage["explanation"] = "every transition is a Set executed on a fresh real clientIDMap (replay of the shortest history + one operation); Get is compared with the reference in every state"
    except vlib.EngineError as e:
        rep.engine_errors.append(str(e))
    rep.assumptions += ["attribution of carriers to sessions under interleaving is covered by the C05 harness (RemoteAddr of accepted connections is read from the same map)"]
    rep.finish()


if __name__ == "__main__":
    main()
