#!/usr/bin/env python3
"""C18 — bridge is told the right client address or none (DESIGN.md §3 C18)."""
import glob
import os
import sys

sys.path.insert(0, os.path.join(os.path.dirname(os.path.abspath(__file__)), "..", "lib"))
import enumlib  # noqa: E402
import sched  # noqa: E402
import server_common  # noqa: E402
import vlib  # noqa: E402


def files(d):
    return {"zz_verif_" + os.path.basename(f): f for f in glob.glob(os.path.join(vlib.VERIF, "harness", d, "*_test.go"))}


def main():
    tier = vlib.tier_arg(sys.argv)
    rep = vlib.Report("C18", tier, "model_checking")
    try:
        b = bsrv = enumlib.build("serverlib-enum", "server/lib", files("serverlib"))
        res = enumlib.run(b, "TestVerifEnumC18", tier, 60, nshards=4)
        enumlib.report(rep, res, "explicit-state search over Set sequences on the real ring map to a fixpoint of canonical states, and enumeration of a client_ip grammar against a net/netip reference")
        b = enumlib.build("proxylib-enum", "proxy/lib", files("proxylib"))
        res2 = enumlib.run(b, "TestVerifEnumC13Proxy", tier, 60, nshards=4)
        enumlib.report(rep, res2, "…; remoteIPFromSDP over candidate/c= grammars against a reference")
        res4 = enumlib.run(b, "TestVerifEnumC18ProxyRelayURL", tier, 90, nshards=8)
        enumlib.report(rep, res4, "…; session sequences through the proxy's real datachannelHandler: the relay URL it dials carries this session's client address or none")
        ring = [s for s in res["samples"] if isinstance(s, dict) and "reachable_states" in s]
        rep.coverage["states"] = max(1, sum(s["reachable_states"] for s in ring))
        rep.coverage["transitions"] = max(1, sum(s["transitions"] for s in ring))
        rep.coverage["traces_validated_against_impl"] = rep.coverage["transitions"]
        rep.coverage["explanation"] = "every transition is a Set executed on a fresh real clientIDMap (replay of the shortest history + one operation); Get is compared with the reference in every state"
    except vlib.EngineError as e:
        rep.engine_errors.append(str(e))
    # concurrent carriers (Set) and sessions (Get) on a ring small enough to wrap during a Get
    try:
        U = "all interleavings up to Mazurkiewicz equivalence (DPOR + sleep sets)"
        passes = [{"harness": "c18-ringconc", "cfg": {"setters": "2"}, "budget_s": 20, "label": "ring of capacity 1-2, 2 carriers storing other clients (one also re-storing A) x 2 sessions looking up A and B: " + U},
                  {"harness": "c18-ringconc", "cfg": {"setters": "3"}, "budget_s": 30, "label": "the same with 3 carriers: " + U}]
        summary, tot, samples, exh = sched.run_passes(rep, server_common.build(), passes, 60)
        rep.coverage["concurrent_ring"] = {"passes": summary, "executions": tot["executions"], "transitions": tot["transitions"], "exhaustive": exh}
        rep.coverage["states"] += tot["states"]
        rep.coverage["transitions"] += tot["transitions"]
        rep.coverage["traces_validated_against_impl"] += tot["executions"]
    except vlib.EngineError as e:
        rep.engine_errors.append(str(e))
    # the same harness in race mode: the verdict of the exploration above holds for data-race-free code only
    # (an access outside the lock is not a scheduling point), so unordered accesses to the map are looked
    # for in the same executions
    try:
        import racelib
        rb = server_common.build(race=True)
        rwork = os.path.dirname(rb)
        rr = vlib.explore(rb, "c18-ringconc", -1, 20, cfg={"setters": "3"}, race=True, por=True, cache=False)
        viol, honly, mx, eng = racelib.collect(rwork, "c18-ringconc")
        for k in eng:
            rep.engine_errors.append("race report inside the scheduler runtime itself (engine bug): " + k)
        for sig, text in sorted(viol.items()):
            if "turbotunnel.go" in sig or "clientIDMap" in sig:
                rep.finding(sig, text.split("\n")[0] + " (the lookups of concurrent sessions are not ordered with the carriers' updates: a session can be given the slot's new contents)",
                            {"harness": "c18-ringconc", "cfg": {"setters": "3"}, "kind": "race detector report", "report": text})
        rep.coverage["concurrent_ring_race_mode"] = {"executions": rr["executions"], "exhaustive": rr["exhaustive"], "races_in_the_map": sorted(k for k in viol if "turbotunnel.go" in k or "clientIDMap" in k)}
    except (vlib.EngineError, SystemExit) as e:
        rep.engine_errors.append("race-mode pass: " + str(e))
    # attribution on the real stack: the sessions section of the C05 tier-2 harness (client address at
    # accept time and asked again later, carriers from different addresses)
    try:
        res3 = enumlib.run(bsrv, "TestVerifEnumC05T2", tier, 100, env_extra={"VERIF_T2_ONLY": "sessions"})
        for f in res3["findings"]:
            if f["sig"].startswith("accept:"):
                rep.finding(f["sig"], f["msg"], {"input": f["input"], "kind": "real-stack scenario (loopback WebSocket carriers, kcp-go, smux)", "test": "TestVerifEnumC05T2"})
        rep.coverage["real_stack_sessions"] = {"scenarios": res3["evaluations"], "completed": res3["exhaustive"]}
        rep.coverage["traces_validated_against_impl"] += res3["evaluations"]
    except vlib.EngineError as e:
        rep.engine_errors.append(str(e))
    rep.assumptions += ["attribution of carriers to sessions under interleaving is explored by the C05 tier-1 harness; here the real listener is driven over loopback (real time: byte/count/address comparisons only)"]
    rep.finish()


if __name__ == "__main__":
    main()
