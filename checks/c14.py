#!/usr/bin/env python3
"""C14 — every HTTP request to the broker gets a well-formed response (DESIGN.md §3 C14: tier 1 under the
scheduler, tier 2 against the broker binary)."""
import os
import sys

sys.path.insert(0, os.path.join(os.path.dirname(os.path.abspath(__file__)), "..", "lib"))
import sched  # noqa: E402
import vlib  # noqa: E402
import c14_t2  # noqa: E402
from broker_common import build_broker  # noqa: E402


def main():
    tier = vlib.tier_arg(sys.argv)
    rep = vlib.Report("C14", tier, "model_checking")
    binary = build_broker()
    U = "all interleavings up to Mazurkiewicz equivalence (DPOR + sleep sets, virtual time)"
    passes = [
        {"harness": "c14", "cfg": {"requests": "1"}, "budget_s": 70 if tier == "quick" else 300,
         "label": "single request: 5 methods x 12 paths x 15 body classes (empty, valid, mutated, legacy, garbage, 99999..200000 bytes, bad/absent fingerprint) x 6 Snowflake-NAT-Type values x {Content-Length, chunked} x 3 broker states, then a happy-path probe: " + U},
        {"harness": "c14-legacy", "budget_s": 20, "label": "legacy vs versioned client request on identical broker states x 6 NAT header values x 3 states"},
        {"harness": "c14", "cfg": {"requests": "2", "alphabet": "reduced"}, "budget_s": 40 if tier == "quick" else 300,
         "label": "all ordered pairs of requests from a reduced alphabet of 12 x 3 broker states, then the probe: " + U},
    ]
    passes.append({"harness": "c14", "cfg": {"requests": "2", "alphabet": "reduced", "overlap": "1"}, "budget_s": 40 if tier == "quick" else 300,
                   "label": "all ordered pairs from the reduced alphabet arriving at the same instant or one second apart (overlapping; valid proxy polls share a session id) x 3 broker states, then the probe: " + U})
    if tier != "quick":
        passes.append({"harness": "c14", "cfg": {"requests": "3", "alphabet": "reduced"}, "budget_s": 300, "label": "all ordered triples from the reduced alphabet x 3 states"})
    summary, tot, samples, exh = sched.run_passes(rep, binary, passes, 180 if tier == "quick" else 1200)
    sched.sched_coverage(rep, summary, tot, samples, exh)
    # tier 2: the same matrix as raw HTTP exchanges with the broker binary
    c14_t2.run(rep, tier)
    rep.assumptions += [
        "handlers are registered on a fresh ServeMux with the same eight registrations main() makes (the routing table itself lives in main())",
        "a handler that returns yields a complete HTTP response in net/http; a handler panic is a dropped connection",
        "virtual time; httptest.ResponseRecorder as the ResponseWriter",
    ]
    rep.finish()


if __name__ == "__main__":
    main()
