#!/usr/bin/env python3
"""C07 — no IP address survives the log scrubber (DESIGN.md §3 C07).

Two harness binaries feed one report: common/safelog (Scrub and LogScrubber: delimiter contexts,
several addresses per line, write splits) and common/event (the String() methods that call Scrub).
The concurrent-writers clause is explored under the scheduler (harness c07-writers) without
partial-order reduction."""
import glob
import json
import os
import sys
from concurrent.futures import ThreadPoolExecutor

sys.path.insert(0, os.path.join(os.path.dirname(os.path.abspath(__file__)), "..", "lib"))
import enumlib  # noqa: E402
import sched  # noqa: E402
import vlib  # noqa: E402
import safelog_common  # noqa: E402

H = os.path.join(vlib.VERIF, "harness")
LIB = {os.path.join(vlib.REPO, "verifc07", "lib.go"): os.path.join(H, "safelog", "c07lib", "lib.go")}

RULE = ("bounded-exhaustive enumeration of address spellings (grammar filtered by net.ParseIP/net.SplitHostPort plus the forms Go prints) x delimiter contexts x "
        "1-3 addresses per line x joiners x write splits on the real Scrub/LogScrubber/event String() code; oracle: no maximal run of [0-9A-Fa-f:.] in the output "
        "(also without one trailing ':' or '.') is accepted by Go as IP or ip:port denoting an injected address (or its dotted IPv4 tail); "
        "a case is one input line (or one split of one input), distinct by its bytes")


def shard_findings(binary, test):
    """The harness reports, per shard, the shortest input of every signature."""
    out = []
    for path in glob.glob(os.path.join(os.path.dirname(binary), "enum-%s-*.json" % test)):
        out += json.load(open(path)).get("findings") or []
    return out


def smallest(findings):
    """Keep, per signature, the finding with the shortest input over all shards and binaries."""
    best = {}
    for f in findings:
        inp = (f.get("input") or {}).get("input", "")
        key = (len(inp), inp, f["msg"])
        if f["sig"] not in best or key < best[f["sig"]][0]:
            best[f["sig"]] = (key, f)
    return [best[s][1] for s in sorted(best)]


def build_and_run(tier, extra_overlay=None, suffix=""):
    ov = dict(LIB)
    ov.update(extra_overlay or {})
    jobs = [
        ("c07" + suffix, "common/safelog", {"zz_verif_c07_test.go": os.path.join(H, "safelog", "c07_test.go")}, "TestVerifEnum", 100 if tier == "quick" else 840),
        ("c07event" + suffix, "common/event", {"zz_verif_c07_test.go": os.path.join(H, "event", "c07_test.go")}, "TestVerifEnumC07Event", 60 if tier == "quick" else 300),
    ]
    with ThreadPoolExecutor(2) as ex:
        bins = list(ex.map(lambda j: enumlib.build(j[0], j[1], j[2], extra_overlay=ov), jobs))
    merged, findings = None, []
    for j, b in zip(jobs, bins):
        # merged by hand into one result: enumlib.report would overwrite the per-signature counts of an earlier binary
        merged = enumlib.merge(merged, enumlib.run(b, j[3], tier, j[4]))
        findings += shard_findings(b, j[3])
    merged["findings"] = smallest(findings)
    return merged


def main():
    tier = vlib.tier_arg(sys.argv)
    rep = vlib.Report("C07", tier, "exploration")
    try:
        enumlib.report(rep, build_and_run(tier), RULE)
    except vlib.EngineError as e:
        rep.engine_errors.append(str(e))
    # concurrent writers: scheduler, every interleaving of the synchronisation operations up to a preemption bound
    try:
        binary = safelog_common.build()
        q = tier == "quick"
        passes = [{"harness": "c07-writers", "cfg": {"writers": "2"}, "bound": 3 if q else 5, "por": False, "cache": False, "budget_s": 25 if q else 200,
                   "label": "2 goroutines writing whole log lines (6 scripts each: with/without addresses, two lines in one Write, two Writes) through one LogScrubber into a sink that can be descheduled before it consumes the bytes: all interleavings up to the preemption bound, no reduction"},
                  {"harness": "c07-writers", "cfg": {"writers": "3"}, "bound": 2 if q else 3, "por": False, "cache": False, "budget_s": 25 if q else 300,
                   "label": "3 writers, same scripts"}]
        summary, tot, samples, exh = sched.run_passes(rep, binary, passes, 60 if q else 520)
        rep.coverage["concurrent_writers"] = {"passes": summary, "executions": tot["executions"], "transitions": tot["transitions"], "exhaustive_within_bound": exh}
    except vlib.EngineError as e:
        rep.engine_errors.append(str(e))
    rep.assumptions += [
        "address forms are those of the stated grammar that net.ParseIP / net.SplitHostPort accept, plus IP.String, netip.Addr.String and TCPAddr.String of the same IPs; zones appear only as the right context '%'",
        "delimiter contexts are the byte next to the address: '.' and ':' on the left and ':' on the right (other than ': ' and ':\\n') are not enumerated because they change what the address token is; an address ending in ':' is not put before ': '",
        "': ' as right delimiter is included although the statement's wording exempts ':' (it is the form Go's own errors print: 'dial tcp 1.2.3.4:80: ...')",
        "the oracle accepts any output in which the injected IP can no longer be parsed back (stray ':' or port digits, partial placeholders); preservation of the surrounding text is not checked",
        "concurrent writers: each writer hands whole lines to Write (as log.Logger does); the oracle is: every sink write is a sequence of complete lines, no injected address and no byte of a caller's reused buffer reaches the sink, and the multiset of lines received equals the scrubbed lines written",
    ]
    rep.finish()


if __name__ == "__main__":
    main()
