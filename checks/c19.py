#!/usr/bin/env python3
"""C19 — published broker counts are rounded up to 8 and never too low (DESIGN.md §3 C19)."""
import glob
import os
import sys

sys.path.insert(0, os.path.join(os.path.dirname(os.path.abspath(__file__)), "..", "lib"))
import enumlib  # noqa: E402
import sched  # noqa: E402
import vlib  # noqa: E402
from broker_common import build_broker  # noqa: E402


def files(d):
    return {"zz_verif_" + os.path.basename(f): f for f in glob.glob(os.path.join(vlib.VERIF, "harness", d, "*_test.go"))}


def main():
    tier = vlib.tier_arg(sys.argv)
    rep = vlib.Report("C19", tier, "model_checking")
    binary = build_broker()
    passes = [
        # the rounded counter mixes atomics with plain reads: no partial-order reduction (it assumes data-race
        # freedom); plain exhaustive DFS over all interleavings of the atomic operations
        {"harness": "c19-counter", "cfg": {"threads": "2" if tier == "quick" else "2"}, "bound": 3 if tier == "quick" else 4, "cache": False, "por": False, "budget_s": 40 if tier == "quick" else 300,
         "label": "roundedCounter: base in {0,7,8} x 2-3 threads x 1-2 Inc each + a reader calling Write twice; every interleaving of the atomic operations with <= %d preemptions (no reduction: the code has plain racy reads); history checked for linearizability (brute force) against 'n++ ; read = ceil8(n)'" % (3 if tier == "quick" else 4)},
        {"harness": "c19-metrics", "budget_s": 40, "label": "metrics log + rounded prometheus counters after n in {0,1,7,8,9,16,17} events of each of 7 kinds driven through the real IPC calls (virtual time)"},
        {"harness": "c19-ips", "cfg": {"maxlen": "2" if tier == "quick" else "3"}, "budget_s": 40 if tier == "quick" else 300,
         "label": "unique address figures: all poll sequences of length <= %s over 3 addresses x 5 proxy types x 2 NAT types with the repository's test geoip data" % ("2" if tier == "quick" else "3")},
        {"harness": "c19-ips", "cfg": {"maxlen": "2" if tier == "quick" else "3", "conc": "1"}, "budget_s": 40 if tier == "quick" else 300,
         "label": "unique address figures when the polls of a period arrive together (overlapping handlers; all multisets of <= %s polls over 3 addresses x 5 types): all interleavings up to Mazurkiewicz equivalence (DPOR + sleep sets)" % ("2" if tier == "quick" else "3")},
    ]
    summary, tot, samples, exh = sched.run_passes(rep, binary, passes, 170 if tier == "quick" else 1100)
    try:
        eb = enumlib.build("broker-enum", "broker", files("broker_enum"))
        res = enumlib.run(eb, "TestVerifEnumC19Bin", tier, 60)
        for f in res["findings"]:
            rep.finding(f["sig"], f["msg"], {"input": f["input"], "kind": "binCount input"})
        summary.append({"label": "binCount(n) == ceil8(n) for every n in [0, 2^20] and around 2^31, 2^32, 2^52, 2^53", "cases": res["evaluations"], "exhaustive": res["exhaustive"]})
        tot["executions"] += res["evaluations"]
        exh = exh and res["exhaustive"]
        # inject the clock: overlay writer.go with a copy importing verifclock/vtime as "time"
        work = vlib.workdir("sinkcluster-enum")
        src = open(os.path.join(vlib.REPO, "common/ipsetsink/sinkcluster/writer.go")).read()
        if src.count('\t"time"\n') != 1:
            raise vlib.EngineError("sinkcluster/writer.go: time import not found exactly once")
        src = "//go:build go1.21\n\n" + src.replace('\t"time"\n', '\ttime "git.torproject.org/pluggable-transports/snowflake.git/v2/verifclock/vtime"\n')
        wcopy = os.path.join(work, "writer_clock.go")
        open(wcopy, "w").write(src)
        ov = {os.path.join(vlib.REPO, "common/ipsetsink/sinkcluster/writer.go"): wcopy,
              os.path.join(vlib.REPO, "verifclock/clock.go"): os.path.join(vlib.VERIF, "engine/clock/clock.go"),
              os.path.join(vlib.REPO, "verifclock/vtime/vtime.go"): os.path.join(vlib.VERIF, "engine/clock/vtime/vtime.go")}
        jb = enumlib.build("sinkcluster-enum", "common/ipsetsink/sinkcluster", files("sinkcluster"), extra_overlay=ov)
        res = enumlib.run(jb, "TestVerifEnumC19Journal", tier, 200)
        for f in res["findings"]:
            rep.finding(f["sig"], f["msg"], {"input": f["input"], "kind": "journal case"})
        for name in res["section_order"]:
            sec = res["sections"][name]
            summary.append({"label": name + ": " + sec.get("note", ""), "cases": sec["evaluations"], "exhaustive": sec["exhaustive"]})
            tot["executions"] += sec["evaluations"]
        exh = exh and res["exhaustive"]
    except vlib.EngineError as e:
        rep.engine_errors.append(str(e))
    sched.sched_coverage(rep, summary, tot, samples, exh)
    rep.assumptions += ["virtual time for the broker's 10 s waits", "the journal check drives ClusterWriter with an injected clock (time.Now replaced through a build-time overlay of the time import)",
                        "counts above 2^53 (where the float detour of binCount loses integers) are outside any reachable history and not claimed"]
    rep.finish()


if __name__ == "__main__":
    main()
