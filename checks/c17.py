#!/usr/bin/env python3
"""C17 — turbotunnel packet adapters: no surfaced errors, leaks or aliasing (DESIGN.md §3 C17)."""
import os
import sys

sys.path.insert(0, os.path.join(os.path.dirname(os.path.abspath(__file__)), "..", "lib"))
import sched  # noqa: E402
import vlib  # noqa: E402
import tt_common  # noqa: E402


def main():
    tier = vlib.tier_arg(sys.argv)
    rep = vlib.Report("C17", tier, "model_checking")
    binary = tt_common.build()
    U = "all interleavings up to Mazurkiewicz equivalence (unbounded preemptions; DPOR + sleep sets)"
    if tier == "quick":
        passes = [
            {"harness": "c17a", "cfg": {"carriers": "1"}, "budget_s": 45, "label": "RedialPacketConn, 1 scripted carrier x 5 failure scripts x dial end {error, block} x close at {never,1s,0,3s}: " + U},
            {"harness": "c17a", "cfg": {"carriers": "2", "fails": "4", "dialends": "1", "closes": "2"}, "budget_s": 50, "label": "RedialPacketConn, 2 scripted carriers x 4 failure scripts each x close at {never,1s}: " + U},
        ]
        total = 100
    else:
        passes = [
            {"harness": "c17a", "cfg": {"carriers": "1"}, "budget_s": 100, "label": "RedialPacketConn, 1 scripted carrier: " + U},
            {"harness": "c17a", "cfg": {"carriers": "2"}, "budget_s": 350, "label": "RedialPacketConn, 2 scripted carriers, full alphabets: " + U},
            {"harness": "c17a", "cfg": {"carriers": "3", "fails": "3", "dialends": "2", "closes": "2"}, "budget_s": 400, "label": "RedialPacketConn, 3 scripted carriers: " + U},
        ]
        total = 900
    summary, tot, samples, exh = sched.run_passes(rep, binary, passes, total)
    sched.sched_coverage(rep, summary, tot, samples, exh)
    rep.assumptions += ["virtual time: computation is instantaneous relative to timers",
                        "instrumenter fidelity (the package's own tests pass on the instrumented sources at setup)",
                        "carriers are scripted fakes built from instrumented primitives (harness/turbotunnel/fakes.go)"]
    rep.finish()


if __name__ == "__main__":
    main()
