#!/usr/bin/env python3
"""C17 — turbotunnel packet adapters: no surfaced errors, leaks or aliasing (DESIGN.md §3 C17)."""
import os
import sys

sys.path.insert(0, os.path.join(os.path.dirname(os.path.abspath(__file__)), "..", "lib"))
import enumlib  # noqa: E402
import sched  # noqa: E402
import vlib  # noqa: E402
import tt_common  # noqa: E402


def main():
    tier = vlib.tier_arg(sys.argv)
    rep = vlib.Report("C17", tier, "model_checking")
    binary = tt_common.build()
    U = "all interleavings up to Mazurkiewicz equivalence (unbounded preemptions; DPOR + sleep sets)"
    if tier == "quick":
        passes = [
            {"harness": "c17a", "cfg": {"carriers": "1"}, "budget_s": 45, "label": "RedialPacketConn, 1 scripted carrier x 5 failure scripts x dial end {error, block} x close at {never,1s,0,3s}: " + U},
            {"harness": "c17a", "cfg": {"carriers": "2", "fails": "4", "dialends": "1", "closes": "2"}, "budget_s": 50, "label": "RedialPacketConn, 2 scripted carriers x 4 failure scripts each x close at {never,1s}: " + U},
        ]
        passes += [
            {"harness": "c17a-backlog", "budget_s": 30, "label": "RedialPacketConn with a congested carrier: one packet in flight, then the user writes queueSize-1 / +0 / +1 / +50 more (send queue full, packets dropped), then the congested write fails while the read side stays blocked: redial, every carrier closed, no goroutine left"},
            {"harness": "c17b-seq", "cfg": {"depth": "5"}, "budget_s": 20, "label": "QueuePacketConn, all sequences of 5 operations over {QueueIncoming a/b, ReadFrom, WriteTo a/b, recv OutgoingQueue a/b, Close} with buffer scribbling, against a FIFO reference"},
            {"harness": "c17b-overflow", "budget_s": 10, "label": "QueuePacketConn, queueSize+5 packets each way: overflow dropped, order kept, nothing blocks"},
            {"harness": "c17b-full", "cfg": {"maxproducers": "2"}, "budget_s": 30, "label": "QueuePacketConn, 2 concurrent producers (QueueIncoming / WriteTo) meeting a queue with 0/1/2 free slots that nobody drains (optionally closed afterwards): every call returns, order kept, exactly the free slots are taken: " + U},
            {"harness": "c17b-written-to", "budget_s": 20, "label": "QueuePacketConn with its real sweeper on virtual time: a client written to every T/4, T/2, T-1s or 0.5 s for four timeouts (optionally another client in between): never discarded, every packet still queued in order"},
            {"harness": "c17b-conc", "budget_s": 30, "label": "QueuePacketConn, 2 feeders + reader + writer (+ closer): " + U},
            {"harness": "c17c-sweeper", "budget_s": 10, "label": "ClientMap with its real sweeper on virtual time: first seen at {0,T/4,T/2,T/2-1,3T/4} x refresh {none,T/2,T-1,T/2+1,2ns,0.5s,0.999s,T/4}: present with contents at idle T-1ns, discarded and closed by 1.5T"},
        ]
        total = 175
    else:
        passes = [
            {"harness": "c17a", "cfg": {"carriers": "1"}, "budget_s": 100, "label": "RedialPacketConn, 1 scripted carrier: " + U},
            {"harness": "c17a", "cfg": {"carriers": "2"}, "budget_s": 350, "label": "RedialPacketConn, 2 scripted carriers, full alphabets: " + U},
            {"harness": "c17a", "cfg": {"carriers": "3", "fails": "3", "dialends": "2", "closes": "2"}, "budget_s": 400, "label": "RedialPacketConn, 3 scripted carriers: " + U},
        ]
        passes += [
            {"harness": "c17a-backlog", "budget_s": 200, "label": "RedialPacketConn with a congested carrier and a full send queue"},
            {"harness": "c17b-seq", "cfg": {"depth": "6"}, "budget_s": 120, "label": "QueuePacketConn, all sequences of 6 operations, against a FIFO reference"},
            {"harness": "c17b-overflow", "budget_s": 10, "label": "QueuePacketConn overflow"},
            {"harness": "c17b-full", "cfg": {"maxproducers": "3"}, "budget_s": 120, "label": "QueuePacketConn, 2-3 concurrent producers meeting an almost full queue: " + U},
            {"harness": "c17b-written-to", "budget_s": 60, "label": "QueuePacketConn with its real sweeper: a client written to all the time is never discarded"},
            {"harness": "c17b-conc", "budget_s": 60, "label": "QueuePacketConn, 2 feeders + reader + writer (+ closer): " + U},
            {"harness": "c17c-sweeper", "budget_s": 10, "label": "ClientMap with its real sweeper on virtual time"},
        ]
        total = 1300
    summary, tot, samples, exh = sched.run_passes(rep, binary, passes, total)
    # (c) explicit-clock inner map: explicit-state search to a fixpoint (sequential, no scheduler)
    try:
        eb = enumlib.build("turbotunnel-enum", "common/turbotunnel", {"zz_verif_c17c_test.go": os.path.join(vlib.VERIF, "harness/turbotunnel_enum/c17c_test.go")})
        res = enumlib.run(eb, "TestVerifEnumC17c", tier, 60, nshards=1)
        for f in res["findings"]:
            rep.finding(f["sig"], f["msg"], {"input": f["input"], "kind": "operation sequence on clientMapInner"})
        bfs = [s for s in res["samples"] if isinstance(s, dict) and "reachable_states" in s]
        if bfs:
            tot["states"] += bfs[0]["reachable_states"]
            tot["transitions"] += bfs[0]["transitions"]
            tot["executions"] += bfs[0]["transitions"]
            summary.append({"label": "clientMapInner with explicit clock: breadth-first to a fixpoint over SendQueue/removeExpired/clock steps", "exhaustive": res["exhaustive"], **bfs[0]})
        exh = exh and res["exhaustive"]
    except vlib.EngineError as e:
        rep.engine_errors.append(str(e))
    sched.sched_coverage(rep, summary, tot, samples, exh)
    rep.assumptions += ["virtual time: computation is instantaneous relative to timers",
                        "instrumenter fidelity (the package's own tests pass on the instrumented sources at setup)",
                        "carriers are scripted fakes built from instrumented primitives (harness/turbotunnel/fakes.go)"]
    rep.finish()


if __name__ == "__main__":
    main()
