#!/usr/bin/env python3
"""C08 — local addresses are stripped from SDP, nothing else is lost (DESIGN.md §3 C08)."""
import glob
import os
import sys

sys.path.insert(0, os.path.join(os.path.dirname(os.path.abspath(__file__)), "..", "lib"))
import enumlib  # noqa: E402
import vlib  # noqa: E402

RULE = ("bounded-exhaustive enumeration of SDP documents from a grammar (boundary addresses of every RFC range x candidate types x layouts x media sections; "
        "pairs; triples) and of mutations, against an independent net/netip classifier and line-by-line preservation; distinct by generated document")


def files(d):
    return {"zz_verif_" + os.path.basename(f): f for f in glob.glob(os.path.join(vlib.VERIF, "harness", d, "*_test.go"))}


def main():
    tier = vlib.tier_arg(sys.argv)
    rep = vlib.Report("C08", tier, "exploration")
    try:
        b = enumlib.build("util", "common/util", files("util"))
        enumlib.report(rep, enumlib.run(b, "TestVerifEnumC08", tier, 120), RULE)
        b = enumlib.build("clientlib-enum", "client/lib", files("clientlib"))
        enumlib.report(rep, enumlib.run(b, "TestVerifEnumC08Client", tier, 60, nshards=4), RULE)
    except vlib.EngineError as e:
        rep.engine_errors.append(str(e))
    rep.assumptions += ["pion/sdp Unmarshal->Marshal is taken as the normal form of untouched fields",
                        "only well-formed candidate lines (RFC 5245 grammar) are subject to the stripping oracle; malformed ones are checked for totality",
                        "the proxy's sendAnswer call site is covered by reading (same function behind the same flag), not driven"]
    rep.finish()


if __name__ == "__main__":
    main()
