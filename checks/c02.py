#!/usr/bin/env python3
"""C02 — broker never cross-wires offers, answers or bridges (DESIGN.md §3 C02)."""
import os
import sys

sys.path.insert(0, os.path.join(os.path.dirname(os.path.abspath(__file__)), "..", "lib"))
import sched  # noqa: E402
import vlib  # noqa: E402
from broker_common import build_broker  # noqa: E402


def main():
    tier = vlib.tier_arg(sys.argv)
    rep = vlib.Report("C02", tier, "model_checking")
    binary = build_broker()
    U = "all interleavings up to Mazurkiewicz equivalence (unbounded preemptions; DPOR + sleep sets)"
    if tier == "quick":
        passes = [
            {"harness": "c02", "cfg": {"P": "1", "C": "2", "beh": "3", "via": "4", "fp": "4"}, "budget_s": 30,
             "label": "1 proxy x 2 clients x {prompt,duplicate,unknown-id} x 4 entry points x 3 fingerprints: " + U},
            {"harness": "c02", "cfg": {"P": "2", "C": "1", "beh": "3", "via": "4", "fp": "9"}, "budget_s": 30,
             "label": "2 proxies x 1 client: " + U},
            {"harness": "c02", "cfg": {"P": "2", "C": "2", "beh": "2", "via": "2", "fp": "3"}, "budget_s": 40,
             "label": "2 proxies x 2 clients ({prompt,duplicate} x {ipc,post} x {none,F2,absent}): " + U},
        ]
        total = 100
    else:
        passes = [
            {"harness": "c02", "cfg": {"P": "1", "C": "2", "beh": "5", "via": "4", "fp": "6"}, "budget_s": 100,
             "label": "1 proxy x 2 clients, all behaviours/entry points/fingerprints: " + U},
            {"harness": "c02", "cfg": {"P": "2", "C": "1", "beh": "5", "via": "4", "fp": "9"}, "budget_s": 100,
             "label": "2 proxies x 1 client, all behaviours/entry points/fingerprints: " + U},
            {"harness": "c02", "cfg": {"P": "2", "C": "2", "beh": "3", "via": "4", "fp": "3"}, "budget_s": 300,
             "label": "2 proxies x 2 clients x 4 entry points x 3 fingerprints: " + U},
            {"harness": "c02", "cfg": {"P": "2", "C": "2", "beh": "2", "via": "2", "fp": "2", "arrivals": "3"}, "budget_s": 200,
             "label": "2 proxies x 2 clients x arrivals {0,5s,=timeout}: " + U},
            {"harness": "c02", "cfg": {"P": "3", "C": "2", "beh": "1", "via": "2", "fp": "2"}, "budget_s": 200,
             "label": "3 proxies x 2 clients: " + U},
        ]
        total = 900
    summary, tot, samples, exh = sched.run_passes(rep, binary, passes, total)
    sched.sched_coverage(rep, summary, tot, samples, exh)
    rep.assumptions += [
        "virtual time: computation is instantaneous relative to timers",
        "instrumenter fidelity (repository's own broker tests pass on instrumented sources at setup)",
        "metrics.lock critical sections commute (state-cache abstraction argued in harness/broker/world_test.go)",
        "proxies are interchangeable: behaviour vectors explored in non-decreasing order only (symmetry)",
    ]
    rep.finish()


if __name__ == "__main__":
    main()
