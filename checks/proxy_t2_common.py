import glob
import os
import sys

sys.path.insert(0, os.path.join(os.path.dirname(os.path.abspath(__file__)), "..", "lib"))
import enumlib  # noqa: E402
import vlib  # noqa: E402


def build(race=False):
    """Uninstrumented test binary of proxy/lib with the C16 tier-2 harness (real proxy, real pion clients)."""
    files = {"zz_verif_" + os.path.basename(f): f for f in glob.glob(os.path.join(vlib.VERIF, "harness", "proxylib_t2", "*_test.go"))}
    return enumlib.build("proxylib-t2" + ("-race" if race else ""), "proxy/lib", files, race=race)
