#!/usr/bin/env python3
"""C06 — proxies relay only to bridges inside their accepted pattern (DESIGN.md §3 C06)."""
import glob
import os
import sys

sys.path.insert(0, os.path.join(os.path.dirname(os.path.abspath(__file__)), "..", "lib"))
import enumlib  # noqa: E402
import sched  # noqa: E402
import vlib  # noqa: E402
import proxy_common  # noqa: E402
from broker_common import build_broker  # noqa: E402


def files(d):
    return {"zz_verif_" + os.path.basename(f): f for f in glob.glob(os.path.join(vlib.VERIF, "harness", d, "*_test.go"))}


def main():
    tier = vlib.tier_arg(sys.argv)
    rep = vlib.Report("C06", tier, "model_checking")
    summary, tot, samples, exh = [], {"states": 0, "transitions": 0, "executions": 0, "outcomes": 0}, [], True
    try:
        # (i) matcher law
        eb = enumlib.build("namematcher", "common/namematcher", files("namematcher"))
        res = enumlib.run(eb, "TestVerifEnumC06", tier, 60)
        for f in res["findings"]:
            rep.finding(f["sig"], f["msg"], {"input": f["input"], "kind": "pattern pair + hostname"})
        for name in res["section_order"]:
            sec = res["sections"][name]
            summary.append({"label": "(i) " + name + ": " + sec.get("note", ""), "cases": sec["evaluations"], "exhaustive": sec["exhaustive"]})
            tot["executions"] += sec["evaluations"]
        exh = exh and res["exhaustive"]
        samples += [{"pass": "matcher law", "trace": s} for s in res["samples"][:1]]
    except vlib.EngineError as e:
        rep.engine_errors.append(str(e))
    # (ii) broker rejection
    s2, t2, sm2, e2 = sched.run_passes(rep, build_broker(), [
        {"harness": "c06-broker", "cfg": {"presumed": "4" if tier == "quick" else "10"}, "budget_s": 40 if tier == "quick" else 300,
         "label": "(ii) broker: allowed pattern (10) x proxy pattern (10) x field present/absent x presumed pattern (%s): poll answered 'incorrect relay pattern' iff the effective pattern is not a superset (independent reference), never registered, a client arriving next is refused" % ("4" if tier == "quick" else "10")},
        {"harness": "c06-broker", "cfg": {"presumed": "4" if tier == "quick" else "10", "prior": "5"}, "budget_s": 40 if tier == "quick" else 300,
         "label": "after an earlier poll on the same broker {none, explicit empty pattern, the allowed pattern, legacy, the same pattern explicit}: (ii) broker: allowed pattern (10) x proxy pattern (10) x field present/absent x presumed pattern (%s): poll answered 'incorrect relay pattern' iff the effective pattern is not a superset (independent reference), never registered, a client arriving next is refused" % ("4" if tier == "quick" else "10")}], 100 if tier == "quick" else 640)
    # (iii) proxy side
    s3, t3, sm3, e3 = sched.run_passes(rep, proxy_common.build(), [
        {"harness": "c06-proxy", "cfg": {"prior": "1"}, "budget_s": 60 if tier == "quick" else 300,
         "label": "(iii) proxy, optionally after an earlier session whose relay URL was acceptable: broker-supplied relay URLs from a grammar (6 schemes x 3 userinfo x 11 hosts x 3 ports x 3 tails) x 3 patterns x AllowNonTLSRelay through the real runSession + datachannelHandler: every dialled host satisfies the proxy's own matcher, wss unless non-TLS allowed, slot released"}], 200 if tier == "quick" else 700)
    for k in tot:
        tot[k] += t2[k] + t3[k]
    sched.sched_coverage(rep, summary + s2 + s3, tot, samples + sm2 + sm3, exh and e2 and e3)
    rep.assumptions += ["(iii) uses the C16 seams (no pion); the dial is observed at websocket.DefaultDialer.NetDial",
                        "virtual time; scripted broker"]
    rep.finish()


if __name__ == "__main__":
    main()
