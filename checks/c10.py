#!/usr/bin/env python3
"""C10 — AMP armor round-trips and survives cache-style rewriting (DESIGN.md §3 C10)."""
import os
import sys

sys.path.insert(0, os.path.join(os.path.dirname(os.path.abspath(__file__)), "..", "lib"))
import enumlib  # noqa: E402
import vlib  # noqa: E402


def main():
    tier = vlib.tier_arg(sys.argv)
    rep = vlib.Report("C10", tier, "exploration")
    try:
        binary = enumlib.build("c10", "common/amp", {"zz_verif_c10_test.go": os.path.join(vlib.VERIF, "harness/amp/c10_test.go")})
        res = enumlib.run(binary, "TestVerifEnum", tier, 50 if tier == "quick" else 800)
        enumlib.report(rep, res, "bounded-exhaustive enumeration on the real encoder/decoder (boundary payload lengths x contents, write scripts and read patterns with bounded deviations, "
                       "whitespace substitutions, markup insertion at every offset outside the pre elements, every truncation point, all token strings up to a length, endless sources) "
                       "against an independent structural scanner of the armored document and a token-level reference of doc.go's decoding algorithm; "
                       "a case is non-trivial if the payload / separator set / token string is not empty, distinct after canonicalising to (payload, script or rewriting, read pattern)")
    except vlib.EngineError as e:
        rep.engine_errors.append(str(e))
    rep.assumptions += [
        "the 'fixed AMP boilerplate' is the one shown in the example of common/amp/doc.go (a trailing newline after </html> is tolerated)",
        "a rewriting that grows a pre element beyond 32 KiB - 16 bytes of text (doubled separators / CRLF on a full element) may be answered with an error (oversized element); it must never yield different data without an error",
        "'outside the pre elements' = not between the '<' of <pre> and the '>' of </pre> and not inside a tag, declaration or comment of the surrounding document",
        "endless sources: only an endless text inside a pre element must be cut off (error after <= 1 MiB consumed); for other endless tokens and endless sequences of small tokens the statement only forbids unbounded buffering, "
        "measured as largest Read request <= 1 MiB and live-heap growth <= 4 MiB; the source ends after 8 MiB (quick) / 64 MiB (thorough)",
        "hang detection: watchdog of 60 s per case, a hit is re-run alone three times with 120 s (quick) / 300 s (thorough) before it is reported",
        "malformed token strings (stray, nested or unterminated pre, unknown version, bad base64) are required to give an error only when built from complete tags, text and whitespace, where HTML tokenisation is unambiguous",
    ]
    rep.finish()


if __name__ == "__main__":
    main()
