import glob
import os
import sys

sys.path.insert(0, os.path.join(os.path.dirname(os.path.abspath(__file__)), "..", "lib"))
import vlib  # noqa: E402

HARNESSES = ("c07-writers",)


def build(race=False):
    hdir = os.path.join(vlib.VERIF, "harness", "safelog_sched")
    hf = {"zz_verif_" + os.path.basename(f): f for f in glob.glob(os.path.join(hdir, "*_test.go"))}
    adds = {"common/safelog/zz_verif_" + os.path.basename(f): f for f in glob.glob(os.path.join(hdir, "*.go")) if not f.endswith("_test.go")}
    return vlib.build_harness("safelog", ["common/safelog"], "common/safelog", hf, adds=adds, race=race)
