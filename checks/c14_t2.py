"""C14 tier 2 — raw HTTP exchanges with the real broker binary (DESIGN.md §3 C14).

Builds ./broker from the tree under check, starts it on a loopback port with the flags an operator
uses (-disable-tls, bridge list, relay patterns, metrics and distinct-IP logs) and sends the request
matrix of tier 1 over raw sockets: every request on its own connection, pairs on one keep-alive
connection, then a probe (proxy poll + client offer + answer + the read-only endpoints).  Oracle, from
the statement: every request receives a complete, well-formed HTTP response within bounded time, the
process stays up, and later requests are still served.  Real time: a missing or late response is
believed only if the same request, sent alone three more times, fails every time.
"""
import base64
import json
import os
import socket
import subprocess
import threading
import time
from concurrent.futures import ThreadPoolExecutor

import vlib

FP_DEFAULT = "2B280B23E1107BB62ABFC40DDCC8824814F80A72"
FP_SECOND = "8838024498816A039FCBBAB14E6F40A0843051FA"
FP_ABSENT = "0123456789ABCDEF0123456789ABCDEF01234567"
PATTERN = "snowflake.torproject.net$"
METHODS = ["POST", "GET", "OPTIONS", "PUT", "HEAD"]
PATHS = ["/proxy", "/client", "/answer", "/amp/client/", "/debug", "/metrics", "/prometheus", "/robots.txt", "/amp/client", "/", "/client/", "/proxy/x"]
NATS = ["-", "", "unknown", "restricted", "unrestricted", "foo"]
BODIES = ["empty", "valid", "valid-without-version-line", "legacy", "legacy-bad-json", "mutated-version", "truncated", "mutated-types", "garbage",
          "99999B", "100000B", "100001B", "200000B", "bad-fingerprint", "absent-fingerprint", "relay-pattern-mismatch", "relay-pattern-absent", "null", "blank"]
DEADLINE = 25.0  # seconds; the broker's own timeouts are 10 s


def valid_body(path, sid):
    if path.startswith("/proxy"):
        return '{"Sid":"%s","Version":"1.3","Type":"standalone","NAT":"unrestricted","Clients":0,"AcceptedRelayPattern":"%s"}' % (sid, PATTERN)
    if path.startswith("/answer"):
        return '{"Version":"1.3","Sid":"%s","Answer":"{\\"type\\":\\"answer\\",\\"sdp\\":\\"x\\"}"}' % sid
    return '1.0\n{"offer":"{\\"type\\":\\"offer\\",\\"sdp\\":\\"c14\\"}","nat":"unknown"}'


def make_body(kind, path, sid):
    v = valid_body(path, sid)

    def pad(n):
        b = v.encode()
        return b[:n] if len(b) > n else b + b" " * (n - len(b))
    if kind == "empty":
        return b""
    if kind == "valid":
        return v.encode()
    if kind == "valid-without-version-line":
        return v.split("\n", 1)[1].encode() if "\n" in v else v.replace('"Version":"1.3"', '"Version":""').encode()
    if kind == "legacy":
        return b'{"type":"offer","sdp":"c14-legacy"}'
    if kind == "legacy-bad-json":
        return b'{"type":'
    if kind == "mutated-version":
        return v.replace("1.0\n", "2.0\n").replace('"Version":"1.3"', '"Version":"2.0"').encode()
    if kind == "truncated":
        return v[:len(v) // 2].encode()
    if kind == "mutated-types":
        return v.replace('"offer":"', '"offer":1,"x":"').replace('"Sid":"%s"' % sid, '"Sid":1').replace('"Answer":"', '"Answer":null,"x":"').encode()
    if kind == "garbage":
        return b"\x00\xff garbage <html>"
    if kind.endswith("B"):
        return pad(int(kind[:-1]))
    if kind == "bad-fingerprint":
        return b'1.0\n{"offer":"o","nat":"unknown","fingerprint":"zz"}'
    if kind == "absent-fingerprint":
        return ('1.0\n{"offer":"o","nat":"unknown","fingerprint":"%s"}' % FP_ABSENT).encode()
    if kind == "relay-pattern-mismatch":
        return v.replace('"AcceptedRelayPattern":"%s"' % PATTERN, '"AcceptedRelayPattern":"example.org$"').encode()
    if kind == "relay-pattern-absent":
        return v.replace(',"AcceptedRelayPattern":"%s"' % PATTERN, "").encode()
    if kind == "null":
        return b"1.0\nnull" if "\n" in v else b"null"
    if kind == "blank":
        return b" \r\n"
    raise ValueError(kind)


def b64url(b):
    return base64.urlsafe_b64encode(b).rstrip(b"=").decode()


class Req:
    def __init__(self, method, path, kind, nat, chunked, sid):
        self.method, self.path, self.kind, self.nat, self.chunked, self.sid = method, path, kind, nat, chunked, sid

    def desc(self):
        return "%s %s body=%s nat=%s%s" % (self.method, self.path, self.kind, self.nat, " chunked" if self.chunked else "")

    def wire(self, keepalive=False):
        body = make_body(self.kind, self.path, self.sid)
        target = self.path
        if self.path == "/amp/client/":
            # the AMP endpoint takes the poll in the path
            target = "/amp/client/0AAAAAAAAAAAA/" + b64url(body)
        head = ["%s %s HTTP/1.1" % (self.method, target), "Host: broker.test"]
        if self.nat != "-":
            head.append("Snowflake-NAT-Type: " + self.nat)
        if not keepalive:
            head.append("Connection: close")
        if self.method in ("POST", "PUT") or body:
            if self.chunked:
                head.append("Transfer-Encoding: chunked")
                parts = []
                for off in range(0, len(body), 30000):
                    c = body[off:off + 30000]
                    parts.append(b"%x\r\n" % len(c) + c + b"\r\n")
                payload = b"".join(parts) + b"0\r\n\r\n"
            else:
                head.append("Content-Length: %d" % len(body))
                payload = body
        else:
            payload = b""
        return ("\r\n".join(head) + "\r\n\r\n").encode() + payload


class Bad(Exception):
    pass


def read_response(sock, method, deadline):
    """Strict HTTP/1.x response reader.  Returns (status, headers, body, leftover_closed)."""
    buf = b""

    def fill():
        nonlocal buf
        left = deadline - time.time()
        if left <= 0:
            raise socket.timeout()
        sock.settimeout(left)
        d = sock.recv(65536)
        if not d:
            return False
        buf += d
        return True
    while b"\r\n\r\n" not in buf:
        if not fill():
            if not buf:
                raise Bad("dropped|the connection was closed without a single byte of response")
            raise Bad("truncated-head|the connection was closed inside the response head: %r" % buf[:80])
        if len(buf) > 1 << 20:
            raise Bad("endless-head|no end of the response head within 1 MB")
    head, buf = buf.split(b"\r\n\r\n", 1)
    lines = head.split(b"\r\n")
    sl = lines[0].split(b" ", 2)
    if len(sl) < 2 or sl[0] not in (b"HTTP/1.1", b"HTTP/1.0") or not sl[1].isdigit() or len(sl[1]) != 3:
        raise Bad("bad-status-line|%r" % lines[0][:80])
    status = int(sl[1])
    if status < 200 or status > 599:
        raise Bad("bad-status|final status %d" % status)
    hdr = {}
    for l in lines[1:]:
        if b":" not in l:
            raise Bad("bad-header-line|%r" % l[:80])
        k, v = l.split(b":", 1)
        if not k or k.strip() != k:
            raise Bad("bad-header-line|%r" % l[:80])
        hdr[k.decode("latin1").lower()] = v.strip().decode("latin1")
    body = b""
    if method == "HEAD" or status in (204, 304):
        pass
    elif hdr.get("transfer-encoding", "").lower() == "chunked":
        while True:
            while b"\r\n" not in buf:
                if not fill():
                    raise Bad("truncated-body|the connection was closed inside a chunked body")
            ln, buf = buf.split(b"\r\n", 1)
            try:
                n = int(ln.split(b";")[0], 16)
            except ValueError:
                raise Bad("bad-chunk-size|%r" % ln[:40])
            while len(buf) < n + 2:
                if not fill():
                    raise Bad("truncated-body|the connection was closed inside a chunk")
            body += buf[:n]
            if buf[n:n + 2] != b"\r\n":
                raise Bad("bad-chunk-end|")
            buf = buf[n + 2:]
            if n == 0:
                break
    elif "content-length" in hdr:
        if not hdr["content-length"].isdigit():
            raise Bad("bad-content-length|%r" % hdr["content-length"])
        n = int(hdr["content-length"])
        while len(buf) < n:
            if not fill():
                raise Bad("truncated-body|%d of %d announced body bytes arrived" % (len(buf), n))
        body, buf = buf[:n], buf[n:]
    else:
        while fill():
            pass
        body, buf = buf, b""
    return status, hdr, body, buf


def exchange(port, req, keepalive_next=None):
    """Sends one request (and optionally a second one on the same connection).  Returns a list of
    outcomes: ("ok", status, body) or ("bad", sig, msg)."""
    out = []
    t0 = time.time()
    deadline = t0 + DEADLINE
    try:
        s = socket.create_connection(("127.0.0.1", port), timeout=5)
    except OSError as e:
        return [("infra", "connect", str(e))]
    try:
        reqs = [req] + ([keepalive_next] if keepalive_next else [])
        for i, r in enumerate(reqs):
            data = r.wire(keepalive=(keepalive_next is not None and i == 0))
            try:
                s.settimeout(DEADLINE)
                s.sendall(data)
            except (BrokenPipeError, ConnectionResetError, socket.timeout):
                pass  # the server may answer before it has read everything; read what it said
            try:
                status, hdr, body, rest = read_response(s, r.method, deadline)
                out.append(("ok", status, body, hdr))
                if hdr.get("connection", "").lower() == "close":
                    break
            except socket.timeout:
                out.append(("bad", "no-response-in-time", "no complete response within %.0f s" % DEADLINE))
                break
            except ConnectionResetError:
                if i == 1:
                    out.append(("closed", "", ""))  # a server may close a kept-alive connection; the client retries
                else:
                    out.append(("bad", "reset", "the connection was reset before a complete response arrived"))
                break
            except Bad as e:
                sig, msg = str(e).split("|", 1)
                if i == 1 and sig == "dropped":
                    out.append(("closed", "", ""))
                else:
                    out.append(("bad", sig, msg))
                break
            deadline = time.time() + DEADLINE
    finally:
        s.close()
    return out


class Broker:
    def __init__(self, work):
        self.work = work
        self.proc = None
        self.port = None

    def build(self):
        self.bin = os.path.join(self.work, "broker.bin")
        mod = vlib.modfile(self.work)
        vlib.run(["go", "build", "-modfile=" + mod, "-ldflags=-checklinkname=0", "-o", self.bin, "./broker"], cwd=vlib.REPO)

    def start(self):
        bl = os.path.join(self.work, "bridges.jsonl")
        with open(bl, "w") as f:
            f.write('{"displayName":"default","webSocketAddress":"wss://snowflake.torproject.net/","fingerprint":"%s"}\n' % FP_DEFAULT)
            f.write('{"displayName":"second","webSocketAddress":"wss://02.snowflake.torproject.net/","fingerprint":"%s"}\n' % FP_SECOND)
        for k in range(20):
            s = socket.socket()
            s.bind(("127.0.0.1", 0))
            self.port = s.getsockname()[1]
            s.close()
            self.metrics = os.path.join(self.work, "metrics.log")
            self.log = open(os.path.join(self.work, "broker.stderr"), "wb")
            self.proc = subprocess.Popen([self.bin, "-disable-tls", "-addr", "127.0.0.1:%d" % self.port, "-disable-geoip", "-bridge-list-path", bl,
                                          "-allowed-relay-pattern", PATTERN, "-default-relay-pattern", PATTERN, "-metrics-log", self.metrics,
                                          "-ip-count-log", os.path.join(self.work, "ipcount.log"), "-ip-count-mask", "k", "-ip-count-interval", "1s"],
                                         stdout=self.log, stderr=self.log, cwd=self.work)
            for _ in range(100):
                if self.proc.poll() is not None:
                    break
                try:
                    socket.create_connection(("127.0.0.1", self.port), timeout=1).close()
                    return True
                except OSError:
                    time.sleep(0.1)
            self.stop()
        return False

    def alive(self):
        return self.proc is not None and self.proc.poll() is None

    def stop(self):
        if self.proc is not None:
            self.proc.kill()
            self.proc.wait()
            self.proc = None
            self.log.close()


def probe(port, tag):
    """A fresh proxy poll + client offer + answer must still work, and the read-only endpoints answer."""
    sid = "probe" + tag
    res = {}

    def proxy():
        r = exchange(port, Req("POST", "/proxy", "valid", "-", False, sid))
        res["proxy"] = r
        if r and r[0][0] == "ok" and r[0][1] == 200:
            try:
                doc = json.loads(r[0][2])
            except ValueError:
                return
            if doc.get("Status") == "client match":
                res["offer"] = doc.get("Offer")
                res["answer"] = exchange(port, Req("POST", "/answer", "valid", "-", False, sid))
    t = threading.Thread(target=proxy)
    t.start()
    time.sleep(0.7)
    res["client"] = exchange(port, Req("POST", "/client", "valid", "-", False, sid))
    t.join(DEADLINE + 5)
    problems = []
    c = res.get("client") or [("bad", "none", "")]
    if res.get("offer") is None:
        pr = res.get("proxy")
        problems.append("the proxy poll was not handed the client's offer: %r" % ((pr[0][:3] if pr else "no response"),))
    elif "c14" not in res["offer"]:
        problems.append("the proxy poll was handed another offer: %r" % res["offer"][:80])
    if c[0][0] != "ok" or c[0][1] != 200 or b'"answer"' not in c[0][2] or b"sdp" not in c[0][2]:
        problems.append("the client did not get the proxy's answer: %r" % (c[0][:3],))
    a = res.get("answer")
    if res.get("offer") is not None and (not a or a[0][0] != "ok" or a[0][1] != 200):
        problems.append("the answer was not accepted: %r" % ((a or [None])[0],))
    # with nobody waiting: a versioned client poll is told so in a 200, through the POST and the AMP endpoint
    for method, path, want in (("POST", "/client", b"no snowflake proxies currently available"), ("GET", "/amp/client/", b"<!doctype html>")):
        r = exchange(port, Req(method, path, "valid", "-", False, sid))
        if not r or r[0][0] != "ok" or r[0][1] != 200 or want.lower() not in r[0][2].lower():
            problems.append("%s %s (valid poll, no proxy waiting): %r" % (method, path, (r[0][1], r[0][2][:60]) if r and r[0][0] == "ok" else r))
    for path, want in (("/debug", b"current snowflakes available"), ("/robots.txt", b"Disallow"), ("/prometheus", b"snowflake_"), ("/metrics", None)):
        r = exchange(port, Req("GET", path, "empty", "-", False, sid))
        if not r or r[0][0] != "ok" or r[0][1] != 200 or (want and want not in r[0][2]):
            problems.append("GET %s: %r" % (path, (r[0][:3] if r else None)))
    return problems


def run(rep, tier):
    work = vlib.workdir("c14-t2")
    b = Broker(work)
    cov = {"what": "raw HTTP exchanges with the broker binary built from the tree (./broker, started with -disable-tls on a loopback port, bridge list of two, relay patterns, metrics and distinct-IP logs)"}
    rep.coverage["real_binary_tier2"] = cov
    try:
        b.build()
    except SystemExit:
        rep.engine_errors.append("cannot build ./broker")
        return
    if not b.start():
        cov["completed"] = False
        cov["stop_reason"] = "the broker binary did not come up on a loopback port (not judged)"
        rep.coverage["exhaustive"] = False
        return
    try:
        _matrix(rep, tier, b, cov)
    finally:
        b.stop()


def _matrix(rep, tier, b, cov):
    reqs = []
    n = 0
    for path in PATHS:
        clientish = path.startswith("/client") or path.startswith("/amp/client")
        for method in METHODS:
            for kind in BODIES:
                nats = NATS if clientish else ["-"]
                for nat in nats:
                    for chunked in ((False, True) if method in ("POST", "PUT") else (False,)):
                        n += 1
                        reqs.append(Req(method, path, kind, nat, chunked, "t2sid%d" % n))
    t0 = time.time()
    statuses = {}
    bad = []
    skipped = []
    infra = 0
    lock = threading.Lock()

    def one(r):
        # a broker that has stopped answering makes every further request wait for its deadline: forty failures
        # are enough to judge, the rest of the matrix is skipped (and reported as not completed)
        with lock:
            if len(bad) >= 40:
                skipped.append(r)
                return
        o = exchange(b.port, r)
        with lock:
            nonlocal infra
            if o[0][0] == "ok":
                statuses[o[0][1]] = statuses.get(o[0][1], 0) + 1
            elif o[0][0] == "infra":
                infra += 1
            else:
                bad.append((r, o[0]))
    with ThreadPoolExecutor(max_workers=48) as ex:
        list(ex.map(one, reqs))
    cov["single_requests"] = len(reqs) - len(skipped)
    if skipped:
        cov["requests_skipped_after_40_failures"] = len(skipped)
        rep.coverage["exhaustive"] = False
    cov["status_histogram"] = {str(k): v for k, v in sorted(statuses.items())}
    # a failure is believed if the same request, alone, fails three more times
    confirmed = 0
    for r, o in bad[:40]:
        again = [exchange(b.port, r)[0] for _ in range(3)] if b.alive() else [o] * 3
        if all(x[0] == "bad" for x in again):
            confirmed += 1
            rep.finding("t2:" + o[1], "%s: %s (and in 3 more attempts: %s)" % (r.desc(), o[2], ", ".join(x[1] for x in again)),
                        {"kind": "raw HTTP request to the broker binary", "request": r.desc(), "wire_head": r.wire()[:300].decode("latin1")})
        if not b.alive() or confirmed >= 3:
            break  # three confirmed failures are enough; each confirmation costs up to three deadlines
    cov["unconfirmed_transport_failures"] = len(bad) - confirmed
    if not b.alive():
        rep.finding("t2:broker-process-died", "the broker process exited with status %s during the request matrix; stderr tail: %s" % (
            b.proc.returncode, open(os.path.join(b.work, "broker.stderr"), "rb").read()[-600:].decode("latin1")), {"kind": "raw HTTP request matrix against the broker binary"})
        return
    # pairs on one keep-alive connection (reduced alphabet)
    red = [("POST", "/client", "valid"), ("POST", "/client", "legacy"), ("POST", "/client", "200000B"), ("POST", "/client", "garbage"), ("POST", "/proxy", "relay-pattern-mismatch"),
           ("POST", "/answer", "valid"), ("GET", "/debug", "empty"), ("GET", "/amp/client/", "valid"), ("POST", "/", "100001B"), ("HEAD", "/metrics", "empty"), ("GET", "/prometheus", "empty")]
    pairs = [(a, c) for a in red for c in red]
    if skipped:
        pairs = pairs[:8]  # the broker is already known not to answer: a token number of pairs
    pair_bad = []
    closed_after_first = 0

    def two(p):
        nonlocal closed_after_first
        a, c = p
        r1, r2 = Req(a[0], a[1], a[2], "-", False, "ka1"), Req(c[0], c[1], c[2], "-", False, "ka2")
        o = exchange(b.port, r1, r2)
        with lock:
            for i, x in enumerate(o):
                if x[0] == "bad":
                    pair_bad.append((r1, r2, i, x))
            if len(o) < 2 or o[1][0] == "closed":
                closed_after_first += 1
    with ThreadPoolExecutor(max_workers=32) as ex:
        list(ex.map(two, pairs))
    cov["keepalive_pairs"] = len(pairs)
    cov["keepalive_closed_after_first_response"] = closed_after_first
    for r1, r2, i, x in pair_bad[:20]:
        again = []
        for _ in range(3):
            o = exchange(b.port, r1, r2)
            again.append(any(y[0] == "bad" for y in o))
        if all(again):
            rep.finding("t2:keepalive:" + x[1], "on one connection: [%s] then [%s]: request %d: %s" % (r1.desc(), r2.desc(), i + 1, x[2]),
                        {"kind": "two raw HTTP requests on one kept-alive connection to the broker binary", "first": r1.desc(), "second": r2.desc()})
    # overlapping proxy polls under one session id (a proxy that polls again before its earlier poll was
    # answered), at the same instant and one second apart, with and without a client coming in between
    dup_bad = []

    def dup(k):
        sid = "dupsid%d" % k
        outs = []

        def poll(delay):
            time.sleep(delay)
            outs.append(exchange(b.port, Req("POST", "/proxy", "valid", "-", False, sid)))
        ts = [threading.Thread(target=poll, args=(0,)), threading.Thread(target=poll, args=((k % 2) * 1.0,))]
        if k >= 2:
            ts.append(threading.Thread(target=lambda: (time.sleep(2.0), outs.append(exchange(b.port, Req("POST", "/client", "valid", "-", False, sid))))))
        for t in ts:
            t.start()
        for t in ts:
            t.join(DEADLINE * 2)
        with lock:
            if len(outs) != len(ts):
                dup_bad.append((k, "no-response-in-time", "%d of %d overlapping requests under session id %s were never answered" % (len(ts) - len(outs), len(ts), sid)))
            for o in outs:
                if o[0][0] == "bad":
                    dup_bad.append((k, o[0][1], o[0][2]))
    with ThreadPoolExecutor(max_workers=4) as ex:
        list(ex.map(dup, range(4)))
    cov["overlapping_polls_under_one_session_id"] = 4
    for k, sig, msg in dup_bad[:4]:
        rep.finding("t2:same-session-id:" + sig, "two proxy polls under one session id (%s apart%s): %s" % ("1 s" if k % 2 else "0 s", ", then a client" if k >= 2 else "", msg),
                    {"kind": "overlapping raw HTTP requests to the broker binary"})
    # afterwards: the process is up and serves a fresh proxy + client
    probs = None
    for k in range(3):
        probs = probe(b.port, "%d" % k)
        if not probs:
            break
    cov["probe_after_matrix"] = "passed" if not probs else "failed"
    if probs:
        rep.finding("t2:later-requests-fail", "after the request matrix a fresh proxy poll + client offer + answer (3 attempts) fails: " + "; ".join(probs[:3]),
                    {"kind": "probe after the raw request matrix against the broker binary"})
    if not b.alive():
        rep.finding("t2:broker-process-died", "the broker process exited with status %s" % b.proc.returncode, {"kind": "raw HTTP request matrix against the broker binary"})
    cov["completed"] = infra == 0
    if infra:
        cov["stop_reason"] = "%d requests could not connect to the loopback port (not judged)" % infra
        rep.coverage["exhaustive"] = False
    cov["wall_s"] = round(time.time() - t0, 1)
    rep.coverage["traces_validated_against_impl"] = rep.coverage.get("traces_validated_against_impl", 0) + len(reqs) + len(pairs)
