#!/usr/bin/env python3
"""C04 — every broker request completes in bounded time; no ghost proxies (DESIGN.md §3 C04)."""
import os
import sys

sys.path.insert(0, os.path.join(os.path.dirname(os.path.abspath(__file__)), "..", "lib"))
import sched  # noqa: E402
import vlib  # noqa: E402
from broker_common import build_broker  # noqa: E402


def main():
    tier = vlib.tier_arg(sys.argv)
    rep = vlib.Report("C04", tier, "model_checking")
    binary = build_broker()
    U = "all interleavings up to Mazurkiewicz equivalence (unbounded preemptions; DPOR + sleep sets)"
    if tier == "quick":
        passes = [
            {"harness": "c04", "cfg": {"P": "1", "C": "1"}, "label": "1 proxy x 1 client: " + U},
            {"harness": "c04", "cfg": {"P": "1", "C": "2"}, "label": "1 proxy x 2 clients: " + U, "budget_s": 30},
            {"harness": "c04", "cfg": {"P": "2", "C": "1"}, "label": "2 proxies x 1 client: " + U, "budget_s": 30},
            {"harness": "c04", "cfg": {"P": "2", "C": "2", "beh": "4"}, "label": "2 proxies x 2 clients (4 answer behaviours): " + U, "budget_s": 40},
            {"harness": "c04", "cfg": {"P": "1", "C": "2", "fp": "2", "beh": "2"}, "label": "1 proxy x 2 clients, the first optionally naming a bridge that is not listed: " + U, "budget_s": 20},
            {"harness": "c04", "cfg": {"P": "2", "C": "1", "fp": "2", "beh": "2"}, "label": "2 proxies x 1 client optionally naming a bridge that is not listed: " + U, "budget_s": 20},
            {"harness": "c04", "cfg": {"P": "1", "C": "1", "nats": "4"}, "label": "1 proxy reporting NAT {unrestricted, restricted, unknown, none} x 1 client reporting {unknown, unrestricted, restricted}: " + U, "budget_s": 20},
            {"harness": "c04", "cfg": {"P": "1", "C": "2", "nats": "4", "beh": "2"}, "label": "the same with 2 clients: " + U, "budget_s": 30},
            {"harness": "c04", "cfg": {"P": "2", "C": "1", "dup": "1"}, "label": "2 proxy polls, optionally under one session id and in different NAT pools, x 1 client: " + U, "budget_s": 30},
            {"harness": "c04", "cfg": {"P": "2", "C": "2", "beh": "2", "dup": "1"}, "label": "2 proxy polls (optionally one session id) x 2 clients: " + U, "budget_s": 30},
        ]
        total = 240
    else:
        passes = [
            {"harness": "c04", "cfg": {"P": "1", "C": "1"}, "label": "1 proxy x 1 client: " + U},
            {"harness": "c04", "cfg": {"P": "1", "C": "2"}, "label": "1 proxy x 2 clients: " + U, "budget_s": 100},
            {"harness": "c04", "cfg": {"P": "2", "C": "1"}, "label": "2 proxies x 1 client: " + U, "budget_s": 100},
            {"harness": "c04", "cfg": {"P": "2", "C": "2"}, "label": "2 proxies x 2 clients: " + U, "budget_s": 500},
            {"harness": "c04", "cfg": {"P": "2", "C": "2", "dup": "1"}, "label": "2 proxy polls (optionally one session id, different NAT pools) x 2 clients: " + U, "budget_s": 400},
            {"harness": "c04", "cfg": {"P": "2", "C": "2", "fp": "2"}, "label": "2 proxies x 2 clients, the first optionally naming a bridge that is not listed: " + U, "budget_s": 300},
            {"harness": "c04", "cfg": {"P": "1", "C": "2", "nats": "4"}, "label": "1 proxy reporting NAT {unrestricted, restricted, unknown, none} x 2 clients reporting {unknown, unrestricted, restricted}: " + U, "budget_s": 200},
            {"harness": "c04", "cfg": {"P": "2", "C": "2", "nats": "4", "beh": "2"}, "label": "2 proxies (the first of any NAT kind) x 2 clients of any NAT kind: " + U, "budget_s": 300},
            {"harness": "c04", "cfg": {"P": "3", "C": "2", "beh": "2"}, "label": "3 proxies x 2 clients (2 answer behaviours): " + U, "budget_s": 400},
            {"harness": "c04", "cfg": {"P": "2", "C": "3", "beh": "2"}, "label": "2 proxies x 3 clients (2 answer behaviours): " + U, "budget_s": 400},
            {"harness": "c04", "cfg": {"P": "1", "C": "1"}, "bound": 2, "label": "1 proxy x 1 client, pb<=2 without reduction (cross-check of the reduction)", "budget_s": 60},
        ]
        total = 2900
    summary, tot, samples, exh = sched.run_passes(rep, binary, passes, total)
    sched.sched_coverage(rep, summary, tot, samples, exh)
    rep.assumptions += [
        "virtual time: computation is instantaneous relative to timers (a runnable goroutine is never starved for seconds)",
        "instrumenter fidelity (guarded by running the repository's own broker tests on the instrumented sources at setup)",
        "prometheus/json/heap internals run atomically between scheduling points (they take no lock shared with instrumented code)",
    ]
    rep.finish()


if __name__ == "__main__":
    main()
