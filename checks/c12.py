#!/usr/bin/env python3
"""C12 — broker messages round-trip and invalid ones are rejected (DESIGN.md §3 C12)."""
import os
import sys

sys.path.insert(0, os.path.join(os.path.dirname(os.path.abspath(__file__)), "..", "lib"))
import enumlib  # noqa: E402
import vlib  # noqa: E402


def main():
    tier = vlib.tier_arg(sys.argv)
    rep = vlib.Report("C12", tier, "exploration")
    try:
        binary = enumlib.build("c12", "common/messages", {"zz_verif_c12_test.go": os.path.join(vlib.VERIF, "harness/messages/c12_test.go")})
        res = enumlib.run(binary, "TestVerifEnum", tier, 80 if tier == "quick" else 800)
        enumlib.report(rep, res, "bounded-exhaustive enumeration on the real Encode*/Decode* functions of common/messages: "
                       "(rt-*) full products of boundary-rich field alphabets through the real encoders and back, "
                       "(defaults) reference-encoded documents of protocol versions 1.0-1.3, "
                       "(shapes-*, versionline, truncation, mutation, tokens) byte strings offered to every decoder and judged by a reference predicate "
                       "'the statement demands rejection' built on the generic encoding/json tokenizer; "
                       "a case is one field tuple (rt-*) or one (message, byte string) pair, non-trivial if some field / the byte string is non-empty, "
                       "distinct after canonicalising to alphabet indices resp. the bytes themselves (document sections are sharded by content hash, so the count is exact across shards)")
    except vlib.EngineError as e:
        rep.engine_errors.append(str(e))
    rep.assumptions += [
        "field values are valid UTF-8 (the quantifier of the property); invalid UTF-8 only occurs in the document sections, where only the reject law and panics are judged",
        "an empty string counts as a missing member (the specification comments use 'empty' and 'missing' interchangeably and Go cannot tell them apart)",
        "no verdict (only 'no panic') for: mistyped members, duplicate or differently-cased member names, major versions that merely read as 1 ('01', ' 1'), "
        "trailing bytes after a complete document, minor client versions other than 1.0, responses carrying both answer and error, failure reasons other than 'no match'",
        "the default bridge fingerprint is the constant documented in common/messages/client.go",
    ]
    rep.finish()


if __name__ == "__main__":
    main()
