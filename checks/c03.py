#!/usr/bin/env python3
"""C03 — matches respect NAT compatibility, availability and load order (DESIGN.md §3 C03)."""
import os
import sys

sys.path.insert(0, os.path.join(os.path.dirname(os.path.abspath(__file__)), "..", "lib"))
import sched  # noqa: E402
import vlib  # noqa: E402
from broker_common import build_broker  # noqa: E402


def main():
    tier = vlib.tier_arg(sys.argv)
    rep = vlib.Report("C03", tier, "model_checking")
    binary = build_broker()
    U = "all interleavings up to Mazurkiewicz equivalence (unbounded preemptions; DPOR + sleep sets)"
    if tier == "quick":
        passes = [
            {"harness": "c03", "cfg": {"P": "2", "C": "1"}, "budget_s": 30,
             "label": "2 proxies (4 NAT x 3 loads each) x 1 client (5 NAT spellings): " + U},
            {"harness": "c03", "cfg": {"P": "3", "C": "1", "pnat": "2", "loads": "3", "cnat": "2"}, "budget_s": 30,
             "label": "3 proxies (2 NAT x 3 loads) x 1 client: " + U},
            {"harness": "c03", "cfg": {"P": "2", "C": "2", "pnat": "3", "loads": "2", "cnat": "3"}, "budget_s": 40,
             "label": "2 proxies x 2 concurrent clients: " + U},
            {"harness": "c03", "cfg": {"P": "3", "C": "1", "pnat": "2", "loads": "3", "cnat": "2", "dup": "1"}, "budget_s": 30,
             "label": "3 proxies x 1 client, the last proxy optionally polling under the first one's (still pending) session id: " + U},
            {"harness": "c03", "cfg": {"P": "2", "C": "2", "pnat": "3", "loads": "2", "cnat": "3", "dup": "1"}, "budget_s": 30,
             "label": "2 proxies (optionally one session id) x 2 clients: " + U},
            {"harness": "c03", "cfg": {"P": "2", "C": "2", "pnat": "3", "loads": "2", "cnat": "3", "fp": "2"}, "budget_s": 30,
             "label": "2 proxies x 2 clients, the first optionally naming a bridge that is not listed: " + U},
            {"harness": "c03", "cfg": {"P": "2", "C": "2", "pnat": "4", "loads": "2", "cnat": "3", "late": "1"}, "budget_s": 30,
             "label": "2 proxies (4 NAT kinds) x 2 clients that come at 1 s or at 15 s, after every poll has ended unanswered (then all are refused, none waits): " + U},
            {"harness": "c03", "cfg": {"P": "3", "C": "2", "pnat": "1", "loads": "3", "cnat": "2", "stagger": "1"}, "budget_s": 30,
             "label": "3 proxies of one pool (all load triples over {0,8,16}) arriving together or 100 ms apart x 2 clients: " + U},
        ]
        total = 240
    else:
        passes = [
            {"harness": "c03", "cfg": {"P": "2", "C": "1"}, "budget_s": 100, "label": "2 proxies x 1 client, full alphabets: " + U},
            {"harness": "c03", "cfg": {"P": "3", "C": "1", "pnat": "4", "loads": "3", "cnat": "3"}, "budget_s": 250, "label": "3 proxies x 1 client: " + U},
            {"harness": "c03", "cfg": {"P": "2", "C": "2"}, "budget_s": 250, "label": "2 proxies x 2 clients, full alphabets: " + U},
            {"harness": "c03", "cfg": {"P": "3", "C": "2", "pnat": "3", "loads": "2", "cnat": "3"}, "budget_s": 250, "label": "3 proxies x 2 clients: " + U},
            {"harness": "c03", "cfg": {"P": "3", "C": "1", "pnat": "4", "loads": "3", "cnat": "3", "dup": "1"}, "budget_s": 200, "label": "3 proxies x 1 client, optionally a repeated session id: " + U},
            {"harness": "c03", "cfg": {"P": "3", "C": "2", "pnat": "3", "loads": "2", "cnat": "3", "dup": "1"}, "budget_s": 250, "label": "3 proxies x 2 clients, optionally a repeated session id: " + U},
            {"harness": "c03", "cfg": {"P": "3", "C": "2", "pnat": "3", "loads": "2", "cnat": "3", "fp": "2"}, "budget_s": 250, "label": "3 proxies x 2 clients, the first optionally naming an unlisted bridge: " + U},
            {"harness": "c03", "cfg": {"P": "3", "C": "2", "pnat": "2", "loads": "3", "cnat": "3", "stagger": "1"}, "budget_s": 250, "label": "3 proxies (2 NAT x 3 loads) arriving together or 100 ms apart x 2 clients: " + U},
            {"harness": "c03", "cfg": {"P": "4", "C": "2", "pnat": "1", "loads": "3", "cnat": "1", "stagger": "1"}, "budget_s": 250, "label": "4 proxies of one pool (all load quadruples) arriving together or 100 ms apart x 2 clients: " + U},
        ]
        total = 2050
    summary, tot, samples, exh = sched.run_passes(rep, binary, passes, total)
    sched.sched_coverage(rep, summary, tot, samples, exh)
    rep.assumptions += [
        "virtual time: computation is instantaneous relative to timers",
        "instrumenter fidelity (repository's own broker tests pass on instrumented sources at setup)",
        "metrics.lock critical sections commute (state-cache abstraction argued in harness/broker/world_test.go)",
    ]
    rep.finish()


if __name__ == "__main__":
    main()
