import glob
import os
import sys

sys.path.insert(0, os.path.join(os.path.dirname(os.path.abspath(__file__)), "..", "lib"))
import enumlib  # noqa: E402
import vlib  # noqa: E402

RETYPE = (("transport *webrtc.DataChannel", "transport verifTransport"),
          ("recvPipe  *io.PipeReader", "recvPipe  verifPipeReader"),
          ("writePipe *io.PipeWriter", "writePipe verifPipeWriter"))


def retyped_webrtc(work):
    """Copy of client/lib/webrtc.go in which WebRTCPeer's data channel and pipes are interfaces, so that
    a peer can carry an in-memory transport (fails loudly if the declarations change)."""
    src = open(os.path.join(vlib.REPO, "client/lib/webrtc.go")).read()
    for old, new in RETYPE:
        if src.count(old) != 1:
            raise vlib.EngineError("client/lib/webrtc.go: declaration %r not found exactly once; update the retype pre-pass" % old)
        src = src.replace(old, new)
    path = os.path.join(work, "webrtc_retyped.go")
    open(path, "w").write(src)
    return path


def build(race=False):
    """Uninstrumented test binary of client/lib with the C01 tier-2 harness (real stacks on loopback)."""
    name = "clientlib-t2" + ("-race" if race else "")
    work = vlib.workdir(name)
    files = {"zz_verif_" + os.path.basename(f): f for f in glob.glob(os.path.join(vlib.VERIF, "harness", "clientlib_t2", "*_test.go"))}
    extra = {
        os.path.join(vlib.REPO, "client/lib/webrtc.go"): retyped_webrtc(work),
        os.path.join(vlib.REPO, "client/lib/zz_verif_shim.go"): os.path.join(vlib.VERIF, "harness", "serverlib_sched", "clientshim", "shim.go"),
    }
    return enumlib.build(name, "client/lib", files, extra_overlay=extra, race=race)
