import glob
import os
import sys

sys.path.insert(0, os.path.join(os.path.dirname(os.path.abspath(__file__)), "..", "lib"))
import vlib  # noqa: E402

HARNESSES = ("c17a", "c17b-seq", "c17b-overflow", "c17b-conc", "c17c-sweeper")


def build(race=False):
    hdir = os.path.join(vlib.VERIF, "harness", "turbotunnel")
    hf = {"zz_verif_" + os.path.basename(f): f for f in glob.glob(os.path.join(hdir, "*_test.go"))}
    adds = {"common/turbotunnel/zz_verif_" + os.path.basename(f): f for f in glob.glob(os.path.join(hdir, "*.go")) if not f.endswith("_test.go")}
    return vlib.build_harness("turbotunnel", ["common/turbotunnel"], "common/turbotunnel", hf, adds=adds, race=race)
