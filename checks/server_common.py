import glob
import os
import sys

sys.path.insert(0, os.path.join(os.path.dirname(os.path.abspath(__file__)), "..", "lib"))
import vlib  # noqa: E402

HARNESSES = ("c05", "c01")


def build(race=False):
    hdir = os.path.join(vlib.VERIF, "harness", "serverlib_sched")
    hf = {"zz_verif_" + os.path.basename(f): f for f in glob.glob(os.path.join(hdir, "*_test.go"))}
    adds = {"server/lib/zz_verif_" + os.path.basename(f): f for f in glob.glob(os.path.join(hdir, "*.go")) if not f.endswith("_test.go")}
    cdir = os.path.join(vlib.VERIF, "harness", "serverlib_sched", "clientshim")
    for f in glob.glob(os.path.join(cdir, "*.go")):
        adds["client/lib/zz_verif_" + os.path.basename(f)] = f
    for f in glob.glob(os.path.join(hdir, "ttshim", "*.go")):
        adds["common/turbotunnel/zz_verif_" + os.path.basename(f)] = f
    pkgs = ["server/lib", "common/turbotunnel", "client/lib"]
    # retype pre-pass: WebRTCPeer's transport and pipes become interfaces (see clientshim/shim.go)
    work = vlib.workdir("serverlib" + ("-race" if race else ""))
    src = open(os.path.join(vlib.REPO, "client/lib/webrtc.go")).read()
    for old, new in (("transport *webrtc.DataChannel", "transport verifTransport"),
                     ("recvPipe  *io.PipeReader", "recvPipe  verifPipeReader"),
                     ("writePipe *io.PipeWriter", "writePipe verifPipeWriter")):
        if src.count(old) != 1:
            raise vlib.EngineError("client/lib/webrtc.go: declaration %r not found exactly once; update the retype pre-pass" % old)
        src = src.replace(old, new)
    retyped = os.path.join(work, "webrtc_retyped.go")
    open(retyped, "w").write(src)
    adds["client/lib/webrtc.go"] = retyped
    return vlib.build_harness("serverlib", pkgs, "server/lib", hf, adds=adds, race=race,
                              captures=["client/lib:newSession:dialContext,clientID"])
