import glob
import os
import sys

sys.path.insert(0, os.path.join(os.path.dirname(os.path.abspath(__file__)), "..", "lib"))
import vlib  # noqa: E402

HARNESSES = ("c05", "c01")


def build(race=False):
    hdir = os.path.join(vlib.VERIF, "harness", "serverlib_sched")
    hf = {"zz_verif_" + os.path.basename(f): f for f in glob.glob(os.path.join(hdir, "*_test.go"))}
    adds = {"server/lib/zz_verif_" + os.path.basename(f): f for f in glob.glob(os.path.join(hdir, "*.go")) if not f.endswith("_test.go")}
    cdir = os.path.join(vlib.VERIF, "harness", "serverlib_sched", "clientshim")
    for f in glob.glob(os.path.join(cdir, "*.go")):
        adds["client/lib/zz_verif_" + os.path.basename(f)] = f
    for f in glob.glob(os.path.join(hdir, "ttshim", "*.go")):
        adds["common/turbotunnel/zz_verif_" + os.path.basename(f)] = f
    pkgs = ["server/lib", "common/turbotunnel"]
    if os.path.isdir(cdir):
        pkgs.append("client/lib")
    return vlib.build_harness("serverlib", pkgs, "server/lib", hf, adds=adds, race=race)
