#!/usr/bin/env python3
"""Replays a violation file written by a SCHED check: rebuilds the harness from /repo's working tree
and re-executes the recorded choice list 5 times (no search)."""
import json
import os
import sys

sys.path.insert(0, os.path.join(os.path.dirname(os.path.abspath(__file__)), "..", "lib"))
import vlib  # noqa: E402

BUILDERS = {}


def builder_for(harness):
    import broker_common
    if harness.startswith(("c02", "c03", "c04", "c06b", "c11b", "c14", "c19b")):
        return broker_common.build_broker
    import importlib
    for mod in ("tt_common", "client_common", "proxy_common", "server_common"):
        try:
            m = importlib.import_module(mod)
        except ImportError:
            continue
        if harness in getattr(m, "HARNESSES", ()):
            return m.build
    raise SystemExit("no builder known for harness %s" % harness)


def main():
    obj = json.load(open(sys.argv[1]))
    if "choices" not in obj:
        print(json.dumps(obj, indent=1))
        print("this replay file describes an input case; re-run the check named in it")
        return
    binary = builder_for(obj["harness"])()
    r = vlib.replay(binary, obj["harness"], obj["choices"], cfg=obj.get("cfg"), repeat=5)
    print(json.dumps(r, indent=1))
    sigs = [f["sig"] for f in r["fails"]]
    if obj["sig"] in [s.replace(" ", "_") for s in sigs]:
        print("VIOLATION property=%s replay=%s" % (obj["property"], sys.argv[1]))
        sys.exit(1)
    print("not reproduced on the current tree")


if __name__ == "__main__":
    main()
