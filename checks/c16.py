#!/usr/bin/env python3
"""C16 — proxy honours its capacity and never leaks a session slot (DESIGN.md §3 C16)."""
import os
import sys

sys.path.insert(0, os.path.join(os.path.dirname(os.path.abspath(__file__)), "..", "lib"))
import enumlib  # noqa: E402
import proxy_t2_common  # noqa: E402
import sched  # noqa: E402
import vlib  # noqa: E402
import proxy_common  # noqa: E402


def main():
    tier = vlib.tier_arg(sys.argv)
    rep = vlib.Report("C16", tier, "model_checking")
    binary = proxy_common.build()
    U = "all interleavings up to Mazurkiewicz equivalence (DPOR + sleep sets, virtual time)"
    P = "exit paths {no offer, rejected relay URL, undecodable offer, peer-connection error, answer: client gone, answer: transport error, data channel never opens, relay unreachable, normal end, data channel opening at the timeout instant}"
    if tier == "quick":
        passes = [{"harness": "c16", "cfg": {"capacities": "3", "maxlen": "3"}, "budget_s": 80, "label": "capacity in {1,2,3} x all session-outcome sequences of length <=3 over 11 " + P + ": " + U}]
        total = 90
    else:
        passes = [{"harness": "c16", "cfg": {"capacities": "3", "maxlen": "4"}, "budget_s": 850, "label": "capacity in {1,2,3} x all outcome sequences of length <=4 over 11 " + P + ": " + U}]
        total = 900
    passes.insert(0, {"harness": "c16-load", "cfg": {}, "budget_s": 20, "label": "capacity 16 with 7/8/9/15 slots held by served clients, 1/2/8 of which leave at 0/3/5/7/12 s, while the proxy keeps polling a broker without clients (the same pollOffer call polls every 5 s): every reported load is a multiple of 8 not above the slots in use since the previous poll: " + U})
    total += 20
    summary, tot, samples, exh = sched.run_passes(rep, binary, passes, total)
    sched.sched_coverage(rep, summary, tot, samples, exh)
    # tier 2: the real proxy with real pion clients in the same process
    try:
        eb = proxy_t2_common.build()
        res = enumlib.run(eb, "TestVerifEnumC16T2", tier, 540 if tier == "quick" else 1800, nshards=16)
        for f in res["findings"]:
            rep.finding(f["sig"], f["msg"], {"input": f["input"], "kind": "real-proxy scenario (SnowflakeProxy.Start, scripted broker and relay on loopback, real pion clients)", "test": "TestVerifEnumC16T2"})
        rep.coverage["real_proxy_tier2"] = {"scenarios": res["evaluations"], "sections": res["sections"], "completed": res["exhaustive"], "stop_reason": res.get("stop_reason"),
                                            "note": "needs a network interface pion gathers candidates on; where in-process WebRTC does not connect the tier marks itself incomplete and judges nothing"}
        rep.coverage["traces_validated_against_impl"] += res["evaluations"]
        if not res["exhaustive"]:
            rep.coverage["exhaustive"] = False
    except vlib.EngineError as e:
        rep.engine_errors.append(str(e))
    rep.assumptions += [
        "two build-time seams replace the pion-facing functions: makePeerConnectionFromOffer (fails, or returns a real unconnected PeerConnection and plays pion's OnDataChannel contract 'close(dataChan); go handler(conn, addr)' by script) and copyLoop (the session lasts 30 s of virtual time); the seam model is not yet bound to real pion by a tier-2 run",
        "Start()'s polling loop is copied verbatim (its preamble replaces the broker and probes the NAT type over the network)",
        "the broker is a scripted http.RoundTripper; the relay dial is refused by a recording NetDial",
        "virtual time",
        "tier 2 runs in real time with real pion: its oracles are bytes, counts and 'the proxy polled again' within 90 s, believed only after three more runs; an environment without usable in-process WebRTC makes it incomplete, never failing",
    ]
    rep.finish()


if __name__ == "__main__":
    main()
