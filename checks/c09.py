#!/usr/bin/env python3
"""C09 — packet framing round-trips under any read fragmentation (DESIGN.md §3 C09)."""
import os
import sys

sys.path.insert(0, os.path.join(os.path.dirname(os.path.abspath(__file__)), "..", "lib"))
import enumlib  # noqa: E402
import vlib  # noqa: E402


def main():
    tier = vlib.tier_arg(sys.argv)
    rep = vlib.Report("C09", tier, "exploration")
    try:
        binary = enumlib.build("c09", "common/encapsulation", {"zz_verif_c09_test.go": os.path.join(vlib.VERIF, "harness/encapsulation/c09_test.go")})
        res = enumlib.run(binary, "TestVerifEnum", tier, 80 if tier == "quick" else 800)
        enumlib.report(rep, res, "bounded-exhaustive enumeration (odometers over boundary-size alphabets, deviation-bounded reader scripts) against an independent table-driven reference decoder; "
                       "a case is non-trivial if it contains at least one chunk/byte, distinct after canonicalising to (operation sequence, reader script)")
        # the server's stream source: websocketconn over a real WebSocket, messages of every grouping
        wb = enumlib.build("websocketconn-enum", "common/websocketconn", {"zz_verif_c09_test.go": os.path.join(vlib.VERIF, "harness/websocketconn/c09_test.go")})
        res2 = enumlib.run(wb, "TestVerifEnumC09WS", tier, 120, nshards=8)
        for f in res2["findings"]:
            rep.finding(f["sig"], f["msg"], {"input": f["input"], "kind": "encapsulated stream through websocketconn over a loopback WebSocket", "test": "TestVerifEnumC09WS"})
        rep.coverage["websocket_stream"] = {"groupings": res2["evaluations"], "completed": res2["exhaustive"], "sections": res2["sections"]}
        if not res2["exhaustive"]:
            rep.coverage["exhaustive"] = False
    except vlib.EngineError as e:
        rep.engine_errors.append(str(e))
    rep.assumptions += ["reader scripts never return (0, nil) twice in a row (the io.Reader contract discourages unbounded zero reads)",
                        "allocation is measured through runtime.MemStats.TotalAlloc with 64 KiB slack"]
    rep.finish()


if __name__ == "__main__":
    main()
