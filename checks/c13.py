#!/usr/bin/env python3
"""C13 — untrusted session descriptions cannot crash client or proxy (DESIGN.md §3 C13)."""
import glob
import os
import sys

sys.path.insert(0, os.path.join(os.path.dirname(os.path.abspath(__file__)), "..", "lib"))
import enumlib  # noqa: E402
import vlib  # noqa: E402

RULE = ("bounded-exhaustive enumeration of a JSON value lattice for the description and its members (plus truncations) through the real functions; "
        "non-trivial = non-empty input, distinct by input text")


def files(d):
    return {"zz_verif_" + os.path.basename(f): f for f in glob.glob(os.path.join(vlib.VERIF, "harness", d, "*_test.go"))}


def main():
    tier = vlib.tier_arg(sys.argv)
    rep = vlib.Report("C13", tier, "exploration")
    try:
        b = enumlib.build("util", "common/util", files("util"))
        enumlib.report(rep, enumlib.run(b, "TestVerifEnumC13", tier, 60, nshards=4), RULE)
        b = enumlib.build("clientlib-enum", "client/lib", files("clientlib"))
        enumlib.report(rep, enumlib.run(b, "TestVerifEnumC13Client", tier, 60, nshards=4), RULE)
        b = enumlib.build("proxylib-enum", "proxy/lib", files("proxylib"))
        enumlib.report(rep, enumlib.run(b, "TestVerifEnumC13Proxy", tier, 60, nshards=4), RULE)
        b = enumlib.build("probetest-enum", "probetest", files("probetest"))
        enumlib.report(rep, enumlib.run(b, "TestVerifEnumC13Probe", tier, 60, nshards=4), RULE)
    except vlib.EngineError as e:
        rep.engine_errors.append(str(e))
    rep.assumptions += ["the callers are driven in-process with scripted rendezvous/transport (as the repository's own tests do), not as separate binaries"]
    rep.finish()


if __name__ == "__main__":
    main()
