import glob
import os
import sys

sys.path.insert(0, os.path.join(os.path.dirname(os.path.abspath(__file__)), "..", "lib"))
import vlib  # noqa: E402


def build_broker(race=False):
    hdir = os.path.join(vlib.VERIF, "harness", "broker")
    hf = {"zz_verif_" + os.path.basename(f): f for f in glob.glob(os.path.join(hdir, "*_test.go"))}
    # common/messages is instrumented too (import swap only: it has no goroutines) so that a sync.Pool there
    # becomes the deterministic model
    return vlib.build_harness("broker", ["broker", "common/messages"], "broker", hf, race=race)
