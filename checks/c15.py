#!/usr/bin/env python3
"""C15 — client bounds its peers, survives failed rendezvous, always shuts down (DESIGN.md §3 C15)."""
import glob
import os
import sys

sys.path.insert(0, os.path.join(os.path.dirname(os.path.abspath(__file__)), "..", "lib"))
import enumlib  # noqa: E402
import sched  # noqa: E402
import vlib  # noqa: E402
import client_common  # noqa: E402


def files(d):
    return {"zz_verif_" + os.path.basename(f): f for f in glob.glob(os.path.join(vlib.VERIF, "harness", d, "*_test.go"))}


def main():
    tier = vlib.tier_arg(sys.argv)
    rep = vlib.Report("C15", tier, "model_checking")
    binary = client_common.build()
    U = "all interleavings up to Mazurkiewicz equivalence (unbounded preemptions; DPOR + sleep sets)"
    if tier == "quick":
        passes = [{"harness": "c15", "cfg": {"maxes": "2", "script": "2", "end2s": "3"}, "budget_s": 40,
                   "label": "Peers + connectLoop, max in {1,2} x 2 scripted Catch outcomes from {now, 3 s, error} x self-close {never,0.5s,11s} x pops {0,1,2} x End at {1s,10s,12s} x second End {none,same instant,+5s}: " + U}]
        total = 60
    else:
        passes = [{"harness": "c15", "cfg": {"maxes": "3", "script": "3", "end2s": "3"}, "budget_s": 600,
                   "label": "Peers + connectLoop, max in {1,2,3} x 3 scripted Catch outcomes x self-close x pops x End instants x second End: " + U}]
        total = 700
    summary, tot, samples, exh = sched.run_passes(rep, binary, passes, total)
    try:
        eb = enumlib.build("clientlib-enum", "client/lib", files("clientlib"))
        for test, shards in (("TestVerifEnumC15", None), ("TestVerifEnumC15Close", 4), ("TestVerifEnumC15Silent", 3)):
            res = enumlib.run(eb, test, tier, 300, nshards=shards)
            for f in res["findings"]:
                rep.finding(f["sig"], f["msg"], {"input": f["input"], "kind": "constructor / Close case (real pion, real KCP+smux)"})
            for name in res["section_order"]:
                sec = res["sections"][name]
                summary.append({"label": name + ": " + sec.get("note", ""), "cases": sec["evaluations"], "exhaustive": sec["exhaustive"]})
                tot["executions"] += sec["evaluations"]
            exh = exh and res["exhaustive"]
            samples += [{"pass": test, "trace": s} for s in res["samples"][:2]]
    except vlib.EngineError as e:
        rep.engine_errors.append(str(e))
    sched.sched_coverage(rep, summary, tot, samples, exh)
    rep.assumptions += ["virtual time: computation is instantaneous relative to timers",
                        "peers in the scheduled harness are built as the repository's own tests build them (no pion objects); the real constructor is exercised sequentially with real pion",
                        "exit status of the client binary on SIGTERM/SOCKS close is not decided (process level)"]
    rep.finish()


if __name__ == "__main__":
    main()
