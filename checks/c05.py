#!/usr/bin/env python3
"""C05 — server binds packets to sessions by ClientID; sessions never mix (DESIGN.md §3 C05).

Tier 1: turbotunnelMode + QueuePacketConn + ClientMap under the scheduler (virtual time).
Tier 2: the clauses above turbotunnelMode (token check, one accepted connection per session, client
address of the accepted connection) on the real stack over loopback WebSockets (sequential enumeration)."""
import os
import sys

sys.path.insert(0, os.path.join(os.path.dirname(os.path.abspath(__file__)), "..", "lib"))
import glob

import enumlib  # noqa: E402
import sched  # noqa: E402
import vlib  # noqa: E402
import server_common  # noqa: E402


def main():
    tier = vlib.tier_arg(sys.argv)
    rep = vlib.Report("C05", tier, "model_checking")
    binary = rep.try_build(server_common.build, "tier 1 (scheduled harness in server/lib)")
    U = "all interleavings up to Mazurkiewicz equivalence (unbounded preemptions; DPOR + sleep sets)"
    S = "carrier schedules {single, cut inside ClientID / inside length prefix / inside payload / at a packet boundary then reconnect, two overlapping carriers, idle gaps of 30/59/61/95 s with a downstream packet written during the gap, a carrier attached and idle for 140 s, a session arriving after 100 s}"
    if tier == "quick":
        passes = [
            {"harness": "c05", "cfg": {"sessions": "1"}, "budget_s": 40, "label": "1 session x 12 " + S + ": " + U},
            {"harness": "c05", "cfg": {"sessions": "2", "other": "single", "light": "1"}, "budget_s": 60, "label": "2 concurrent sessions: one running each of the 12 schedules, the other a single-carrier client at the same instant (one upstream packet per carrier): " + U},
            {"harness": "c05", "cfg": {"sessions": "2", "other": "late", "light": "1"}, "budget_s": 30, "label": "2 sessions: one running each of the 12 schedules (incl. a carrier that stays attached, idle, beyond the retention time), the other arriving 100 s later with a ClientID the server has not seen: " + U},
        ]
        total = 140
    else:
        passes = [
            {"harness": "c05", "cfg": {"sessions": "1"}, "budget_s": 100, "label": "1 session x 12 " + S + ": " + U},
            {"harness": "c05", "cfg": {"sessions": "2", "other": "late"}, "budget_s": 100, "label": "2 sessions, the other arriving 100 s later (two upstream packets per carrier): " + U},
            {"harness": "c05", "cfg": {"sessions": "2", "other": "single"}, "budget_s": 200, "label": "2 concurrent sessions: one running each of the 10 schedules, the other a single-carrier client (two upstream packets per carrier): " + U},
            {"harness": "c05", "cfg": {"sessions": "3", "other": "single", "light": "1"}, "budget_s": 200, "label": "3 concurrent sessions: one running each schedule, two single-carrier clients: " + U},
            {"harness": "c05", "cfg": {"sessions": "2", "light": "1"}, "budget_s": 300, "label": "2 concurrent sessions x 10 schedules each, one upstream packet per carrier: " + U},
            {"harness": "c05", "cfg": {"sessions": "2", "set": "reduced"}, "budget_s": 400, "label": "2 concurrent sessions x 4 schedules each, two upstream packets per carrier: " + U},
        ]
        total = 1000
    if binary:
        summary, tot, samples, exh = sched.run_passes(rep, binary, passes, total)
        sched.sched_coverage(rep, summary, tot, samples, exh)
    else:
        rep.coverage.update({"exhaustive": False, "traces_validated_against_impl": 0})
    # tier 2: real stack on loopback
    try:
        # only the file that drives the exported listener (the C18 files of that directory touch unexported state)
        files = {"zz_verif_c05t2_test.go": os.path.join(vlib.VERIF, "harness", "serverlib", "c05t2_test.go")}
        eb = enumlib.build("serverlib-t2", "server/lib", files)
        res = enumlib.run(eb, "TestVerifEnumC05T2", tier, 150 if tier == "quick" else 600)
        for f in res["findings"]:
            rep.finding(f["sig"], f["msg"], {"input": f["input"], "kind": "real-stack scenario (loopback WebSocket carriers, kcp-go, smux)", "test": "TestVerifEnumC05T2"})
        rep.coverage["real_stack_tier2"] = {"scenarios": res["evaluations"], "sections": res["sections"], "completed": res["exhaustive"], "stop_reason": res.get("stop_reason"),
                                            "note": "Transport.Listen on a loopback port; carriers are real gorilla WebSocket connections; kcp-go and smux on both ends; sequential enumeration of token variants and carrier schedules"}
        rep.coverage["traces_validated_against_impl"] += res["evaluations"]
        if not res["exhaustive"]:
            rep.coverage["exhaustive"] = False
    except (vlib.EngineError, SystemExit) as e:
        rep.engine_errors.append("tier 2: " + str(e))
    rep.assumptions += [
        "virtual time: computation is instantaneous relative to timers (the ClientMap sweeper never closes a queue between SendQueue() and the send that follows it)",
        "carriers are in-memory byte streams (what websocketconn.Conn is to turbotunnelMode); KCP/smux are replaced by a stand-in that reads packets, looks the client address up on a session's first packet (as acceptStreams does) and answers each packet",
        "SendQueue critical sections of ClientMap.lock and Get sections of clientIDMap.lock are declared commuting (argument in the harness); checked at run time to contain no synchronisation",
        "tier 2 runs in real time on loopback: its safety oracles compare bytes and counts only; a scenario that does not complete within 40 s is re-run alone three times before it is reported; trouble with the loopback listener marks the run incomplete instead of failing it",
        "tier 2 judges 'no connection was produced' after a barrier (a valid session set up afterwards on the same listener has been accepted and served)",
    ]
    rep.finish()


if __name__ == "__main__":
    main()
