#!/usr/bin/env python3
"""C01 — end-to-end byte stream exact and ordered across proxy churn (DESIGN.md §3 C01, tier 1)."""
import os
import sys

sys.path.insert(0, os.path.join(os.path.dirname(os.path.abspath(__file__)), "..", "lib"))
import sched  # noqa: E402
import vlib  # noqa: E402
import server_common  # noqa: E402


def main():
    tier = vlib.tier_arg(sys.argv)
    rep = vlib.Report("C01", tier, "model_checking")
    binary = server_common.build()
    U = "all interleavings up to Mazurkiewicz equivalence (unbounded preemptions; DPOR + sleep sets)"
    W = "client RedialPacketConn + encapsulationPacketConn (dial mirrors dialContext: token, ClientID) -> transparent relay -> server token check + turbotunnelMode + QueuePacketConn, stop-and-wait ARQ on both ends"
    if tier == "quick":
        passes = [
            {"harness": "c01", "cfg": {"faults": "0"}, "budget_s": 20, "label": W + "; no fault: " + U},
            {"harness": "c01", "cfg": {"faults": "1", "payloads": "1", "maxidx": "4"}, "budget_s": 75, "max_exec_per_cfg": 3000,
             "label": "1 fault: kind {cut before/inside/after a write, freeze} x direction x write index 0..3 x {enough carriers, one too few} x replacement delay {0, 10 s}; at most 3000 executions per configuration so that the budget reaches all 128: " + U},
        ]
        total = 100
    else:
        passes = [
            {"harness": "c01", "cfg": {"faults": "0"}, "budget_s": 30, "label": W + "; no fault: " + U},
            {"harness": "c01", "cfg": {"faults": "1", "maxidx": "10"}, "budget_s": 300, "label": "1 fault x write index 0..9, two payloads each way: " + U},
            {"harness": "c01", "cfg": {"faults": "2", "payloads": "1", "maxidx": "5"}, "budget_s": 550, "label": "2 faults x write index 0..4 each: " + U},
        ]
        total = 900
    summary, tot, samples, exh = sched.run_passes(rep, binary, passes, total)
    sched.sched_coverage(rep, summary, tot, samples, exh)
    rep.assumptions += [
        "virtual time: computation is instantaneous relative to timers",
        "tier 1: KCP+smux are replaced by a stop-and-wait ARQ driver (retransmit every 1 s of virtual time); the proxy is a transparent relay preserving message boundaries client->server; the pion data channel, real proxies under SIGKILL/SIGSTOP and KCP/smux internals are not covered",
        "frozen carriers are abandoned by the client's real checkForStaleness (started for every peer as connect() does; lastReceive is refreshed on message arrival as pion's OnMessage callback does)",
        "payloads: 1 and 1400 bytes up, 58 and 59 bytes down (63/64 bytes on the wire: both sides of the 1/2-byte length-prefix boundary)",
        "SendQueue sections of ClientMap.lock declared commuting (argument in harness/serverlib_sched/c05_test.go)",
    ]
    rep.finish()


if __name__ == "__main__":
    main()
