#!/usr/bin/env python3
"""C01 — end-to-end byte stream exact and ordered across proxy churn (DESIGN.md §3 C01).

Tier 1: the real dialContext closure, WebRTCPeer, encapsulation, RedialPacketConn and the real server
turbotunnelMode under the scheduler (virtual time, ARQ stand-in for KCP).
Tier 2: the real client session (kcp-go, smux) <-> relay <-> real server listener over loopback
WebSockets, faults at chosen relay messages (sequential enumeration, real time)."""
import os
import sys

sys.path.insert(0, os.path.join(os.path.dirname(os.path.abspath(__file__)), "..", "lib"))
import client_t2_common  # noqa: E402
import enumlib  # noqa: E402
import sched  # noqa: E402
import vlib  # noqa: E402
import server_common  # noqa: E402


def main():
    tier = vlib.tier_arg(sys.argv)
    rep = vlib.Report("C01", tier, "model_checking")
    binary = rep.try_build(server_common.build, "tier 1 (scheduled harness in server/lib)")
    U = "all interleavings up to Mazurkiewicz equivalence (unbounded preemptions; DPOR + sleep sets)"
    W = "client RedialPacketConn + encapsulationPacketConn (dial mirrors dialContext: token, ClientID) -> transparent relay -> server token check + turbotunnelMode + QueuePacketConn, stop-and-wait ARQ on both ends"
    if tier == "quick":
        passes = [
            {"harness": "c01", "cfg": {"faults": "0"}, "budget_s": 20, "label": W + "; no fault: " + U},
            {"harness": "c01", "cfg": {"faults": "1", "payloads": "1", "maxidx": "4"}, "budget_s": 75, "max_exec_per_cfg": 3000,
             "label": "1 fault: kind {cut before/inside/after a write, freeze} x direction x write index 0..3 x {enough carriers, one too few} x replacement delay {0, 10 s}; at most 3000 executions per configuration so that the budget reaches all 128: " + U},
        ]
        total = 100
    else:
        passes = [
            {"harness": "c01", "cfg": {"faults": "0"}, "budget_s": 30, "label": W + "; no fault: " + U},
            {"harness": "c01", "cfg": {"faults": "1", "maxidx": "10"}, "budget_s": 300, "label": "1 fault x write index 0..9, two payloads each way: " + U},
            {"harness": "c01", "cfg": {"faults": "2", "payloads": "1", "maxidx": "5"}, "budget_s": 550, "label": "2 faults x write index 0..4 each: " + U},
        ]
        total = 900
    if binary:
        summary, tot, samples, exh = sched.run_passes(rep, binary, passes, total)
        sched.sched_coverage(rep, summary, tot, samples, exh)
    else:
        rep.coverage.update({"exhaustive": False, "traces_validated_against_impl": 0})
    # tier 2: real stacks on loopback
    try:
        eb = client_t2_common.build()
        res = enumlib.run(eb, "TestVerifEnumC01T2", tier, 200 if tier == "quick" else 900)
        for f in res["findings"]:
            rep.finding(f["sig"], f["msg"], {"input": f["input"], "kind": "real-stack scenario (client newSession with kcp-go+smux, relay, server listener over loopback WebSockets)", "test": "TestVerifEnumC01T2"})
        rep.coverage["real_stack_tier2"] = {"scenarios": res["evaluations"], "sections": res["sections"], "completed": res["exhaustive"], "stop_reason": res.get("stop_reason"),
                                            "note": "real client session and real server listener; WebRTCPeer's data channel replaced by an in-memory transport feeding a relay; faults at chosen relay messages"}
        rep.coverage["traces_validated_against_impl"] += res["evaluations"]
        if not res["exhaustive"]:
            rep.coverage["exhaustive"] = False
    except (vlib.EngineError, SystemExit) as e:
        rep.engine_errors.append("tier 2: " + str(e))
    rep.assumptions += [
        "virtual time: computation is instantaneous relative to timers",
        "tier 1: KCP+smux are replaced by a stop-and-wait ARQ driver (retransmit every 1 s of virtual time); the proxy is a transparent relay preserving message boundaries client->server; the pion data channel, real proxies under SIGKILL/SIGSTOP and KCP/smux internals are not covered",
        "frozen carriers are abandoned by the client's real checkForStaleness (started for every peer as connect() does; lastReceive is refreshed on message arrival as pion's OnMessage callback does)",
        "payloads: 1 and 1400 bytes up, 58 and 59 bytes down (63/64 bytes on the wire: both sides of the 1/2-byte length-prefix boundary)",
        "SendQueue sections of ClientMap.lock declared commuting (argument in harness/serverlib_sched/c05_test.go)",
        "tier 2 runs in real time on loopback: its safety oracles compare bytes only (what each side read is a prefix of / equal to what the other wrote, one bridge connection per stream); a scenario that does not complete within 60 s is re-run three times before it is reported; loopback trouble marks the run incomplete; the pion data channel is replaced by an in-memory transport (three fields of WebRTCPeer retyped at build time)",
    ]
    rep.finish()


if __name__ == "__main__":
    main()
