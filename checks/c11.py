#!/usr/bin/env python3
"""C11 — rendezvous requests are faithfully encoded, fronted and bounded (DESIGN.md §3 C11).

ENUM parts: AMP path encoding and AMP cache URLs (common/amp), fronting and response limits of the two
client rendezvous methods (client/lib).  The endpoint-equivalence clause (broker /client vs
/amp/client/) is checked under the scheduler in the broker harness, not here."""
import glob
import os
import sys

sys.path.insert(0, os.path.join(os.path.dirname(os.path.abspath(__file__)), "..", "lib"))
import enumlib  # noqa: E402
import vlib  # noqa: E402

RULE = ("bounded-exhaustive enumeration against references written from doc.go (path format), the AMP cache URL "
        "specification steps quoted in cache.go (domain prefix; x/net/idna trusted as punycode primitive) and the property "
        "statement (fronting, status/size limits); a case is distinct after canonicalising to its input text "
        "(path string / publisher URL, cache URL, content type / broker, cache, front, poll / status, body size, reader mode)")


def main():
    tier = vlib.tier_arg(sys.argv)
    rep = vlib.Report("C11", tier, "exploration")
    try:
        b1 = enumlib.build("c11-amp", "common/amp", {"zz_verif_c11_test.go": os.path.join(vlib.VERIF, "harness/amp/c11_test.go")})
        res = enumlib.run(b1, "TestVerifEnumC11", tier, 50 if tier == "quick" else 700)
        enumlib.report(rep, res, RULE)
        b2 = enumlib.build("c11-client", "client/lib", {"zz_verif_c11_test.go": os.path.join(vlib.VERIF, "harness/clientlib/c11_test.go")})
        res = enumlib.run(b2, "TestVerifEnumC11Client", tier, 50 if tier == "quick" else 700)
        enumlib.report(rep, res, RULE)
        b3 = enumlib.build("broker-enum", "broker", {"zz_verif_" + os.path.basename(f): f for f in glob.glob(os.path.join(vlib.VERIF, "harness", "broker_enum", "*_test.go"))})
        res = enumlib.run(b3, "TestVerifEnumC11Endpoints", tier, 60 if tier == "quick" else 300)
        enumlib.report(rep, res, RULE)
    except vlib.EngineError as e:
        rep.engine_errors.append(str(e))
    rep.assumptions += [
        "golang.org/x/net/idna (Punycode profile, applied per label) is trusted as the punycode primitive of the reference",
        "where the AMP specification is ambiguous every reading is accepted: positions 3-4 counted in bytes or characters, an undecodable xn-- label aborts the basic algorithm or is kept, "
        "fallback when the basic result is not an LDH label (only '>63' is named by the specification), SHA-256 over the domain as given / its Unicode form / its punycode form, ASCII case",
        "duplicate and trailing slashes of publisher and cache paths are not compared (CacheURL joins with path.Join; the statement's 'keeps its path' is read as keeping the sequence of non-empty segments, escaped form preserved)",
        "CacheURL errors for non-http(s) schemes, userinfo, non-default ports, empty host, empty content type and cache URLs with a query are accepted (documented contract); "
        "an explicit default port may be kept or omitted in the host component; hosts without any label ('.', '..') are only checked for panics",
        "the encoding of an empty poll ends in a slash, which CacheURL drops: empty poll x AMP cache is not judged (no real poll message is empty)",
        "a 200 response with a well-formed Location header is expected to be an error (documented 'silent redirect' of the AMP cache); empty or unparseable Location values are not judged",
        "paths with CR/LF inside the base64 text or non-zero trailing bits are not judged (Go's base64 decoders accept them; the format description does not mention them)",
        "fronting is observed both at the http.RoundTripper handed to the rendezvous constructors and on the wire of a real net/http.Transport whose dialer is an in-memory pipe (no network)",
        "the endpoint-equivalence clause of C11 is covered by the broker scheduler harness, not by this driver",
    ]
    rep.finish()


if __name__ == "__main__":
    main()
