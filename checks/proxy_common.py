import glob
import os
import sys

sys.path.insert(0, os.path.join(os.path.dirname(os.path.abspath(__file__)), "..", "lib"))
import vlib  # noqa: E402

HARNESSES = ("c16", "c06-proxy")


def build(race=False):
    hdir = os.path.join(vlib.VERIF, "harness", "proxylib_sched")
    hf = {"zz_verif_" + os.path.basename(f): f for f in glob.glob(os.path.join(hdir, "*_test.go"))}
    adds = {"proxy/lib/zz_verif_" + os.path.basename(f): f for f in glob.glob(os.path.join(hdir, "*.go")) if not f.endswith("_test.go")}
    return vlib.build_harness("proxylib", ["proxy/lib"], "proxy/lib", hf, adds=adds, race=race,
                              seams=["proxy/lib:(*SnowflakeProxy).makePeerConnectionFromOffer", "proxy/lib:copyLoop"])
