#!/bin/bash
# Runs every registered check of a tier (default quick) in /verif against /repo and prints one line per check.
# The thorough tier writes its evidence to evidence/thorough/ so that evidence/<id>.json keeps describing the quick run.
cd "$(dirname "$0")/.."
TIER=${1:-quick}; shift
[ "$TIER" = thorough ] && export VERIF_EVIDENCE=$PWD/evidence/thorough
IDS=${*:-$(python3 -c "import json; print(' '.join(c['property_id'] for c in json.load(open('MANIFEST.json'))['checks']))")}
for id in $IDS; do
  s=$(date +%s)
  python3 checks/$(echo $id | tr 'A-Z' 'a-z').py $TIER > .work/runall-$TIER-$id.log 2>&1; rc=$?
  echo "$id rc=$rc $(( $(date +%s) - s ))s $(grep -c '^VIOLATION' .work/runall-$TIER-$id.log) violation(s) $(grep -c '^KNOWN-FINDING' .work/runall-$TIER-$id.log) known"
done
