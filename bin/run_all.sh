#!/bin/bash
# Runs every registered check of a tier (default quick) in /verif against /repo and prints one line per check.
cd "$(dirname "$0")/.."
TIER=${1:-quick}
for id in $(python3 -c "import json; print(' '.join(c['property_id'] for c in json.load(open('MANIFEST.json'))['checks']))"); do
  s=$(date +%s)
  python3 checks/$(echo $id | tr 'A-Z' 'a-z').py $TIER > .work/runall-$id.log 2>&1; rc=$?
  echo "$id rc=$rc $(( $(date +%s) - s ))s $(grep -c '^VIOLATION' .work/runall-$id.log) violation(s) $(grep -c '^KNOWN-FINDING' .work/runall-$id.log) known"
done
