#!/bin/bash
# Runs the repository's pinned test suite (guard off: no build tags, no overlay) without touching
# /repo/go.mod (a plain build with -mod=mod would rewrite it, so a copy is passed with -modfile).
# Prints a summary line "BASELINE pass=<n> fail=<n>" and exits non-zero if a stable test fails.
export GOFLAGS=-mod=mod GOPROXY=off GOSUMDB=off GOTOOLCHAIN=local
REPO=${VERIF_REPO:-/repo}
T=$(mktemp -d /var/tmp/verif-baseline.XXXXXX)
trap 'rm -rf "$T"' EXIT
cp "$REPO/go.mod" "$T/go.mod"; cp "$REPO/go.sum" "$T/go.sum"
cd "$REPO" && go test -modfile="$T/go.mod" -json -vet=off -count=1 -timeout 25m ./... > "$T/out.json" 2>"$T/err.txt"
python3 - "$T/out.json" /root/.vp/BASELINE.json <<'PY'
import json, sys
res = {}
for line in open(sys.argv[1]):
    try:
        e = json.loads(line)
    except ValueError:
        continue
    if e.get("Test") and e.get("Action") in ("pass", "fail", "skip"):
        res[e["Package"] + "::" + e["Test"]] = e["Action"]
stable = []
try:
    stable = json.load(open(sys.argv[2]))["stable_pass"]
except Exception:
    pass
bad = [t for t in stable if res.get(t) != "pass"]
npass = sum(1 for v in res.values() if v == "pass")
nfail = sum(1 for v in res.values() if v == "fail")
print("BASELINE pass=%d fail=%d stable=%d stable_not_passing=%d" % (npass, nfail, len(stable), len(bad)))
for t in bad:
    print("  NOT PASSING:", t, res.get(t))
sys.exit(1 if bad else 0)
PY
