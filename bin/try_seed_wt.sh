#!/bin/bash
# try_seed_wt.sh <patch> <check-script> [tier]: runs a check against a scratch worktree of /repo with
# the patch applied (VERIF_REPO), with its own work and evidence directories, leaving /repo,
# /verif/.work and /verif/evidence untouched.  Safe to use while other checks run against /repo.
PATCH=$(readlink -f "$1"); CHECK=$2; TIER=${3:-quick}
T=/tmp/tryseed.$$
git -C /repo worktree add -q --detach $T/repo HEAD || exit 2
( cd $T/repo && git apply "$PATCH" ) || { echo "patch does not apply"; git -C /repo worktree remove --force $T/repo; rm -rf $T; exit 2; }
mkdir -p $T/work/bin; cp -p /verif/.work/bin/instr $T/work/bin/ 2>/dev/null
cd /verif && VERIF_REPO=$T/repo VERIF_WORK=$T/work VERIF_EVIDENCE=$T/evidence python3 checks/$CHECK $TIER 2>&1 | grep "VIOLATION\|sig=\|ENGINE\|KNOWN" | cut -c1-260
echo "check exit=${PIPESTATUS[0]}"
git -C /repo worktree remove --force $T/repo; git -C /repo worktree prune; rm -rf $T
