#!/bin/bash
# verify_seed.sh <ID> <worktree> <demo-pkg> <demo-run-regex> [extra go test flags for the demo, e.g. -race]
# Confirms an independently written property-breaking change: baseline tests pass with it, the
# demonstration fails with it and passes without it.  Then stores it under /verif/seeded/<ID>/.
set -u
ID=$1; WT=$2; PKG=$3; RUN=$4; EXTRA=${5:-}
export GOFLAGS=-mod=mod GOPROXY=off GOSUMDB=off GOTOOLCHAIN=local
cd "$WT" || exit 2
git stash -q -- go.mod go.sum 2>/dev/null
echo "== baseline with change (demonstration files hidden)"
HIDDEN=()
for f in SEED/*_test.go; do
  [ -e "$f" ] || continue
  b=$(basename "$f")
  for g in $(git ls-files --others --exclude-standard | grep "/$b$"); do mv "$g" "$g.hidden"; HIDDEN+=("$g"); done
done
go test -vet=off -count=1 -ldflags=-checklinkname=0 ./broker/... ./common/... > /tmp/seed_baseline_$ID.txt 2>&1
BASE=$?
grep -v "^ok\|no test files" /tmp/seed_baseline_$ID.txt | head -20
echo "baseline exit=$BASE"
for g in "${HIDDEN[@]}"; do mv "$g.hidden" "$g"; done
echo "== demo with change (must fail)"
go test -vet=off -count=1 -ldflags=-checklinkname=0 $EXTRA -run "$RUN" "$PKG" > /tmp/seed_demo_with.txt 2>&1; W=$?
tail -5 /tmp/seed_demo_with.txt
git apply -R SEED/patch.diff || { echo "cannot revert patch"; exit 2; }
echo "== demo without change (must pass)"
go test -vet=off -count=1 -ldflags=-checklinkname=0 $EXTRA -run "$RUN" "$PKG" > /tmp/seed_demo_without.txt 2>&1; WO=$?
tail -3 /tmp/seed_demo_without.txt
git apply SEED/patch.diff
git checkout -q -- go.mod go.sum 2>/dev/null
echo "RESULT id=$ID baseline_exit=$BASE demo_with_change_exit=$W demo_without_change_exit=$WO"
if [ "$BASE" = 0 ] && [ "$W" != 0 ] && [ "$WO" = 0 ]; then
  mkdir -p /verif/seeded/$ID
  cp SEED/* /verif/seeded/$ID/ 2>/dev/null
  echo "stored in /verif/seeded/$ID"
else
  echo "NOT CONFIRMED"
fi
