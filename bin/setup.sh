#!/bin/bash
# Builds the framework from files on disk only (offline) and warms the build cache.
set -e
cd "$(dirname "$0")/.."
export GOFLAGS=-mod=mod GOPROXY=off GOSUMDB=off GOTOOLCHAIN=local
mkdir -p .work/bin evidence
(cd engine/instr && go build -o ../../.work/bin/instr .)
python3 bin/selfcheck.py
echo "setup ok"
