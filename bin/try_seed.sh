#!/bin/bash
# try_seed.sh <patch> <check-script> [tier]: applies a patch to /repo, runs the check, undoes the patch.
PATCH=$1; CHECK=$2; TIER=${3:-quick}
cd /repo && { [ -z "$(git status --porcelain)" ] || { echo "REFUSING: /repo has uncommitted changes"; exit 2; }; } && git apply "$PATCH" || { echo "patch does not apply"; exit 2; }
cd /verif && python3 checks/$CHECK $TIER 2>&1 | grep "VIOLATION\|sig=\|ENGINE\|KNOWN" | cut -c1-260
echo "check exit=${PIPESTATUS[0]}"
cd /repo && git checkout -- . && git status --short
