#!/usr/bin/env python3
"""Setup-time self checks of the machinery (never property verdicts):

1. Instrumenter conformance: every package the SCHED checks instrument is built from its
   instrumented sources together with the repository's own tests, which must pass with the runtime in
   pass-through mode (translation validation of our own tool).
2. Reduction cross-check: on small broker configurations the set of distinct outcomes found with
   DPOR + sleep sets must equal the one found with sleep sets alone and the one found by plain
   exhaustive search with the happens-before state cache (no partial-order reduction at all).
3. Warm build of every harness binary (normal and -race) so that the checks' first builds are fast.
"""
import json
import os
import shutil
import sys

sys.path.insert(0, os.path.join(os.path.dirname(os.path.abspath(__file__)), "..", "lib"))
sys.path.insert(0, os.path.join(os.path.dirname(os.path.abspath(__file__)), "..", "checks"))
import vlib  # noqa: E402


def conformance(name, pkgs, test_pkgs):
    work = vlib.workdir("conf-" + name)
    mf = vlib.modfile(work)
    src = os.path.join(work, "src")
    shutil.rmtree(src, ignore_errors=True)
    os.makedirs(src)
    cmd = [vlib.ensure_tools(), "-repo", vlib.REPO, "-modfile", mf, "-out", src]
    for p in pkgs:
        cmd += ["-pkg", "./" + p]
    vlib.run(cmd, cwd=vlib.REPO)
    overlay = vlib.vs_overlay()
    overlay.update(json.load(open(os.path.join(src, "mapping.json"))))
    ov = os.path.join(work, "overlay.json")
    json.dump({"Replace": overlay}, open(ov, "w"))
    cmd = ["go", "test", "-overlay", ov, "-modfile", mf, "-vet=off", "-ldflags=-checklinkname=0", "-count=1"] + ["./" + p for p in test_pkgs]
    p = vlib.run(cmd, cwd=vlib.REPO, check=False, timeout=1200)
    ok = p.returncode == 0
    print("[conformance] %s: %s" % (name, "ok" if ok else "FAILED"), flush=True)
    if not ok:
        print(p.stdout[-5000:])
    return ok


def outcomes(binary, harness, cfg, mode):
    env = {"VERIF_SLEEPONLY": "1"} if mode == "sleep" else None
    if mode == "cache":
        r = vlib.explore(binary, harness, -1, 120, cfg=cfg, por=False, cache=True)
    else:
        r = vlib.explore(binary, harness, -1, 120, cfg=cfg, por=True, cache=False, env_extra=env)
    if not r["exhaustive"] or r["n_outcomes"] >= 400:
        raise vlib.EngineError("cross-check pass %s %s not exhaustive" % (harness, mode))
    return set(r["outcomes"].keys()), r["executions"]


def crosscheck():
    import broker_common
    b = broker_common.build_broker()
    ok = True
    for cfg, modes in (({"P": "1", "C": "1"}, ("dpor", "sleep", "cache")), ({"P": "1", "C": "2"}, ("dpor", "sleep"))):
        res = {m: outcomes(b, "c04", cfg, m) for m in modes}
        ref = res[modes[-1]][0]
        same = all(res[m][0] == ref for m in modes)
        print("[crosscheck] c04 %s: %s -> %s" % (cfg, {m: (len(res[m][0]), res[m][1]) for m in modes}, "same outcome sets" if same else "DIFFERENT OUTCOME SETS"), flush=True)
        ok = ok and same
    return ok


def warm():
    import broker_common, client_common, client_t2_common, proxy_common, safelog_common, server_common, tt_common
    for mod in (broker_common, tt_common, client_common, server_common, proxy_common, safelog_common, client_t2_common):
        build = getattr(mod, "build", None) or getattr(mod, "build_broker")
        build()
        build(race=True)


def main():
    ok = True
    ok &= conformance("broker", ["broker"], ["broker"])
    ok &= conformance("turbotunnel", ["common/turbotunnel"], ["common/turbotunnel"])
    ok &= conformance("safelog", ["common/safelog"], ["common/safelog"])
    ok &= conformance("libs", ["client/lib", "server/lib", "proxy/lib", "common/turbotunnel"], ["client/lib", "server/lib", "proxy/lib"])
    ok &= crosscheck()
    warm()
    if not ok:
        sys.exit(1)


if __name__ == "__main__":
    main()
