#!/usr/bin/env python3
"""Setup-time self checks: builds every harness once (warming the build cache) and runs the
instrumenter conformance check (the repository's own tests on instrumented sources, runtime in
pass-through mode)."""
import os
import sys

sys.path.insert(0, os.path.join(os.path.dirname(os.path.abspath(__file__)), "..", "lib"))
sys.path.insert(0, os.path.join(os.path.dirname(os.path.abspath(__file__)), "..", "checks"))
import vlib  # noqa: E402


def conformance(name, pkgs, test_pkgs):
    """Build instrumented pkgs together with the repository's own tests and run them."""
    import json, shutil
    work = vlib.workdir("conf-" + name)
    mf = vlib.modfile(work)
    src = os.path.join(work, "src")
    shutil.rmtree(src, ignore_errors=True)
    os.makedirs(src)
    cmd = [vlib.ensure_tools(), "-repo", vlib.REPO, "-modfile", mf, "-out", src]
    for p in pkgs:
        cmd += ["-pkg", "./" + p]
    vlib.run(cmd, cwd=vlib.REPO)
    overlay = vlib.vs_overlay()
    overlay.update(json.load(open(os.path.join(src, "mapping.json"))))
    ov = os.path.join(work, "overlay.json")
    json.dump({"Replace": overlay}, open(ov, "w"))
    cmd = ["go", "test", "-overlay", ov, "-modfile", mf, "-vet=off", "-ldflags=-checklinkname=0", "-count=1"] + ["./" + p for p in test_pkgs]
    p = vlib.run(cmd, cwd=vlib.REPO, check=False, timeout=900)
    ok = p.returncode == 0
    print("[conformance] %s: %s" % (name, "ok" if ok else "FAILED"))
    if not ok:
        print(p.stdout[-5000:])
    return ok


def main():
    ok = True
    ok &= conformance("broker", ["broker"], ["broker"])
    if not ok:
        sys.exit(1)


if __name__ == "__main__":
    main()
