//go:build go1.21

package snowflake_client

// C15 (failure kinds) — a failed attempt to obtain a peer is reported as an error/event and never
// terminates the client: the real NewWebRTCPeerWithEvents (real pion) with every ICE configuration
// x every kind of rendezvous failure.  Sequential and deterministic (no scheduler involved).

import (
	"errors"
	"fmt"
	"io"
	"log"
	"net"
	"strings"
	"testing"
	"time"

	"git.torproject.org/pluggable-transports/snowflake.git/v2/common/event"
	"git.torproject.org/pluggable-transports/snowflake.git/v2/common/messages"
	en "git.torproject.org/pluggable-transports/snowflake.git/v2/verifenum"
	"github.com/pion/webrtc/v3"
)

type eventSink struct {
	events   []event.SnowflakeEvent
	rendered []string
}

// Like the client program's own listener (ptEventLogger), the sink renders every event with String(),
// synchronously in the goroutine that dispatches it: a panic there is a panic of the client.
func (s *eventSink) OnNewSnowflakeEvent(e event.SnowflakeEvent) {
	s.events = append(s.events, e)
	s.rendered = append(s.rendered, e.String())
}

func (s *eventSink) hasError() bool {
	for _, e := range s.events {
		switch v := e.(type) {
		case event.EventOnOfferCreated:
			if v.Error != nil {
				return true
			}
		case event.EventOnBrokerRendezvous:
			if v.Error != nil {
				return true
			}
		case event.EventOnSnowflakeConnectionFailed:
			return true
		}
	}
	return false
}

// answeringRendezvous answers like a proxy would: it builds a real SDP answer to the client's offer
// with a throw-away pion PeerConnection that is closed at once, so the data channel never opens.
type answeringRendezvous struct{}

func (answeringRendezvous) Exchange(req []byte) ([]byte, error) {
	r, err := messages.DecodeClientPollRequest(req)
	if err != nil {
		return nil, err
	}
	var offer webrtc.SessionDescription
	d, err := deserializeForTest(r.Offer)
	if err != nil {
		return nil, err
	}
	offer = *d
	pc, err := webrtc.NewPeerConnection(webrtc.Configuration{})
	if err != nil {
		return nil, err
	}
	defer pc.Close()
	if err := pc.SetRemoteDescription(offer); err != nil {
		return nil, err
	}
	ans, err := pc.CreateAnswer(nil)
	if err != nil {
		return nil, err
	}
	done := webrtc.GatheringCompletePromise(pc)
	if err := pc.SetLocalDescription(ans); err != nil {
		return nil, err
	}
	<-done
	s, err := serializeForTest(pc.LocalDescription())
	if err != nil {
		return nil, err
	}
	return (&messages.ClientPollResponse{Answer: s}).EncodePollResponse()
}

func TestVerifEnumC15(t *testing.T) {
	log.SetOutput(io.Discard)
	r := en.New()
	defer r.Done()
	r.Begin("constructor-failures", "NewWebRTCPeerWithEvents (real pion) x ICE configurations {none, [\"\"], [\"foo\"], [\"stun:127.0.0.1:1\"], [\"turn:x\"]} x rendezvous outcomes {transport error, empty, non-JSON, error member, hostile descriptions, valid answer whose data channel never opens}: returns an error (and reports an event with it), never panics; the listener renders every event with String() as the client program's does")
	iceConfigs := [][]string{nil, {""}, {"foo"}, {"stun:127.0.0.1:1"}, {"turn:x"}, {"stun:"}}
	type rdv struct {
		name string
		m    RendezvousMethod
		slow bool
	}
	var rdvs []rdv
	rdvs = append(rdvs, rdv{"transport-error", &scriptedRendezvous{err: errors.New("dial tcp: connection refused")}, false})
	for _, raw := range []string{``, `garbage`, `{}`, `{"error":"no snowflake proxies currently available"}`, `{"error":"timed out waiting for answer!"}`, `{"answer":1}`} {
		rdvs = append(rdvs, rdv{"reply:" + raw, &scriptedRendezvous{reply: []byte(raw)}, false})
	}
	hostile := en.HostileSessionDescriptions()
	for i, h := range hostile {
		if i%37 != 0 && i < len(hostile)-22 {
			continue // a spread of the lattice; the full lattice goes through Negotiate in the C13 check
		}
		b, _ := (&messages.ClientPollResponse{Answer: h}).EncodePollResponse()
		rdvs = append(rdvs, rdv{fmt.Sprintf("hostile-answer:%.40s", h), &scriptedRendezvous{reply: b}, false})
	}
	rdvs = append(rdvs, rdv{"valid-sdp-but-not-an-answer", &scriptedRendezvous{reply: mustEnc(`{"type":"answer","sdp":"v=0\r\no=- 1 2 IN IP4 127.0.0.1\r\ns=-\r\nt=0 0\r\n"}`)}, false})
	rdvs = append(rdvs, rdv{"valid-answer-data-channel-never-opens", answeringRendezvous{}, true})

	// the NAT-type probe the client starts in a goroutine of its own for the same ICE list (NewSnowflakeClient:
	// "go updateNATType(iceServers, broker)"): a panic there is a panic of the client process, with nobody to
	// recover it.  Called synchronously here, for the lists an -ice option or SOCKS argument can produce.
	for _, ice := range append(append([][]string{}, iceConfigs...), []string{" "}, []string{"", "stun:127.0.0.1:1"}, []string{"stun:127.0.0.1:1", ""}, []string{"stun:127.0.0.1:1", " ", "foo"}) {
		if !r.Mine() {
			continue
		}
		key := fmt.Sprintf("natprobe ice=%q", ice)
		r.Case(key, true)
		bc := &BrokerChannel{Rendezvous: &scriptedRendezvous{err: errors.New("unused")}, natType: "unknown"}
		finished := make(chan struct{})
		var p bool
		var val, stack string
		go func() {
			defer close(finished)
			p, val, stack = en.Try(func() { updateNATType(parseIceServers(ice), bc) })
		}()
		select {
		case <-finished:
			if p {
				r.Fail("natprobe:panic@"+en.PanicSite(stack), "the NAT-type probe started by NewSnowflakeClient panicked (it runs in its own goroutine: this kills the client process): "+val+" "+stack, key)
			}
		case <-time.After(90 * time.Second):
			r.Incomplete("NAT probe still running after 90 s for " + key + " (not judged)")
		}
	}

	withEvent := 0
	for ci, ice := range iceConfigs {
		for _, rv := range rdvs {
			if !r.Mine() {
				continue
			}
			if rv.slow && ci > 0 && !r.Thorough() {
				continue // takes DataChannelTimeout (10 s) of real time: once in quick, with every config in thorough
			}
			config := &webrtc.Configuration{ICEServers: parseIceServers(ice)}
			sink := &eventSink{}
			bc := &BrokerChannel{Rendezvous: rv.m, natType: "unknown"}
			key := fmt.Sprintf("ice=%q rendezvous=%s", ice, rv.name)
			r.Case(key, true)
			var peer *WebRTCPeer
			var err error
			t0 := time.Now()
			p, val, stack := en.Try(func() { peer, err = NewWebRTCPeerWithEvents(config, bc, sink) })
			if p {
				r.Fail("constructor:panic@"+en.PanicSite(stack), "NewWebRTCPeerWithEvents panicked (this kills the client process): "+val+" "+stack, key)
				continue
			}
			if peer != nil && err == nil {
				// nothing here can succeed: every rendezvous outcome is a failure
				r.Fail("constructor:failure-not-reported", "a peer was returned although the attempt cannot have succeeded", key)
				peer.Close()
				continue
			}
			if err == nil {
				r.Fail("constructor:neither-peer-nor-error", "returned nil, nil", key)
				continue
			}
			// "reported" means returned as an error (connectLoop logs it and retries) or dispatched as an
			// event; the error is enough, events are only counted
			if sink.hasError() {
				withEvent++
			}
			if rv.slow {
				r.Sample(map[string]interface{}{"case": key, "error": err.Error(), "real_seconds": time.Since(t0).Seconds()})
			}
		}
	}
	r.Sample(map[string]interface{}{"ice": []string{""}, "rendezvous": "transport-error", "failures_also_reported_as_event_in_this_shard": withEvent})
}

// errTongue never catches anything.
type errTongue struct{ max int }

func (t errTongue) Catch() (*WebRTCPeer, error) { return nil, errors.New("no proxies") }
func (t errTongue) GetMax() int                 { return t.max }

// TestVerifEnumC15Close: SnowflakeConn.Close on a real session (real KCP + smux over the real
// RedialPacketConn, whose dial is blocked in Pop because no proxy is ever caught), once, twice and
// concurrently: returns, never panics.
func TestVerifEnumC15Close(t *testing.T) {
	log.SetOutput(io.Discard)
	r := en.New()
	defer r.Done()
	r.Begin("conn-close", "SnowflakeConn.Close x {once, twice, three times, twice concurrently} x state of the session when Close is called {healthy, smux session already dead, stream already closed, packet conn already closed, collection already ended, an application Write of 200 kB blocked because nothing can be sent} on a real session with no proxy available: returns within a 60 s watchdog (re-run alone before it counts), no panic; afterwards the collection is stopped (Melted), no peer is held, the smux session and the packet conn are closed")
	pres := []string{"healthy", "session-dead", "stream-closed", "pconn-closed", "collection-ended", "upload-stalled"}
	for _, pre := range pres {
		for _, mode := range []string{"once", "twice", "thrice", "concurrent"} {
			if !r.Mine() {
				continue
			}
			mode := mode + "/" + pre
			r.Case("close|"+mode, true)
			attempt := func() (string, string) {
				peers, err := NewPeers(errTongue{1})
				if err != nil {
					return "setup", err.Error()
				}
				go connectLoop(peers)
				pconn, sess, err := newSession(peers)
				if err != nil {
					return "setup", err.Error()
				}
				stream, err := sess.OpenStream()
				if err != nil {
					return "setup", err.Error()
				}
				conn := &SnowflakeConn{Stream: stream, sess: sess, pconn: pconn, snowflakes: peers}
				switch pre {
				case "session-dead":
					sess.Close() // what the keep-alive timeout does after ten minutes without a proxy
				case "stream-closed":
					stream.Close()
				case "pconn-closed":
					pconn.Close()
				case "collection-ended":
					peers.End()
				case "upload-stalled":
					// the application has written more than the session can send without a proxy (KCP's
					// initial remote window is 32 packets): its Write is blocked when Close is called
					go stream.Write(make([]byte, 200000))
					time.Sleep(500 * time.Millisecond)
				}
				done := make(chan string, 4)
				closer := func() {
					p, val, stack := en.Try(func() { conn.Close() })
					if p {
						done <- "panic@" + en.PanicSite(stack) + "|" + val + " " + stack
					} else {
						done <- ""
					}
				}
				n := map[string]int{"once": 1, "twice": 2, "thrice": 3, "concurrent": 2}[strings.Split(mode, "/")[0]]
				concurrent := strings.HasPrefix(mode, "concurrent")
				for i := 0; i < n; i++ {
					if concurrent {
						go closer()
					} else {
						go closer()
						select {
						case res := <-done:
							if res != "" {
								return "panic", res
							}
						case <-time.After(60 * time.Second):
							return "hang", fmt.Sprintf("Close call %d did not return within 60 s", i+1)
						}
					}
				}
				if concurrent {
					for i := 0; i < n; i++ {
						select {
						case res := <-done:
							if res != "" {
								return "panic", res
							}
						case <-time.After(60 * time.Second):
							return "hang", "a concurrent Close call did not return within 60 s"
						}
					}
				}
				// what Close promises, read off the state once every call has returned
				select {
				case <-peers.Melted():
				default:
					return "post", "collection-not-stopped|Close returned but the snowflake collection has not been ended (Melted is open): connectLoop keeps going to the broker"
				}
				if c := peers.Count(); c != 0 {
					return "post", fmt.Sprintf("peers-held|Close returned but %d peer(s) are still held", c)
				}
				if !sess.IsClosed() {
					return "post", "session-open|Close returned but the smux session is still open"
				}
				if _, err := pconn.WriteTo([]byte{0}, dummyAddr{}); err == nil {
					return "post", "pconn-open|Close returned but the packet conn still accepts packets (its dial loop is still running)"
				}
				return "", ""
			}
			kind, msg := attempt()
			if kind == "hang" {
				// never believe a single wall-clock observation
				for i := 0; i < 2 && kind == "hang"; i++ {
					kind, msg = attempt()
				}
			}
			switch kind {
			case "panic":
				site := msg
				if i := len("panic@"); len(msg) > i {
					site = msg[:indexOr(msg, '|')]
				}
				r.Fail("conn-close:"+site, "SnowflakeConn.Close ("+mode+") panicked: "+msg, mode)
			case "hang":
				r.Fail("conn-close:hang", msg, mode)
			case "post":
				r.Fail("conn-close:"+msg[:indexOr(msg, '|')], msg[indexOr(msg, '|')+1:], mode)
			case "setup":
				r.Incomplete("could not build a session: " + msg)
			}
		}
	}
}

func indexOr(s string, c byte) int {
	for i := 0; i < len(s); i++ {
		if s[i] == c {
			return i
		}
	}
	return len(s)
}

func mustEnc(answer string) []byte {
	b, err := (&messages.ClientPollResponse{Answer: answer}).EncodePollResponse()
	if err != nil {
		panic(err)
	}
	return b
}

// TestVerifEnumC15Silent: the broker channel the client really builds (newBrokerChannelFromConfig with
// its own transport) against a broker that accepts the request and never answers: the rendezvous
// attempt must end with an error in bounded time (the collection of snowflakes waits for it while
// holding its lock, so an attempt that never ends stops all later attempts).  Real time: a 60 s
// watchdog, re-run three times before it counts.
func TestVerifEnumC15Silent(t *testing.T) {
	log.SetOutput(io.Discard)
	r := en.New()
	defer r.Done()
	r.Begin("silent-broker", "newBrokerChannelFromConfig x {HTTP rendezvous, AMP cache rendezvous} x {no front, a front} against a loopback server that reads the request and never answers: Negotiate returns an error within 60 s (the documented timeout is 15 s)")
	ln, err := net.Listen("tcp", "127.0.0.1:0")
	if err != nil {
		r.Incomplete("cannot listen on loopback: " + err.Error())
		return
	}
	defer ln.Close()
	go func() {
		for {
			c, err := ln.Accept()
			if err != nil {
				return
			}
			go func() {
				buf := make([]byte, 4096)
				for {
					if _, err := c.Read(buf); err != nil {
						return
					}
				}
			}()
		}
	}()
	base := "http://" + ln.Addr().String() + "/"
	offer := &webrtc.SessionDescription{Type: webrtc.SDPTypeOffer, SDP: "v=0\r\n"}
	for _, cfg := range []ClientConfig{
		{BrokerURL: base},
		{BrokerURL: base, AmpCacheURL: base + "cache/"},
		{BrokerURL: "http://broker.invalid/", FrontDomain: ln.Addr().String()},
	} {
		if !r.Mine() {
			continue
		}
		name := fmt.Sprintf("amp=%v front=%v", cfg.AmpCacheURL != "", cfg.FrontDomain != "")
		r.Case("silent|"+name, true)
		attempt := func() (string, string) {
			bc, err := newBrokerChannelFromConfig(cfg)
			if err != nil {
				return "setup", err.Error()
			}
			done := make(chan error, 1)
			go func() {
				_, err := bc.Negotiate(offer)
				done <- err
			}()
			select {
			case err := <-done:
				if err == nil {
					return "noerr", "Negotiate returned no error although the broker never answered"
				}
				return "", ""
			case <-time.After(60 * time.Second):
				return "hang", "Negotiate had not returned 60 s after the broker went silent"
			}
		}
		kind, msg := attempt()
		for i := 0; i < 2 && kind == "hang"; i++ {
			kind, msg = attempt()
		}
		switch kind {
		case "hang":
			r.Fail("rendezvous:never-gives-up-on-a-silent-broker", msg, name)
		case "noerr":
			r.Fail("rendezvous:silent-broker-not-reported", msg, name)
		case "setup":
			r.Incomplete("could not build the broker channel: " + msg)
		}
	}
}
