//go:build go1.21

package snowflake_client

// C13 / C08 through the client's real caller: BrokerChannel.Negotiate with a scripted rendezvous.

import (
	"encoding/json"
	"fmt"
	"io"
	"log"
	"net/netip"
	"strings"
	"testing"

	"git.torproject.org/pluggable-transports/snowflake.git/v2/common/messages"
	"git.torproject.org/pluggable-transports/snowflake.git/v2/common/util"
	en "git.torproject.org/pluggable-transports/snowflake.git/v2/verifenum"
	"github.com/pion/webrtc/v3"
)

type scriptedRendezvous struct {
	reply []byte
	err   error
	got   []byte
}

func (s *scriptedRendezvous) Exchange(req []byte) ([]byte, error) {
	s.got = append([]byte(nil), req...)
	return s.reply, s.err
}

func TestVerifEnumC13Client(t *testing.T) {
	log.SetOutput(io.Discard)
	r := en.New()
	defer r.Done()
	r.Begin("negotiate", "BrokerChannel.Negotiate with a scripted rendezvous answering with every hostile description (as the answer member of a well-formed poll response) and with hostile poll responses themselves")
	offer := &webrtc.SessionDescription{Type: webrtc.SDPTypeOffer, SDP: "v=0\r\no=- 1 2 IN IP4 127.0.0.1\r\ns=-\r\nt=0 0\r\n"}
	var replies [][]byte
	for _, h := range en.HostileSessionDescriptions() {
		b, _ := (&messages.ClientPollResponse{Answer: h}).EncodePollResponse()
		replies = append(replies, b)
	}
	for _, raw := range []string{``, `null`, `{}`, `[]`, `{"answer":1}`, `{"answer":null}`, `{"answer":{"type":"answer"}}`, `{"error":1}`, `{"answer":"","error":""}`, `{"error":"no snowflake proxies currently available"}`, `garbage`} {
		replies = append(replies, []byte(raw))
	}
	for i, rep := range replies {
		if !r.Mine() {
			continue
		}
		rep := rep
		r.Case(fmt.Sprintf("neg|%d|%.60s", i, rep), len(rep) > 0)
		bc := &BrokerChannel{Rendezvous: &scriptedRendezvous{reply: rep}, natType: "unknown"}
		var d *webrtc.SessionDescription
		var err error
		p, val, stack := en.Try(func() { d, err = bc.Negotiate(offer) })
		if p {
			r.Fail("negotiate:panic@"+en.PanicSite(stack), "Negotiate panicked on a crafted broker/proxy reply: "+val+" "+stack, shortS(string(rep)))
			continue
		}
		if (d == nil) == (err == nil) {
			r.Fail("negotiate:neither-value-nor-error", fmt.Sprintf("desc=%v err=%v", d, err), shortS(string(rep)))
		}
	}
	r.Sample(string(replies[3]))
}

func shortS(s string) string {
	if len(s) > 300 {
		return s[:300] + fmt.Sprintf("...(%d bytes)", len(s))
	}
	return s
}

// --- C08 call site ------------------------------------------------------------------------------

var c08Addrs = []string{"10.0.0.1", "172.16.0.1", "192.168.1.1", "100.64.0.1", "169.254.1.1", "fd00::1", "127.0.0.1", "::1", "0.0.0.0", "::", "::ffff:10.0.0.1", "8.8.8.8", "2001:db8::1", "abc.local", "172.32.0.1", "100.128.0.1"}

func refLocalC(addr string) bool {
	a, err := netip.ParseAddr(addr)
	if err != nil {
		return false
	}
	a = a.Unmap()
	for _, s := range []string{"10.0.0.0/8", "172.16.0.0/12", "192.168.0.0/16", "100.64.0.0/10", "169.254.0.0/16", "fc00::/7", "127.0.0.0/8", "::1/128", "0.0.0.0/32", "::/128"} {
		if netip.MustParsePrefix(s).Contains(a) {
			return true
		}
	}
	return false
}

func TestVerifEnumC08Client(t *testing.T) {
	log.SetOutput(io.Discard)
	r := en.New()
	defer r.Done()
	r.Begin("negotiate-strip", "offers with every pair of 16 addresses as host candidates sent through the real Negotiate with keepLocalAddresses false/true; the request captured at the rendezvous must (not) contain the local ones")
	for _, a := range c08Addrs {
		for _, b := range c08Addrs {
			if !r.Mine() {
				continue
			}
			for _, keep := range []bool{false, true} {
				sdpText := "v=0\r\no=- 1 2 IN IP4 127.0.0.1\r\ns=-\r\nt=0 0\r\nm=application 9 UDP/DTLS/SCTP webrtc-datachannel\r\nc=IN IP4 0.0.0.0\r\n" +
					fmt.Sprintf("a=candidate:1 1 udp 2130706431 %s 5000 typ host\r\na=mid:0\r\na=candidate:2 1 udp 2130706430 %s 5001 typ host\r\n", a, b)
				ans, _ := (&messages.ClientPollResponse{Answer: `{"type":"answer","sdp":"x"}`}).EncodePollResponse()
				sr := &scriptedRendezvous{reply: ans}
				bc := &BrokerChannel{Rendezvous: sr, natType: "unknown", keepLocalAddresses: keep}
				r.Case(fmt.Sprintf("strip|%s|%s|%v", a, b, keep), true)
				p, val, stack := en.Try(func() { bc.Negotiate(&webrtc.SessionDescription{Type: webrtc.SDPTypeOffer, SDP: sdpText}) })
				if p {
					r.Fail("negotiate-strip:panic@"+en.PanicSite(stack), val+" "+stack, sdpText)
					continue
				}
				req, err := messages.DecodeClientPollRequest(sr.got)
				if err != nil {
					r.Fail("negotiate-strip:undecodable-request", err.Error(), sdpText)
					continue
				}
				var off struct{ Type, SDP string }
				if err := json.Unmarshal([]byte(req.Offer), &off); err != nil {
					r.Fail("negotiate-strip:undecodable-offer", err.Error(), sdpText)
					continue
				}
				for _, x := range []string{a, b} {
					present := strings.Contains(off.SDP, " "+x+" 500")
					if keep && !present {
						r.Fail("negotiate-strip:dropped-although-kept", fmt.Sprintf("candidate %s missing with keepLocalAddresses", x), sdpText)
					}
					if !keep && present && refLocalC(x) {
						r.Fail("negotiate-strip:local-leaked", fmt.Sprintf("local host candidate %s reached the broker", x), sdpText)
					}
					if !keep && !present && !refLocalC(x) {
						r.Fail("negotiate-strip:non-local-lost", fmt.Sprintf("non-local candidate %s was removed", x), sdpText)
					}
				}
				_ = util.IsLocal
			}
		}
	}
}
