//go:build go1.21

package snowflake_client

import (
	"git.torproject.org/pluggable-transports/snowflake.git/v2/common/util"
	"github.com/pion/webrtc/v3"
)

func deserializeForTest(s string) (*webrtc.SessionDescription, error) {
	return util.DeserializeSessionDescription(s)
}

func serializeForTest(d *webrtc.SessionDescription) (string, error) {
	return util.SerializeSessionDescription(d)
}
