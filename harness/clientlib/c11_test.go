//go:build go1.21

package snowflake_client

// C11 — rendezvous requests are faithfully encoded, fronted and bounded (DESIGN.md §3 C11).
// This file covers the client clauses: "With a front domain configured the client connects to the
// front and names the broker only in the HTTP Host header; a non-200 status or a body beyond the
// 100 KB limit is reported as an error, never as truncated data."
//
// Requests are observed twice: at the http.RoundTripper handed to newHTTPRendezvous /
// newAMPCacheRendezvous, and on the wire of a real net/http.Transport whose dialer is an in-memory
// pipe (what a front listener would receive; no network).

import (
	"bufio"
	"bytes"
	"context"
	"crypto/rand"
	"encoding/base64"
	"errors"
	"fmt"
	"io"
	"log"
	"net"
	"net/http"
	"net/url"
	"strings"
	"testing"
	"time"

	"git.torproject.org/pluggable-transports/snowflake.git/v2/common/amp"
	en "git.torproject.org/pluggable-transports/snowflake.git/v2/verifenum"
	"golang.org/x/net/idna"
)

const c11Limit = 100000 // "the 100 KB limit" of the statement

// ---- recording round tripper -------------------------------------------------------------------

type c11Req struct {
	Method     string
	Scheme     string
	URLHost    string
	HostHeader string
	EscPath    string
	RawQuery   string
	URLString  string
	Header     http.Header
	Body       []byte
}

func (q c11Req) describe() map[string]interface{} {
	return map[string]interface{}{"method": q.Method, "url": q.URLString, "url_host": q.URLHost, "host_header": q.HostHeader, "headers": q.Header, "body_len": len(q.Body)}
}

type c11Transport struct {
	reqs       []c11Req
	status     int
	header     http.Header
	body       func() io.Reader
	setRequest bool
	err        error
	// next, if set, answers every request after the first one
	next *c11Transport
}

func (t *c11Transport) RoundTrip(req *http.Request) (*http.Response, error) {
	q := c11Req{Method: req.Method, Scheme: req.URL.Scheme, URLHost: req.URL.Host, HostHeader: req.Host, EscPath: req.URL.EscapedPath(), RawQuery: req.URL.RawQuery, URLString: req.URL.String(), Header: req.Header.Clone()}
	if req.Body != nil {
		q.Body, _ = io.ReadAll(req.Body)
		req.Body.Close()
	}
	t.reqs = append(t.reqs, q)
	if len(t.reqs) > 1 && t.next != nil {
		t = t.next
	}
	if t.err != nil {
		return nil, t.err
	}
	h := t.header
	if h == nil {
		h = http.Header{}
	}
	resp := &http.Response{Status: fmt.Sprintf("%d %s", t.status, http.StatusText(t.status)), StatusCode: t.status, Proto: "HTTP/1.1", ProtoMajor: 1, ProtoMinor: 1, Header: h, Body: io.NopCloser(t.body()), ContentLength: -1}
	if t.setRequest {
		resp.Request = req
	}
	return resp, nil
}

// ---- body readers ------------------------------------------------------------------------------

const (
	rdPlain = iota
	rdEOFAttached
	rdChunks
	rdErrAtEnd
	rdErrMidway
	nRdModes
)

var c11RdNames = []string{"plain", "eof-attached", "1021-byte-reads", "error-instead-of-eof", "error-midway"}

var errC11Reset = errors.New("verif: connection reset")

type c11Body struct {
	data []byte
	pos  int
	mode int
}

func (b *c11Body) Read(p []byte) (int, error) {
	end := len(b.data)
	if b.mode == rdErrMidway {
		end = len(b.data) / 2
	}
	if b.pos >= end {
		if b.mode == rdErrAtEnd || b.mode == rdErrMidway {
			return 0, errC11Reset
		}
		return 0, io.EOF
	}
	if len(p) == 0 {
		return 0, nil
	}
	n := len(p)
	if b.mode == rdChunks && n > 1021 {
		n = 1021
	}
	if n > end-b.pos {
		n = end - b.pos
	}
	copy(p, b.data[b.pos:b.pos+n])
	b.pos += n
	if b.pos == end && b.mode == rdEOFAttached {
		return n, io.EOF
	}
	return n, nil
}

func c11Fill(n int) []byte {
	b := make([]byte, n)
	for i := range b {
		b[i] = byte(i*7 + i>>8)
	}
	return b
}

// ---- AMP armor written by hand from doc.go -----------------------------------------------------

func c11HandArmor(payload []byte) []byte {
	b64 := "0" + base64.StdEncoding.EncodeToString(payload)
	var sb bytes.Buffer
	sb.WriteString("<!doctype html>\n<html amp>\n<head>\n<meta charset=\"utf-8\">\n</head>\n<body>\n")
	for len(b64) > 0 {
		sb.WriteString("<pre>\n")
		for i := 0; i < 400 && len(b64) > 0; i++ {
			n := 60
			if n > len(b64) {
				n = len(b64)
			}
			sb.WriteString(b64[:n])
			sb.WriteString("\n")
			b64 = b64[n:]
		}
		sb.WriteString("</pre>\n")
	}
	sb.WriteString("</body>\n</html>\n")
	return sb.Bytes()
}

func c11RealArmor(payload []byte) []byte {
	var sb bytes.Buffer
	enc, err := amp.NewArmorEncoder(&sb)
	if err != nil {
		panic(err)
	}
	enc.Write(payload)
	enc.Close()
	return sb.Bytes()
}

// ---- reference decoder of the path format (doc.go of common/amp) --------------------------------

func c11RefDecodePath(p string) ([]byte, bool) {
	if p == "" || p[0] != '0' {
		return nil, false
	}
	i := strings.LastIndex(p, "/")
	if i < 1 {
		return nil, false
	}
	d, err := base64.RawURLEncoding.DecodeString(p[i+1:])
	return d, err == nil
}

// ---- pinned crypto/rand --------------------------------------------------------------------------

type c11Counter struct{ i int }

func (c *c11Counter) Read(b []byte) (int, error) {
	for j := range b {
		b[j] = byte(c.i*37 + 11)
		c.i++
	}
	return len(b), nil
}

// ---- configurations ------------------------------------------------------------------------------

type c11Broker struct {
	url       string
	scheme    string
	authority string // what names the broker: URL.Host without a front, Host header with one
	hostname  string
	basePath  string // directory the request path is resolved in; "" = not asserted (see report)
	queryOpen bool   // the broker URL has a query: what happens to it is left open
	prefix    string // AMP domain prefix of hostname
	cacheable bool   // CacheURL accepts it (default port only)
}

type c11CacheCfg struct {
	url      string
	scheme   string
	hostport string
	path     string
}

func c11Brokers() []c11Broker {
	idn, err := idna.Punycode.ToASCII("bücher-example")
	if err != nil {
		panic(err)
	}
	return []c11Broker{
		{"https://broker.example/", "https", "broker.example", "broker.example", "/", false, "broker-example", true},
		{"http://broker.example/", "http", "broker.example", "broker.example", "/", false, "broker-example", true},
		{"https://broker.example", "https", "broker.example", "broker.example", "/", false, "broker-example", true},
		{"https://snowflake-broker.torproject.net/", "https", "snowflake-broker.torproject.net", "snowflake-broker.torproject.net", "/", false, "snowflake--broker-torproject-net", true},
		{"https://broker.example/prefix/", "https", "broker.example", "broker.example", "/prefix/", false, "broker-example", true},
		{"https://broker.example:443/", "https", "broker.example:443", "broker.example", "/", false, "broker-example", true},
		{"https://broker.example:8443/", "https", "broker.example:8443", "broker.example", "/", false, "broker-example", false},
		{"https://xn--bcher-kva.example/", "https", "xn--bcher-kva.example", "xn--bcher-kva.example", "/", false, idn, true},
		{"https://[2001:db8::1]:8443/", "https", "[2001:db8::1]:8443", "2001:db8::1", "/", false, "", false},
		{"https://broker.example/prefix", "https", "broker.example", "broker.example", "", false, "broker-example", true},
		{"https://broker.example/?k=v", "https", "broker.example", "broker.example", "/", true, "broker-example", true},
	}
}

var c11Fronts = []string{"", "front.example", "front.example:8443", "cdn.sstatic.net"}

var c11CacheCfgs = []c11CacheCfg{
	{"", "", "", ""},
	{"https://cdn.ampproject.org/", "https", "cdn.ampproject.org", "/"},
	{"https://cdn.ampproject.org/prefix/", "https", "cdn.ampproject.org", "/prefix/"},
	{"https://amp.cache.example:8443/", "https", "amp.cache.example:8443", "/"},
	{"http://cdn.ampproject.org", "http", "cdn.ampproject.org", ""},
}

func c11PollSet() [][]byte {
	long := []byte("1.0\n{\"offer\":\"{\\\"type\\\":\\\"offer\\\",\\\"sdp\\\":\\\"v=0\\\\r\\\\n" + strings.Repeat("a=candidate:1 1 udp 2130706431 192.0.2.7 5000 typ host\\\\r\\\\n", 48) + "\\\"}\",\"nat\":\"unknown\",\"fingerprint\":\"2B280B23E1107BB62ABFC40DDCC8824814F80A72\"}")
	return [][]byte{
		[]byte("1.0\n{\"offer\":\"fake\",\"nat\":\"unknown\",\"fingerprint\":\"2B280B23E1107BB62ABFC40DDCC8824814F80A72\"}"),
		{},
		{0xfb, 0xff, 0xfe, 0x3e, 0x3f, 0x2f, 0x00},
		long,
	}
}

func c11DefaultPort(scheme, hostport string) string {
	if _, _, err := net.SplitHostPort(hostport); err == nil {
		return hostport
	}
	if scheme == "https" {
		return hostport + ":443"
	}
	return hostport + ":80"
}

// expectation of one request
type c11Want struct {
	method     string
	scheme     string
	authority  string // host naming the origin (broker or cache subdomain)
	pathPrefix string // exact escaped path for POST; prefix before the encoded poll for AMP ("" = not asserted)
	amp        bool
	viaCache   bool
	poll       []byte
	queryOpen  bool
	brokerName string
}

func c11WantFor(b c11Broker, c c11CacheCfg, ampMode bool, poll []byte) c11Want {
	w := c11Want{method: "POST", scheme: b.scheme, authority: b.authority, amp: ampMode, poll: poll, queryOpen: b.queryOpen, brokerName: b.hostname}
	if !ampMode {
		if b.basePath != "" {
			w.pathPrefix = b.basePath + "client"
		}
		return w
	}
	w.method = "GET"
	if b.basePath != "" {
		w.pathPrefix = b.basePath + "amp/client/"
	}
	if c.url != "" {
		w.viaCache = true
		w.scheme = c.scheme
		w.authority = b.prefix + "." + c.hostport
		if b.basePath != "" {
			s := ""
			if b.scheme == "https" {
				s = "/s"
			}
			w.pathPrefix = strings.TrimRight(c.path, "/") + "/c" + s + "/" + b.hostname + b.basePath + "amp/client/"
		}
	}
	return w
}

// c11JudgeRequest compares one observed request (method, scheme, the host connected to, the Host
// header, path, query, body, other header lines) with the expectation.
func c11JudgeRequest(r *en.R, where string, w c11Want, front string, method, scheme, connectHost, hostHeader, escPath, rawQuery string, body []byte, otherHeaderText string, input map[string]interface{}) {
	fail := func(sig, msg string) { r.Fail(where+":"+sig, msg, input) }
	if method != w.method {
		fail("wrong-method", fmt.Sprintf("method %q, want %q", method, w.method))
	}
	if scheme != "" && scheme != w.scheme {
		fail("wrong-scheme", fmt.Sprintf("scheme %q, want %q", scheme, w.scheme))
	}
	if front != "" {
		if connectHost != front {
			fail("not-connecting-to-front", fmt.Sprintf("the request goes to %q, the configured front is %q", connectHost, front))
		}
		if hostHeader != w.authority {
			fail("host-header-does-not-name-origin", fmt.Sprintf("Host header %q, want %q", hostHeader, w.authority))
		}
		if !w.viaCache && (strings.Contains(escPath, w.brokerName) || strings.Contains(rawQuery, w.brokerName) || strings.Contains(connectHost, w.brokerName)) {
			fail("broker-named-outside-host-header", fmt.Sprintf("the broker name %q appears in the request target %q %q?%q", w.brokerName, connectHost, escPath, rawQuery))
		}
		if strings.Contains(otherHeaderText, w.brokerName) {
			fail("broker-named-outside-host-header", fmt.Sprintf("the broker name %q appears in header lines other than Host: %q", w.brokerName, otherHeaderText))
		}
	} else {
		if connectHost != w.authority {
			fail("wrong-host", fmt.Sprintf("no front configured: the request goes to %q, want %q", connectHost, w.authority))
		}
		if hostHeader != "" && hostHeader != w.authority {
			fail("wrong-host-header", fmt.Sprintf("no front configured: Host header %q, want %q", hostHeader, w.authority))
		}
	}
	if !w.amp {
		if w.pathPrefix != "" && escPath != w.pathPrefix {
			fail("wrong-path", fmt.Sprintf("path %q, want %q", escPath, w.pathPrefix))
		}
		if !bytes.Equal(body, w.poll) {
			fail("poll-not-sent-faithfully", fmt.Sprintf("request body has %d bytes, the poll has %d (or the bytes differ)", len(body), len(w.poll)))
		}
	} else {
		if len(body) != 0 {
			fail("get-with-body", fmt.Sprintf("GET request carries %d body bytes", len(body)))
		}
		if w.pathPrefix != "" {
			if !strings.HasPrefix(escPath, w.pathPrefix) {
				fail("wrong-path", fmt.Sprintf("path %q does not start with %q", escPath, w.pathPrefix))
			} else {
				rest, err := url.PathUnescape(escPath[len(w.pathPrefix):])
				got, ok := c11RefDecodePath(rest)
				if w.viaCache && len(w.poll) == 0 {
					// Not judged: the encoding of zero bytes ends in a slash and CacheURL drops trailing
					// slashes (path.Join); whether "keeps its path" covers that is left open (see the
					// driver's assumptions).  No real poll message is empty.
				} else if err != nil || !ok || !bytes.Equal(got, w.poll) {
					fail("poll-not-encoded-faithfully", fmt.Sprintf("path suffix %q decodes to %x (ok=%v), the poll is %x", rest, got, ok, w.poll))
				}
			}
		}
	}
	if !w.queryOpen && rawQuery != "" {
		fail("unexpected-query", fmt.Sprintf("query %q on a broker URL without query", rawQuery))
	}
}

func c11OtherHeaders(h http.Header) string {
	var sb strings.Builder
	for k, vs := range h {
		if strings.EqualFold(k, "Host") {
			continue
		}
		for _, v := range vs {
			sb.WriteString(k + ": " + v + "\n")
		}
	}
	return sb.String()
}

// ---- wire level ------------------------------------------------------------------------------------

type c11Dial struct {
	Network, Addr string
	TLS           bool
}

type c11Wire struct {
	dials    []c11Dial
	raw      bytes.Buffer
	req      *http.Request
	body     []byte
	err      error
	respBody []byte
	done     chan struct{}
}

func (w *c11Wire) serve(s net.Conn) {
	defer close(w.done)
	defer s.Close()
	br := bufio.NewReader(io.TeeReader(s, &w.raw))
	req, err := http.ReadRequest(br)
	if err != nil {
		w.err = err
		return
	}
	w.body, _ = io.ReadAll(req.Body)
	w.req = req
	fmt.Fprintf(s, "HTTP/1.1 200 OK\r\nContent-Type: text/html\r\nContent-Length: %d\r\nConnection: close\r\n\r\n", len(w.respBody))
	s.Write(w.respBody)
}

func (w *c11Wire) transport() *http.Transport {
	dial := func(tls bool) func(ctx context.Context, network, addr string) (net.Conn, error) {
		return func(ctx context.Context, network, addr string) (net.Conn, error) {
			w.dials = append(w.dials, c11Dial{network, addr, tls})
			if len(w.dials) > 1 {
				return nil, errors.New("verif: second connection")
			}
			c, s := net.Pipe()
			go w.serve(s)
			return c, nil
		}
	}
	return &http.Transport{DialContext: dial(false), DialTLSContext: dial(true), DisableKeepAlives: true, DisableCompression: true}
}

type c11Exchanger interface {
	Exchange([]byte) ([]byte, error)
}

func c11New(ampMode bool, broker, cache, front string, rt http.RoundTripper) (c11Exchanger, error) {
	if ampMode {
		return newAMPCacheRendezvous(broker, cache, front, rt)
	}
	return newHTTPRendezvous(broker, front, rt)
}

func TestVerifEnumC11Client(t *testing.T) {
	log.SetOutput(io.Discard)
	r := en.New()
	defer r.Done()
	savedRand := rand.Reader
	defer func() { rand.Reader = savedRand }()

	brokers := c11Brokers()
	polls := c11PollSet()
	okBody := []byte("1.0\n{\"answer\":\"fake\"}")

	// ---- 1. fronting, request shape (both rendezvous methods) ------------------------------------
	r.Begin("fronting", fmt.Sprintf("%d broker URLs (http/https, no path, path prefix, default and other port, IDN A-label, IPv6 literal, no trailing slash, query) x front %q x {HTTP POST, AMP without cache, AMP through %d cache URLs (plain, path prefix, port, http without path)} x %d polls (real, empty, bytes mapping to '-' '_' '/', 3 KB); observed at the RoundTripper and on the wire of a net/http.Transport dialling an in-memory pipe: connection target = front, Host = broker (cache subdomain for AMP caches), broker named nowhere else, method, path, query and poll intact, equal to the unfronted request; two further exchanges on the same rendezvous object are addressed exactly like the first", len(brokers), c11Fronts, len(c11CacheCfgs)-1, len(polls)))
	type unfronted struct {
		path, query string
		ok          bool
	}
	for bi, b := range brokers {
		for mode := 0; mode < 2; mode++ {
			ampMode := mode == 1
			caches := c11CacheCfgs[:1]
			if ampMode {
				caches = c11CacheCfgs
			}
			for _, c := range caches {
				for pi, poll := range polls {
					if !r.Mine() {
						continue
					}
					if r.TimeUp() {
						break
					}
					want := c11WantFor(b, c, ampMode, poll)
					var base unfronted
					for _, front := range c11Fronts {
						input := map[string]interface{}{"broker": b.url, "cache": c.url, "front": front, "amp": ampMode, "poll_hex_prefix": fmt.Sprintf("%.40x", poll), "poll_len": len(poll)}
						key := fmt.Sprintf("fr|%s|%s|%s|%v|%d", b.url, c.url, front, ampMode, pi)
						expectCacheError := c.url != "" && !b.cacheable

						// (i) recording round tripper
						rt := &c11Transport{status: 200, body: func() io.Reader {
							if ampMode {
								return bytes.NewReader(c11RealArmor(okBody))
							}
							return bytes.NewReader(okBody)
						}}
						var data []byte
						var err error
						var x c11Exchanger
						rand.Reader = &c11Counter{}
						p, val, stack := en.Try(func() {
							x, err = c11New(ampMode, b.url, c.url, front, rt)
							if err == nil {
								data, err = x.Exchange(poll)
							}
						})
						r.Case(key+"|rt", true)
						if p {
							r.Fail("fronting:panic@"+en.PanicSite(stack), "Exchange panicked: "+val+" "+stack, input)
							continue
						}
						if expectCacheError {
							// documented: CacheURL refuses a non-default port.  Accept an error without a
							// request, or a request that still names the port.
							if err == nil && len(rt.reqs) == 1 && !strings.Contains(rt.reqs[0].EscPath, b.authority) {
								r.Fail("fronting:port-dropped", fmt.Sprintf("broker %q through cache %q: request %q lost the port", b.url, c.url, rt.reqs[0].URLString), input)
							}
							continue
						}
						if len(rt.reqs) != 1 {
							r.Fail("fronting:request-count", fmt.Sprintf("%d requests for one Exchange (err=%v)", len(rt.reqs), err), input)
							continue
						}
						q := rt.reqs[0]
						input["request"] = q.describe()
						c11JudgeRequest(r, "fronting", want, front, q.Method, q.Scheme, q.URLHost, q.HostHeader, q.EscPath, q.RawQuery, q.Body, c11OtherHeaders(q.Header), input)
						if err != nil || !bytes.Equal(data, okBody) {
							r.Fail("fronting:exchange-failed", fmt.Sprintf("200 with a small valid body gave %q, %v", data, err), input)
						}
						if front == "" {
							base = unfronted{q.EscPath, q.RawQuery, true}
						} else if base.ok && (q.EscPath != base.path || q.RawQuery != base.query) {
							r.Fail("fronting:front-changes-target", fmt.Sprintf("with the front the request target is %q?%q, without it %q?%q", q.EscPath, q.RawQuery, base.path, base.query), input)
						}

						// the same rendezvous object serves every later poll of the client: two more exchanges
						// (another poll, then the first again) must be addressed exactly like a first one
						for rep := 2; rep <= 3 && x != nil; rep++ {
							poll2 := polls[(pi+rep-1)%len(polls)]
							if rep == 3 {
								poll2 = poll
							}
							want2 := c11WantFor(b, c, ampMode, poll2)
							rt.reqs = nil
							rand.Reader = &c11Counter{}
							var d2 []byte
							var e2 error
							p2, v2, st2 := en.Try(func() { d2, e2 = x.Exchange(poll2) })
							in2 := map[string]interface{}{"broker": b.url, "cache": c.url, "front": front, "amp": ampMode, "exchange_number_on_the_same_object": rep, "poll_len": len(poll2)}
							if p2 {
								r.Fail("fronting:panic@"+en.PanicSite(st2), "repeated Exchange panicked: "+v2+" "+st2, in2)
								break
							}
							if len(rt.reqs) != 1 {
								r.Fail("fronting:request-count", fmt.Sprintf("exchange %d on the same object: %d requests (err=%v)", rep, len(rt.reqs), e2), in2)
								break
							}
							q2 := rt.reqs[0]
							in2["request"] = q2.describe()
							c11JudgeRequest(r, "fronting-repeated", want2, front, q2.Method, q2.Scheme, q2.URLHost, q2.HostHeader, q2.EscPath, q2.RawQuery, q2.Body, c11OtherHeaders(q2.Header), in2)
							if e2 != nil || !bytes.Equal(d2, okBody) {
								r.Fail("fronting:exchange-failed", fmt.Sprintf("exchange %d on the same object: 200 with a small valid body gave %q, %v", rep, d2, e2), in2)
							}
						}

						// (ii) on the wire
						wire := &c11Wire{done: make(chan struct{}), respBody: okBody}
						if ampMode {
							wire.respBody = c11RealArmor(okBody)
						}
						tr := wire.transport()
						rand.Reader = &c11Counter{}
						finished := make(chan struct{})
						var wdata []byte
						var werr error
						var wp bool
						var wval, wstack string
						go func() {
							defer close(finished)
							wp, wval, wstack = en.Try(func() {
								x, err := c11New(ampMode, b.url, c.url, front, tr)
								if err != nil {
									werr = err
									return
								}
								wdata, werr = x.Exchange(poll)
							})
						}()
						select {
						case <-finished:
						case <-time.After(120 * time.Second):
							r.Fail("engine:wire-exchange-stuck", "Exchange over the in-memory transport did not return in 120 s", input)
							r.Incomplete("wire exchange stuck")
							return
						}
						tr.CloseIdleConnections()
						r.Case(key+"|wire", true)
						if wp {
							r.Fail("fronting:panic@"+en.PanicSite(wstack), "Exchange panicked: "+wval+" "+wstack, input)
							continue
						}
						if len(wire.dials) != 1 {
							r.Fail("wire:connection-count", fmt.Sprintf("%d connections for one Exchange (err=%v): %v", len(wire.dials), werr, wire.dials), input)
							continue
						}
						select {
						case <-wire.done:
						case <-time.After(120 * time.Second):
							r.Fail("engine:wire-server-stuck", "the in-memory server did not finish in 120 s", input)
							r.Incomplete("wire server stuck")
							return
						}
						if wire.err != nil || wire.req == nil {
							r.Fail("wire:unreadable-request", fmt.Sprintf("the server could not read the request: %v; raw %q", wire.err, wire.raw.String()), input)
							continue
						}
						d := wire.dials[0]
						connectTo := front
						if front == "" {
							connectTo = want.authority
						}
						wantAddr := c11DefaultPort(want.scheme, connectTo)
						winput := map[string]interface{}{"config": input, "dialled": d, "request_head": strings.SplitN(wire.raw.String(), "\r\n\r\n", 2)[0]}
						if d.Addr != wantAddr || d.TLS != (want.scheme == "https") {
							sig := "wire:wrong-connection-target"
							if front != "" {
								sig = "wire:not-connecting-to-front"
							}
							r.Fail(sig, fmt.Sprintf("dialled %v (tls=%v), want %q (tls=%v)", d.Addr, d.TLS, wantAddr, want.scheme == "https"), winput)
						}
						// what is judged as "connect host" on the wire is the dial address; compare hosts via
						// the expectation above and feed the front itself to the common judge
						ch := connectTo
						head := strings.SplitN(wire.raw.String(), "\r\n\r\n", 2)[0]
						var others []string
						for i, line := range strings.Split(head, "\r\n") {
							if i == 0 || strings.HasPrefix(strings.ToLower(line), "host:") {
								continue
							}
							others = append(others, line)
						}
						wu, perr := url.ParseRequestURI(wire.req.RequestURI)
						if perr != nil {
							r.Fail("wire:bad-request-target", fmt.Sprintf("request target %q: %v", wire.req.RequestURI, perr), winput)
							continue
						}
						if wu.Host != "" {
							r.Fail("wire:absolute-request-target", fmt.Sprintf("request target %q names a host", wire.req.RequestURI), winput)
						}
						hostHeader := wire.req.Host
						c11JudgeRequest(r, "wire", want, front, wire.req.Method, "", ch, hostHeader, wu.EscapedPath(), wu.RawQuery, wire.body, strings.Join(others, "\n"), winput)
						if front != "" && hostHeader == "" {
							r.Fail("wire:host-header-does-not-name-origin", "empty Host header", winput)
						}
						if werr != nil || !bytes.Equal(wdata, okBody) {
							r.Fail("wire:exchange-failed", fmt.Sprintf("200 with a small valid body gave %q, %v", wdata, werr), winput)
						}
					}
				}
			}
		}
		if bi%3 == 0 {
			r.Sample(map[string]interface{}{"section": "fronting", "broker": b.url})
		}
	}
	rand.Reader = &c11Counter{}

	// ---- 2. status and size limits, HTTP POST -------------------------------------------------------
	statuses := []int{200, 201, 204, 301, 302, 400, 404, 500, 503}
	sizes := []int{0, 1, 99999, 100000, 100001, 150000}
	if r.Thorough() {
		sizes = nil
		for _, s := range []int{0, 1, 2, 4095, 4096, 4097, 65536} {
			sizes = append(sizes, s)
		}
		for s := c11Limit - 600; s <= c11Limit+600; s++ {
			sizes = append(sizes, s)
		}
		sizes = append(sizes, 150000, 200000, 200001, 1<<20)
	}
	r.Begin("limits-http", fmt.Sprintf("HTTP rendezvous: status %v x body size %v (quick) / every size in [limit-600, limit+600] and more (thorough) x body reader {plain, EOF attached to the last bytes, 1021-byte reads, error instead of EOF, error midway} x front {none, front.example}: data exactly the body and nil error iff status 200, size <= 100000 and the body was delivered; everything else a non-nil error", statuses, []int{0, 1, 99999, 100000, 100001, 150000}))
	big := c11Fill(1<<20 + 16)
	for _, size := range sizes {
		for _, status := range statuses {
			if !r.Mine() {
				continue
			}
			if r.TimeUp() {
				break
			}
			for mode := 0; mode < nRdModes; mode++ {
				for _, front := range []string{"", "front.example"} {
					body := big[:size]
					rt := &c11Transport{status: status, body: func() io.Reader { return &c11Body{data: body, mode: mode} }}
					var data []byte
					var err error
					input := map[string]interface{}{"method": "http", "status": status, "body_size": size, "reader": c11RdNames[mode], "front": front}
					p, val, stack := en.Try(func() {
						x, e := newHTTPRendezvous("https://broker.example/", front, rt)
						if e != nil {
							err = e
							return
						}
						data, err = x.Exchange(polls[0])
					})
					r.Case(fmt.Sprintf("lh|%d|%d|%d|%s", status, size, mode, front), true)
					if p {
						r.Fail("limits:panic@"+en.PanicSite(stack), "Exchange panicked: "+val+" "+stack, input)
						continue
					}
					delivered := mode != rdErrAtEnd && mode != rdErrMidway
					c11JudgeResult(r, "http", status, size, delivered, false, body, data, err, input)
				}
			}
		}
	}

	// ---- 3. status and size limits, AMP ------------------------------------------------------------
	type armored struct {
		name    string
		payload []byte
		doc     []byte
	}
	var docs []armored
	for ei, encoder := range []func([]byte) []byte{c11RealArmor, c11HandArmor} {
		ename := []string{"armor-encoder", "hand-written"}[ei]
		// the largest payload whose armored form fits the limit
		lo, hi := 0, 120000
		for lo < hi {
			mid := (lo + hi + 1) / 2
			if len(encoder(big[:mid])) <= c11Limit {
				lo = mid
			} else {
				hi = mid - 1
			}
		}
		nstar := lo
		ns := []int{0, 1, 1000, nstar - 3, nstar - 2, nstar - 1, nstar, nstar + 1, nstar + 2, nstar + 3, nstar + 6, 110000}
		if r.Thorough() {
			for d := -48; d <= 48; d++ {
				ns = append(ns, nstar+d)
			}
		}
		for _, n := range ns {
			docs = append(docs, armored{fmt.Sprintf("%s(payload %d)", ename, n), big[:n], encoder(big[:n])})
		}
		// exact total sizes by white space after the document
		base := encoder(big[:nstar-200])
		totals := []int{c11Limit - 1, c11Limit, c11Limit + 1, c11Limit + 2}
		if r.Thorough() {
			totals = nil
			for s := c11Limit - 60; s <= c11Limit+60; s++ {
				totals = append(totals, s)
			}
		}
		for _, total := range totals {
			doc := append(append([]byte{}, base...), bytes.Repeat([]byte("\n"), total-len(base))...)
			docs = append(docs, armored{fmt.Sprintf("%s(payload %d)+newlines to %d bytes", ename, nstar-200, total), big[:nstar-200], doc})
		}
	}
	r.Begin("limits-amp", fmt.Sprintf("AMP rendezvous: status %v x %d armored documents (real armor encoder and an armor written by hand from doc.go; payload sizes 0, 1, 1000, n*-3..n*+3, n*+6, 110000 where n* is the largest payload whose armor is <= 100000 bytes; documents padded with newlines to exactly limit-1..limit+2 bytes) x body reader (5 modes) x {direct, through a cache} x front {none, front.example}: the de-armored payload and nil error iff status 200, document size <= 100000 and delivered; otherwise a non-nil error", statuses, len(docs)))
	for _, doc := range docs {
		for _, status := range statuses {
			if !r.Mine() {
				continue
			}
			if r.TimeUp() {
				break
			}
			for mode := 0; mode < nRdModes; mode++ {
				for ci, cache := range []string{"", "https://cdn.ampproject.org/"} {
					for _, front := range []string{"", "front.example"} {
						if status != 200 && (mode != rdPlain || ci != 0) && !r.Thorough() {
							continue
						}
						doc := doc
						rt := &c11Transport{status: status, body: func() io.Reader { return &c11Body{data: doc.doc, mode: mode} }}
						var data []byte
						var err error
						input := map[string]interface{}{"method": "amp", "status": status, "document": doc.name, "document_size": len(doc.doc), "reader": c11RdNames[mode], "cache": cache, "front": front}
						p, val, stack := en.Try(func() {
							x, e := newAMPCacheRendezvous("https://broker.example/", cache, front, rt)
							if e != nil {
								err = e
								return
							}
							data, err = x.Exchange(polls[0])
						})
						r.Case(fmt.Sprintf("la|%d|%s|%d|%s|%s", status, doc.name, mode, cache, front), true)
						if p {
							r.Fail("limits:panic@"+en.PanicSite(stack), "Exchange panicked: "+val+" "+stack, input)
							continue
						}
						delivered := mode != rdErrAtEnd && mode != rdErrMidway
						c11JudgeResult(r, "amp", status, len(doc.doc), delivered, false, doc.payload, data, err, input)
					}
				}
			}
		}
	}

	// ---- 3b. redirects: a 3xx answer with a Location, and a 200 waiting at the target -----------------
	if r.Shard0() {
		r.Begin("redirects", "both rendezvous methods: first answer 301/302/303/307/308 with Location {other host, same host other path, the same URL}, every later request answered 200 with a valid body, x front {none, front.example}: Exchange must report an error (non-200 status); if the rendezvous sends further requests on its own, each of them must still connect to the front and name the broker only in the Host header")
		for _, method := range []string{"http", "amp", "amp-cache"} {
			for _, status := range []int{301, 302, 303, 307, 308} {
				for _, loc := range []string{"https://elsewhere.example/x", "/other/path", "https://broker.example/"} {
					for _, front := range []string{"", "front.example"} {
						okResp := okBody
						if method != "http" {
							okResp = c11RealArmor(okBody)
						}
						rt := &c11Transport{status: status, header: http.Header{"Location": {loc}}, body: func() io.Reader { return bytes.NewReader([]byte("moved")) },
							next: &c11Transport{status: 200, body: func() io.Reader { return bytes.NewReader(okResp) }}}
						var data []byte
						var err error
						input := map[string]interface{}{"method": method, "first_status": status, "location": loc, "front": front}
						p, val, stack := en.Try(func() {
							var x RendezvousMethod
							var e error
							switch method {
							case "http":
								x, e = newHTTPRendezvous("https://broker.example/", front, rt)
							case "amp":
								x, e = newAMPCacheRendezvous("https://broker.example/", "", front, rt)
							default:
								x, e = newAMPCacheRendezvous("https://broker.example/", "https://cdn.ampproject.org/", front, rt)
							}
							if e != nil {
								err = e
								return
							}
							data, err = x.Exchange(polls[0])
						})
						r.Case(fmt.Sprintf("redir|%s|%d|%s|%s", method, status, loc, front), true)
						if p {
							r.Fail("limits:panic@"+en.PanicSite(stack), "Exchange panicked: "+val+" "+stack, input)
							continue
						}
						m := "http"
						if method != "http" {
							m = "amp"
						}
						if err == nil {
							r.Fail(m+":non-200-accepted", fmt.Sprintf("first answer %d with Location %q: Exchange returned %d bytes and a nil error after %d request(s)", status, loc, len(data), len(rt.reqs)), input)
						}
						if front != "" {
							for i, q := range rt.reqs[1:] {
								if q.URLHost != front {
									r.Fail("fronting:not-connecting-to-front", fmt.Sprintf("after a %d answer the rendezvous sent request %d to %q instead of the front %q", status, i+2, q.URLHost, front), input)
									break
								}
							}
						}
					}
				}
			}
		}
	}

	// ---- 4. AMP: 200 with a Location header; transport errors ----------------------------------------
	if r.Shard0() {
		r.Begin("amp-location", "AMP rendezvous: status 200, small valid armor and a Location header {absolute, path-absolute, scheme-relative} x Response.Request {set, nil} x front: an error (the silent redirect of the AMP cache); Location values that are empty or do not parse are not judged; a RoundTrip error must be returned as an error by both methods")
		small := c11RealArmor(okBody)
		for _, loc := range []string{"https://broker.example/amp/client/0AAAA/MS4w", "/amp/client/0AAAA/MS4w", "//other.example/", "", "%zz", ":"} {
			for _, setReq := range []bool{false, true} {
				for _, front := range []string{"", "front.example"} {
					rt := &c11Transport{status: 200, header: http.Header{"Location": {loc}}, setRequest: setReq, body: func() io.Reader { return bytes.NewReader(small) }}
					var data []byte
					var err error
					input := map[string]interface{}{"method": "amp", "status": 200, "location": loc, "response_request_set": setReq, "front": front}
					p, val, stack := en.Try(func() {
						x, e := newAMPCacheRendezvous("https://broker.example/", "https://cdn.ampproject.org/", front, rt)
						if e != nil {
							err = e
							return
						}
						data, err = x.Exchange(polls[0])
					})
					judged := loc != "" && loc != "%zz" && loc != ":"
					r.Case(fmt.Sprintf("loc|%s|%v|%s", loc, setReq, front), judged)
					if p {
						r.Fail("limits:panic@"+en.PanicSite(stack), "Exchange panicked: "+val+" "+stack, input)
						continue
					}
					if judged && err == nil {
						r.Fail("amp:silent-redirect-accepted", fmt.Sprintf("200 with Location %q returned %d bytes and a nil error", loc, len(data)), input)
					}
					if !judged && err == nil && !bytes.Equal(data, okBody) {
						r.Fail("amp:wrong-data", fmt.Sprintf("200 with unusable Location %q returned %q, nil; the payload is %q", loc, data, okBody), input)
					}
				}
			}
		}
		for mode := 0; mode < 2; mode++ {
			rt := &c11Transport{err: errC11Reset}
			x, e := c11New(mode == 1, "https://broker.example/", "", "front.example", rt)
			r.Case(fmt.Sprintf("rterr|%d", mode), true)
			if e != nil {
				r.Fail("engine:constructor-error", e.Error(), mode)
				continue
			}
			data, err := x.Exchange(polls[0])
			if err == nil {
				r.Fail("limits:transport-error-swallowed", fmt.Sprintf("RoundTrip failed but Exchange returned %q, nil", data), map[string]interface{}{"amp": mode == 1})
			}
		}
	}
}

// c11JudgeResult applies the last clause of the statement to one Exchange outcome.
func c11JudgeResult(r *en.R, method string, status, size int, delivered, redirect bool, payload, data []byte, err error, input map[string]interface{}) {
	shouldSucceed := status == 200 && size <= c11Limit && delivered && !redirect
	if shouldSucceed {
		if err != nil {
			r.Fail(method+":spurious-error", fmt.Sprintf("status 200 and %d bytes (within the limit) gave error %v", size, err), input)
		} else if !bytes.Equal(data, payload) {
			r.Fail(method+":wrong-data", fmt.Sprintf("status 200 and %d bytes: returned %d bytes that are not the %d-byte payload", size, len(data), len(payload)), input)
		}
		return
	}
	if err == nil {
		sig := method + ":"
		switch {
		case status != 200:
			sig += "non-200-accepted"
		case size > c11Limit:
			sig += "oversize-accepted"
			if len(data) < len(payload) {
				sig += "-truncated"
			}
		default:
			sig += "failed-transfer-accepted"
		}
		r.Fail(sig, fmt.Sprintf("status %d, %d body bytes, delivered=%v: Exchange returned %d bytes and a nil error", status, size, delivered, len(data)), input)
	}
}
