//go:build go1.21

// Package verifc07 holds what the two C07 harnesses (common/safelog and common/event) share: the
// address-spelling grammar filtered by Go's own parsers, the delimiter contexts, the (deliberately
// weak) survival oracle and the classification of failures into few mechanism-level signatures.
// It is overlaid as a virtual package of the module (…/snowflake.git/v2/verifc07); standard library
// only, and it never looks at the scrubber's regular expressions.
package verifc07

import (
	"fmt"
	"net"
	"net/netip"
	"sort"
	"strconv"
	"strings"
)

// ---- address spellings --------------------------------------------------------------------------

type Addr struct {
	Text   string     // the spelling as it is put on the log line
	Bare   string     // the IP part of the spelling (no brackets, no port)
	IP     netip.Addr // what Go parses Bare to (unmapped)
	V4Tail netip.Addr // the dotted tail of an IPv4-embedded IPv6 spelling (zero otherwise)
	Form   string     // bare | port | bracket | bracket-port
	Shape  string     // v4 | v6-full | v6-P+Q-groups-around-double-colon [-v4tail]
	Source string     // grammar | printed
}

// GoAccepts decides, with Go's net package only, whether text is an address spelling (bare IP,
// "[ip]", "ip4:port", "[ip]:port") and returns its parts.
func GoAccepts(text string) (a Addr, ok bool) {
	a.Text = text
	switch {
	case net.ParseIP(text) != nil:
		a.Bare, a.Form = text, "bare"
	case len(text) > 2 && text[0] == '[' && text[len(text)-1] == ']' && net.ParseIP(text[1:len(text)-1]) != nil:
		a.Bare, a.Form = text[1:len(text)-1], "bracket"
	default:
		host, port, err := net.SplitHostPort(text)
		if err != nil || net.ParseIP(host) == nil || !portOK(port) {
			return a, false
		}
		a.Bare, a.Form = host, "port"
		if text[0] == '[' {
			a.Form = "bracket-port"
		} else if strings.Contains(host, ":") {
			return a, false // cannot happen: SplitHostPort refuses unbracketed IPv6
		}
	}
	ip, err := netip.ParseAddr(a.Bare)
	if err != nil {
		return a, false // both parsers must agree that this is an address
	}
	a.IP = ip.Unmap()
	a.Shape = shapeOf(a.Bare)
	if strings.Contains(a.Bare, ":") && strings.Contains(a.Bare, ".") {
		tail := a.Bare[strings.LastIndexByte(a.Bare, ':')+1:]
		if t, err := netip.ParseAddr(tail); err == nil {
			a.V4Tail = t
		}
	}
	return a, true
}

func portOK(p string) bool {
	if p == "" || len(p) > 5 {
		return false
	}
	for _, c := range []byte(p) {
		if c < '0' || c > '9' {
			return false
		}
	}
	n, err := strconv.Atoi(p)
	return err == nil && n <= 65535
}

func shapeOf(bare string) string {
	if !strings.Contains(bare, ":") {
		return "v4"
	}
	tail := ""
	if strings.Contains(bare, ".") {
		tail = "-v4tail"
	}
	count := func(s string) int {
		n := 0
		for _, g := range strings.Split(s, ":") {
			if g != "" && !strings.Contains(g, ".") {
				n++
			}
		}
		return n
	}
	i := strings.Index(bare, "::")
	if i < 0 {
		return "v6-full" + tail
	}
	return fmt.Sprintf("v6-%d+%d-groups-around-double-colon%s", count(bare[:i]), count(bare[i+2:]), tail)
}

var Octets = []string{"0", "1", "9", "10", "99", "100", "199", "255"}
var Hextets = []string{"0", "1", "a", "ab", "abc", "abcd", "ABCD", "0db8", "ffff"}
var Ports = []string{"80", "1", "443", "8080", "65535"}
var V4Tails = []string{"1.2.3.4", "10.0.0.1", "255.255.255.255", "199.100.99.9", "0.0.0.0"}

type Counts map[string]int

// Spellings returns the deterministic list of address spellings, shortest first.
//
//	IPv4: octets from Octets; quick keeps the 512 tuples with o4 = (o1+o2+o3) mod 8 (every triple of
//	  positions takes every value combination), thorough all 4096; each bare and with ":port"
//	  (net.JoinHostPort, one port per address drawn round-robin from Ports), every 8th also as
//	  "[v4]" and "[v4]:port".
//	IPv6: every pattern "P groups :: Q groups" with P+Q<=7, the full 8-group form, and the
//	  IPv4-embedded forms (6 groups + dotted quad; P :: Q + dotted quad with P+Q<=5); hextets drawn
//	  round-robin from Hextets starting at every rotation (stride 1; thorough also strides 2 and 4);
//	  each bare, "[v6]" and "[v6]:port" (net.JoinHostPort).
//	Printed: for every IP above what Go prints: net.IP.String(), netip.Addr.String(),
//	  (*net.TCPAddr).String().
//
// Every candidate goes through GoAccepts; rejected candidates are counted, not used.
func Spellings(thorough bool) ([]Addr, Counts) {
	counts := Counts{}
	seen := map[string]bool{}
	var out []Addr
	add := func(text, source, kind string) {
		if seen[text] {
			counts["duplicate"]++
			return
		}
		seen[text] = true
		a, ok := GoAccepts(text)
		if !ok {
			counts["rejected-by-go:"+kind]++
			return
		}
		a.Source = source
		counts[kind]++
		out = append(out, a)
	}
	portOf := map[string]string{} // one port per bare spelling, shared by its grammar and printed forms
	pi := 0
	port := func(bare string) string {
		if p, ok := portOf[bare]; ok {
			return p
		}
		pi++
		portOf[bare] = Ports[pi%len(Ports)]
		return portOf[bare]
	}

	// IPv4
	n4 := 0
	for a := 0; a < 8; a++ {
		for b := 0; b < 8; b++ {
			for c := 0; c < 8; c++ {
				for d := 0; d < 8; d++ {
					if !thorough && d != (a+b+c)%8 {
						continue
					}
					s := Octets[a] + "." + Octets[b] + "." + Octets[c] + "." + Octets[d]
					add(s, "grammar", "v4-bare")
					add(net.JoinHostPort(s, port(s)), "grammar", "v4-port")
					if n4%8 == 0 {
						add("["+s+"]", "grammar", "v4-bracket")
						add("["+s+"]:"+port(s), "grammar", "v4-bracket-port")
					}
					n4++
				}
			}
		}
	}

	// IPv6
	strides := []int{1}
	if thorough {
		strides = []int{1, 2, 4}
	}
	var bases []string
	ti := 0
	for _, stride := range strides {
		for rot := 0; rot < len(Hextets); rot++ {
			gi := rot
			next := func(n int) []string {
				g := make([]string, n)
				for i := range g {
					g[i] = Hextets[gi%len(Hextets)]
					gi += stride
				}
				return g
			}
			tail := func() string { ti++; return V4Tails[ti%len(V4Tails)] }
			for p := 0; p <= 8; p++ { // P :: Q  (P+Q = 8 is sent through the filter too: Go rejects it)
				for q := 0; p+q <= 8; q++ {
					gi = rot + p*3 + q
					bases = append(bases, strings.Join(next(p), ":")+"::"+strings.Join(next(q), ":"))
				}
			}
			gi = rot
			bases = append(bases, strings.Join(next(8), ":"))
			gi = rot
			bases = append(bases, strings.Join(next(6), ":")+":"+tail())
			for p := 0; p <= 6; p++ { // P :: Q : dotted quad  (P+Q = 6 is rejected by Go)
				for q := 0; p+q <= 6; q++ {
					gi = rot + p + q*2
					s := strings.Join(next(p), ":") + "::" + strings.Join(next(q), ":")
					if q > 0 {
						s += ":"
					}
					bases = append(bases, s+tail())
				}
			}
		}
	}
	for _, b := range bases {
		kind := "v6"
		if strings.Contains(b, ".") {
			kind = "v6-v4tail"
		}
		add(b, "grammar", kind+"-bare")
		add("["+b+"]", "grammar", kind+"-bracket")
		add(net.JoinHostPort(b, port(b)), "grammar", kind+"-bracket-port")
	}

	// what Go prints for the same IPs
	grammar := append([]Addr(nil), out...)
	for _, a := range grammar {
		if a.Form != "bare" {
			continue
		}
		ip := net.ParseIP(a.Bare)
		add(ip.String(), "printed", "printed-IP.String")
		if na, err := netip.ParseAddr(a.Bare); err == nil {
			add(na.String(), "printed", "printed-netip.Addr.String")
		}
		p, _ := strconv.Atoi(port(a.Bare))
		add((&net.TCPAddr{IP: ip, Port: p}).String(), "printed", "printed-TCPAddr.String")
	}
	sort.SliceStable(out, func(i, j int) bool {
		if len(out[i].Text) != len(out[j].Text) {
			return len(out[i].Text) < len(out[j].Text)
		}
		return out[i].Text < out[j].Text
	})
	counts["total"] = len(out)
	return out, counts
}

// Reduced is a hand-picked list of representative spellings (every form and every kind of shape that
// the scrubber is expected to handle on its own) for the sections that multiply addresses.
func Reduced(n int) []Addr {
	texts := []string{
		"1.2.3.4", "[2001:db8::1]:443", "::1", "10.0.0.1:80", "2001:db8::1", "1:2:3:4:5:6:7:8",
		"::ffff:1.2.3.4", "[::1]:80", "255.255.255.255:65535", "::", "1::", "[2001:db8::1]",
		"64:ff9b::10.0.0.1", "fe80::ABCD:1", "[1:2:3:4:5:6:7:8]:8080", "1:2:3:4:5:6:9.9.9.9",
		"199.100.99.9", "[::ffff:10.0.0.1]:1", "0.0.0.0", "abcd:0db8::ffff:0:1", "1:2:3:4:5:6::8",
		"[::]:80", "100.99.10.9:8080", "::abc:ab:a", "1::8", "[1.2.3.4]:80",
	}
	var out []Addr
	for _, t := range texts {
		a, ok := GoAccepts(t)
		if !ok {
			panic("verifc07: Go rejects the hand-picked spelling " + t)
		}
		a.Source = "reduced"
		out = append(out, a)
	}
	if n > 0 && n < len(out) {
		out = out[:n]
	}
	return out
}

// ---- contexts -----------------------------------------------------------------------------------

type Ctx struct {
	Text string
	Name string
}

var punctNames = map[byte]string{
	'!': "bang", '"': "dquote", '#': "hash", '$': "dollar", '%': "percent", '&': "amp", '\'': "squote",
	'(': "lparen", ')': "rparen", '*': "star", '+': "plus", ',': "comma", '-': "minus", '.': "dot",
	'/': "slash", ':': "colon", ';': "semicolon", '<': "lt", '=': "eq", '>': "gt", '?': "question",
	'@': "at", '[': "lbracket", '\\': "backslash", ']': "rbracket", '^': "caret", '_': "underscore",
	'`': "backtick", '{': "lbrace", '|': "pipe", '}': "rbrace", '~': "tilde",
}

// Punct lists the 32 ASCII punctuation bytes in code order.
func Punct() []byte {
	var p []byte
	for c := byte(0x21); c < 0x7f; c++ {
		if _, ok := punctNames[c]; ok {
			p = append(p, c)
		}
	}
	return p
}

// LeftContexts: what stands immediately before the address.  ':' is excluded by the statement; '.'
// is excluded because a dot glued to the front changes what the token is.  The bytes before the
// delimiter are a non-hex word ("x") so that the address token starts exactly at the address.
// Thorough adds the same delimiters standing at the very start of the line.
func LeftContexts(thorough bool) []Ctx {
	l := []Ctx{{"", "line-start"}, {"x ", "space"}, {"x\t", "tab"}}
	for _, c := range Punct() {
		if c == ':' || c == '.' {
			continue
		}
		l = append(l, Ctx{"x" + string(c), punctNames[c]})
	}
	if thorough {
		l = append(l, Ctx{" ", "space"}, Ctx{"\t", "tab"})
		for _, c := range Punct() {
			if c == ':' || c == '.' {
				continue
			}
			l = append(l, Ctx{string(c), punctNames[c]})
		}
	}
	return l
}

// RightContexts: what stands immediately after the address.  ": " is the one colon context the
// design includes (Go prints "dial tcp 1.2.3.4:80: connection refused").  In the quick tier a
// punctuation delimiter is the last byte of the input; thorough adds each followed by " y".
func RightContexts(thorough bool) []Ctx {
	r := []Ctx{{"", "end-of-input"}, {"\n", "newline"}, {" y", "space"}, {"\ty", "tab"}, {": y", "colon-space"}, {":\n", "colon-newline"}, {"\r\n", "cr"}}
	for _, c := range Punct() {
		if c == ':' {
			continue
		}
		r = append(r, Ctx{string(c), punctNames[c]})
	}
	if thorough {
		for _, c := range Punct() {
			if c == ':' {
				continue
			}
			r = append(r, Ctx{string(c) + " y", punctNames[c]})
		}
	}
	return r
}

// Compatible excludes combinations in which the address token is not unambiguous: an address that
// ends in ':' followed by another ':'.
func Compatible(l Ctx, a Addr, r Ctx) bool {
	if strings.HasPrefix(r.Text, ":") && strings.HasSuffix(a.Text, ":") {
		return false
	}
	return true
}

var Joiners = []Ctx{{" ", "space"}, {"\t", "tab"}, {", ", "comma-space"}, {",", "comma"}, {" -> ", "arrow"}, {";", "semicolon"}, {"\n", "newline"}}

type Line struct {
	L     Ctx
	Addrs []Addr
	Joins []Ctx // len(Addrs)-1
	R     Ctx
}

func (ln Line) Text() string {
	var b strings.Builder
	b.WriteString(ln.L.Text)
	for i, a := range ln.Addrs {
		if i > 0 {
			b.WriteString(ln.Joins[i-1].Text)
		}
		b.WriteString(a.Text)
	}
	b.WriteString(ln.R.Text)
	return b.String()
}

// DistinctIPs reports whether no two addresses denote the same IP (nor one the dotted tail of
// another), so that a survivor can be attributed to its position.
func DistinctIPs(as []Addr) bool {
	for i := range as {
		for j := range as {
			if i == j {
				continue
			}
			if as[i].IP == as[j].IP || (as[i].V4Tail.IsValid() && as[i].V4Tail == as[j].IP) {
				return false
			}
		}
	}
	return true
}

// ---- oracle -------------------------------------------------------------------------------------

func isRun(c byte) bool {
	return c >= '0' && c <= '9' || c >= 'a' && c <= 'f' || c >= 'A' && c <= 'F' || c == ':' || c == '.'
}

type Survivor struct {
	Index int    // which injected address
	Run   string // the bytes of the output that still spell it
	Kind  string // whole | v4-tail
}

func parseRun(run string) []netip.Addr {
	var ips []netip.Addr
	cands := []string{run}
	if n := len(run); n > 1 && (run[n-1] == ':' || run[n-1] == '.') {
		cands = append(cands, run[:n-1])
	}
	for _, c := range cands {
		if ip, err := netip.ParseAddr(c); err == nil {
			ips = append(ips, ip.Unmap())
		} else if ip := net.ParseIP(c); ip != nil {
			if a, ok := netip.AddrFromSlice(ip); ok {
				ips = append(ips, a.Unmap())
			}
		}
		if h, p, err := net.SplitHostPort(c); err == nil && portOK(p) {
			if ip, err := netip.ParseAddr(h); err == nil {
				ips = append(ips, ip.Unmap())
			}
		}
	}
	return ips
}

// Survivors is the oracle: an injected address survives if some maximal run of [0-9A-Fa-f:.] in the
// output (as it stands, or without one trailing ':' or '.') is accepted by Go as an IP or as ip:port
// and denotes the same IP, or denotes the dotted IPv4 tail of an injected IPv4-embedded spelling and
// is a substring of it.  Anything else in the output (stray colons, ports, fragments that no longer
// parse, any placeholder text) is accepted.
func Survivors(out string, inj []Addr) []Survivor {
	var s []Survivor
	for i := 0; i < len(out); {
		if !isRun(out[i]) {
			i++
			continue
		}
		j := i
		for j < len(out) && isRun(out[j]) {
			j++
		}
		run := out[i:j]
		i = j
		if len(run) < 2 {
			continue
		}
		for _, ip := range parseRun(run) {
			for k, a := range inj {
				if ip == a.IP {
					s = append(s, Survivor{k, run, "whole"})
				} else if a.V4Tail.IsValid() && ip == a.V4Tail.Unmap() && strings.Contains(a.Text, strings.TrimRight(run, ":.")) {
					s = append(s, Survivor{k, run, "v4-tail"})
				}
			}
		}
	}
	// one report per injected address
	var uniq []Survivor
	have := map[int]bool{}
	for _, x := range s {
		if !have[x.Index] {
			have[x.Index] = true
			uniq = append(uniq, x)
		}
	}
	return uniq
}

// ---- classification of failures (not an oracle: it only names the mechanism) ---------------------

type Classifier struct {
	Scrub func(string) string // the path under test, applied to one input
	memo  map[string]bool
}

func (c *Classifier) survives(l string, a Addr, r string) bool {
	k := l + "\x00" + a.Text + "\x00" + r
	if c.memo == nil {
		c.memo = map[string]bool{}
	}
	if v, ok := c.memo[k]; ok {
		return v
	}
	if len(c.memo) > 200000 {
		c.memo = map[string]bool{}
	}
	v := len(Survivors(c.Scrub(l+a.Text+r), []Addr{a})) > 0
	c.memo[k] = v
	return v
}

var neutral = [][2]string{{"", ""}, {"x ", " y"}, {"", " y"}, {"x ", ""}, {"x(", ")"}, {"x ", "\n"}, {"x ", ","}}

func (c *Classifier) spellingFails(a Addr) bool {
	for _, n := range neutral {
		if c.survives(n[0], a, n[1]) {
			return true
		}
	}
	return false
}

// Classify names the mechanism by re-running reduced variants of the failing line:
//
//	spelling:<shape>                the spelling survives between neutral delimiters (space, line
//	                                boundary, parentheses, comma)
//	delimiter-not-recognised:<name> it survives next to this delimiter and not next to a space
//	shared-delimiter / after-joiner it survives only because another address stands before/after it
func (c *Classifier) Classify(ln Line, sv Survivor) string {
	pre := "unscrubbed:"
	if sv.Kind == "v4-tail" {
		pre = "unscrubbed-v4-tail:"
	}
	a := ln.Addrs[sv.Index]
	if c.spellingFails(a) {
		sig := pre + "spelling:" + a.Shape
		if a.Form != "bare" {
			if bare, ok := GoAccepts(a.Bare); ok && !c.spellingFails(bare) {
				sig += ":" + a.Form
			}
		}
		return sig
	}
	l, lname := ln.L.Text, ln.L.Name
	if sv.Index > 0 {
		j := ln.Joins[sv.Index-1]
		l, lname = "x"+j.Text, j.Name
	}
	r, rname := ln.R.Text, ln.R.Name
	if sv.Index < len(ln.Addrs)-1 {
		j := ln.Joins[sv.Index]
		r, rname = j.Text+"y", j.Name
	}
	if c.survives(l, a, r) {
		if c.survives("x ", a, r) {
			return pre + "delimiter-not-recognised:" + rname
		}
		if c.survives(l, a, " y") {
			return pre + "delimiter-not-recognised:" + lname
		}
		return pre + "delimiter-pair-not-recognised:" + lname + "+" + rname
	}
	if sv.Index > 0 {
		j := ln.Joins[sv.Index-1]
		if c.survives("x "+ln.Addrs[sv.Index-1].Text+j.Text, a, " y") {
			if len(j.Text) == 1 {
				return pre + "one-byte-delimiter-shared-with-previous-address"
			}
			return pre + "after-address-and-joiner:" + j.Name
		}
	}
	if sv.Index < len(ln.Addrs)-1 {
		j := ln.Joins[sv.Index]
		if c.survives("x ", a, j.Text+ln.Addrs[sv.Index+1].Text+" y") {
			if len(j.Text) == 1 {
				return pre + "one-byte-delimiter-shared-with-next-address"
			}
			return pre + "before-joiner-and-address:" + j.Name
		}
	}
	return pre + "only-in-the-full-line"
}

// ---- failure buffer: keeps the smallest input per signature ---------------------------------------

type failure struct {
	count int
	msg   string
	input map[string]interface{}
	size  int
}

type Fails struct {
	m     map[string]*failure
	order []string
}

func (f *Fails) Add(sig, msg, input string, extra map[string]interface{}) {
	if f.m == nil {
		f.m = map[string]*failure{}
	}
	e := f.m[sig]
	if e == nil {
		e = &failure{size: 1 << 30}
		f.m[sig] = e
		f.order = append(f.order, sig)
	}
	e.count++
	if len(input) < e.size {
		in := map[string]interface{}{"input": input}
		for k, v := range extra {
			in[k] = v
		}
		e.size, e.msg, e.input = len(input), msg, in
	}
}

// Flush reports every signature with its smallest input, once per counted case.
func (f *Fails) Flush(fail func(sig, msg string, input interface{})) {
	for _, sig := range f.order {
		e := f.m[sig]
		for i := 0; i < e.count; i++ {
			fail(sig, e.msg, e.input)
		}
	}
}
