//go:build go1.21

package safelog

// C07 — no IP address survives the log scrubber (DESIGN.md §3 C07).
//
// Sections: contexts (every spelling x left delimiter x right delimiter through Scrub), pairs and
// triples (several addresses per line through a real LogScrubber), splits (every split of two-line
// inputs into <=3 Write calls).  Grammar, oracle and classification live in verifc07 (c07lib/lib.go).

import (
	"fmt"
	"sort"
	"strings"
	"testing"

	c07 "git.torproject.org/pluggable-transports/snowflake.git/v2/verifc07"
	en "git.torproject.org/pluggable-transports/snowflake.git/v2/verifenum"
)

// recorder is the log sink: it keeps a copy of the argument of every Write call.
type recorder struct {
	calls []string
	// failCall/failAfter: the failCall-th Write (1-based; 0: never) accepts failAfter bytes and returns an error
	failCall, failAfter int
}

func (r *recorder) Write(p []byte) (int, error) {
	r.calls = append(r.calls, string(p))
	if r.failCall != 0 && len(r.calls) == r.failCall {
		k := r.failAfter
		if k > len(p) {
			k = len(p)
		}
		return k, fmt.Errorf("no space left on device")
	}
	return len(p), nil
}

func (r *recorder) all() string { return strings.Join(r.calls, "") }

// throughWriter sends the input through a fresh LogScrubber in one Write call.
func throughWriter(s string) string {
	rec := &recorder{}
	ls := &LogScrubber{Output: rec}
	ls.Write([]byte(s))
	return rec.all()
}

func scrubString(s string) string { return string(Scrub([]byte(s))) }

func checkLine(r *en.R, fails *c07.Fails, cl *c07.Classifier, ln c07.Line, path string) {
	text := ln.Text()
	out := cl.Scrub(text)
	for _, sv := range c07.Survivors(out, ln.Addrs) {
		sig := cl.Classify(ln, sv)
		fails.Add(sig, fmt.Sprintf("%s(%q) = %q: the address %q is still readable as %q", path, text, out, ln.Addrs[sv.Index].Text, sv.Run),
			text, map[string]interface{}{"output": out, "address": ln.Addrs[sv.Index].Text, "path": path})
	}
}

func TestVerifEnum(t *testing.T) {
	r := en.New()
	defer r.Done()
	fails := &c07.Fails{}
	defer fails.Flush(r.Fail)
	th := r.Thorough()

	spellings, counts := c07.Spellings(th)
	left, right := c07.LeftContexts(th), c07.RightContexts(th)
	direct := &c07.Classifier{Scrub: scrubString}
	writer := &c07.Classifier{Scrub: func(s string) string {
		if !strings.HasSuffix(s, "\n") { // the writer only emits complete lines
			s += "\n"
		}
		return throughWriter(s)
	}}
	if r.Shard0() {
		r.Sample(map[string]interface{}{"spelling_counts": counts, "left_contexts": len(left), "right_contexts": len(right)})
		for i := 0; i < len(spellings); i += len(spellings)/9 + 1 {
			r.Sample(spellings[i].Text)
		}
	}

	// 1. one address, every delimiter context, through Scrub
	r.Begin("contexts", fmt.Sprintf("%d spellings accepted by net.ParseIP/SplitHostPort (IPv4 octets %v; IPv6 hextets %v, every '::' position and group count, full form, IPv4-embedded tails; bare, ip:port, [ip], [ip]:port; plus IP.String/netip.Addr.String/TCPAddr.String of each) x %d left contexts (line start, space, tab, every ASCII punctuation except ':' and '.') x %d right contexts (end of input, newline, CR LF, space, tab, ': ', ':\\n', every ASCII punctuation except ':'); Scrub(line)",
		len(spellings), c07.Octets, c07.Hextets, len(left), len(right)))
	for _, a := range spellings {
		if !r.Mine() {
			continue
		}
		if r.TimeUp() {
			break
		}
		for _, l := range left {
			for _, rc := range right {
				if !c07.Compatible(l, a, rc) {
					continue
				}
				ln := c07.Line{L: l, Addrs: []c07.Addr{a}, R: rc}
				r.Case("c|"+ln.Text(), true)
				checkLine(r, fails, direct, ln, "Scrub")
			}
		}
	}

	// 2. two addresses per line, through the writer
	red := c07.Reduced(0)
	if th {
		red = append(red, onePerShape(spellings, red)...)
	}
	l2 := []c07.Ctx{{Text: "", Name: "line-start"}, {Text: "x ", Name: "space"}, {Text: "x(", Name: "lparen"}, {Text: "x=", Name: "eq"}}
	r2 := []c07.Ctx{{Text: "\n", Name: "newline"}, {Text: " y\n", Name: "space"}, {Text: ")\n", Name: "rparen"}, {Text: ": y\n", Name: "colon-space"}, {Text: ",\n", Name: "comma"}, {Text: ".\n", Name: "dot"}}
	r.Begin("pairs", fmt.Sprintf("ordered pairs of distinct IPs from %d representative spellings x joiners {space, tab, ', ', ',', ' -> ', ';', newline} x %d left x %d right contexts; one Write of the newline-terminated input through a real LogScrubber", len(red), len(l2), len(r2)))
	for _, a := range red {
		for _, b := range red {
			if !r.Mine() {
				continue
			}
			if r.TimeUp() {
				break
			}
			as := []c07.Addr{a, b}
			if !c07.DistinctIPs(as) {
				continue
			}
			for _, j := range c07.Joiners {
				for _, l := range l2 {
					for _, rc := range r2 {
						if !c07.Compatible(l, b, rc) || !c07.Compatible(l, a, j) {
							continue
						}
						ln := c07.Line{L: l, Addrs: as, Joins: []c07.Ctx{j}, R: rc}
						r.Case("p|"+ln.Text(), true)
						checkLine(r, fails, writer, ln, "LogScrubber.Write")
					}
				}
			}
		}
	}

	// 3. three addresses per line
	n3 := 10
	if th {
		n3 = 16
	}
	red3 := c07.Reduced(n3)
	l3 := []c07.Ctx{{Text: "", Name: "line-start"}, {Text: "x ", Name: "space"}}
	r3 := []c07.Ctx{{Text: "\n", Name: "newline"}, {Text: " y\n", Name: "space"}}
	r.Begin("triples", fmt.Sprintf("ordered triples of distinct IPs from %d representative spellings x every pair of joiners x {line start, space} x {newline, space}; one Write through a real LogScrubber", len(red3)))
	for _, a := range red3 {
		for _, b := range red3 {
			for _, c := range red3 {
				if !r.Mine() {
					continue
				}
				if r.TimeUp() {
					break
				}
				as := []c07.Addr{a, b, c}
				if !c07.DistinctIPs(as) {
					continue
				}
				for _, j1 := range c07.Joiners {
					for _, j2 := range c07.Joiners {
						if !c07.Compatible(l3[0], a, j1) || !c07.Compatible(l3[0], b, j2) {
							continue
						}
						for _, l := range l3 {
							for _, rc := range r3 {
								ln := c07.Line{L: l, Addrs: as, Joins: []c07.Ctx{j1, j2}, R: rc}
								r.Case("t|"+ln.Text(), true)
								checkLine(r, fails, writer, ln, "LogScrubber.Write")
							}
						}
					}
				}
			}
		}
	}

	// 4. splits of the byte stream into Write calls
	lines := []string{"", "x", "1.2.3.4", "x 1.2.3.4 y", "dial 1.2.3.4:80: y", "x [2001:db8::1]:443", "::1", "x ::", "1:: y",
		"(10.0.0.1)", "1.2.3.4 9.9.9.9", "1.2.3.4, ::1", "x=1:2:3:4:5:6:7:8;", "::ffff:1.2.3.4", "\t64:ff9b::1.2.3.4 ", "x\r",
		// a line that STARTS with a bracketed address and port (after a line ending in an address the
		// regexp, run over both lines at once, has no left delimiter for it and matches without the port)
		"[::1]:80 -> 10.0.0.1:443", "[2001:db8::1]:8080"}
	if th {
		lines = append(lines, "x 1.2.3.4", "1.2.3.4 y", "1.2.3.4;::1;1::", "fe80::ABCD:1%eth0", "a b c d e f", "1.2.3", ":", "[::]",
			"255.255.255.255:65535", "1:2:3:4:5:6:9.9.9.9.", "x_y", "1.2.3.4\t::1", "http://[2001:db8::1]:8080/x?y=1.2.3.4")
	}
	r.Begin("splits", fmt.Sprintf("inputs line1 \\n line2 [\\n] over %d lines (with and without addresses, empty, CR) x every split into <=3 non-empty Write calls through a real LogScrubber with a recording sink: same concatenated output as one Write per line, every sink call ends in \\n, nothing after the last newline is emitted, Write returns (len, nil)", len(lines)))
	for _, a := range lines {
		for _, b := range lines {
			for _, term := range []string{"\n", ""} {
				if !r.Mine() {
					continue
				}
				if r.TimeUp() {
					break
				}
				checkSplits(r, fails, a+"\n"+b+term)
				if term == "\n" && !strings.Contains(a+b, "\r") {
					checkFailingSink(r, fails, []string{a, b})
				}
			}
		}
	}
	// lines far longer than any buffer a writer might want to bound, delivered in two or three writes
	r.Begin("long-lines", "one line of 65 535 .. 200 000 bytes with an address at every offset from 120 bytes before to 10 bytes after the first write boundary (first write of 65 536, 65 537, 66 000 or 131 072 bytes), optionally a third write: nothing reaches the sink before the newline, the sink gets exactly the scrubbed line, the address is nowhere in it")
	{
		addrs := []string{"192.168.13.77:4431", "[2001:db8::77]:443"}
		firsts := []int{65536, 65537, 66000, 131072}
		if !th {
			firsts = firsts[:3]
			addrs = addrs[:1]
		}
		for _, first := range firsts {
			for _, addr := range addrs {
				for off := first - 120; off <= first+10; off++ {
					if !r.Mine() {
						continue
					}
					if r.TimeUp() {
						break
					}
					total := first + 4000
					var sb strings.Builder
					for sb.Len() < off-1 {
						sb.WriteString("relayed bytes ok ")
					}
					line := sb.String()[:off-1] + " " + addr + " "
					for len(line) < total {
						line += "and more text "
					}
					line += "\n"
					want := scrubString(line)
					for _, parts := range [][]string{{line[:first], line[first:]}, {line[:first], line[first : first+1000], line[first+1000:]}} {
						rec, bad := writeSplit(parts)
						r.Case(fmt.Sprintf("long|%d|%s|%d|%d", first, addr, off, len(parts)), true)
						in := map[string]interface{}{"line_bytes": len(line), "address": addr, "address_offset": off, "write_sizes": []int{len(parts[0]), len(line) - len(parts[0])}}
						if bad != "" {
							fails.Add("writer:wrong-return-value", bad, "long line", in)
						}
						for _, c := range rec.calls {
							if !strings.HasSuffix(c, "\n") {
								fails.Add("writer:incomplete-line-emitted", fmt.Sprintf("a line of %d bytes written in %d pieces: the sink received %d bytes that do not end in a newline", len(line), len(parts), len(c)), "long line", in)
								break
							}
						}
						got := rec.all()
						if strings.Contains(got, strings.Trim(addr, "[]")) || strings.Contains(got, "192.168.13.77") || strings.Contains(got, "2001:db8::77") {
							fails.Add("unscrubbed:long-line-cut-by-a-write-boundary", fmt.Sprintf("a line of %d bytes written in %d pieces (first %d bytes): the address %s at offset %d reached the sink", len(line), len(parts), first, addr, off), "long line", in)
						} else if got != want {
							fails.Add("split-dependence:long-line", fmt.Sprintf("a line of %d bytes written in %d pieces reached the sink as %d bytes; one Write gives %d bytes", len(line), len(parts), len(got), len(want)), "long line", in)
						}
					}
				}
			}
		}
	}
	if th {
		r.Begin("splits3", "three-line inputs over the first 9 lines x every split into <=3 Write calls")
		for _, a := range lines[:9] {
			for _, b := range lines[:9] {
				for _, c := range lines[:9] {
					if !r.Mine() {
						continue
					}
					if r.TimeUp() {
						break
					}
					checkSplits(r, fails, a+"\n"+b+"\n"+c+"\n")
				}
			}
		}
	}
}

// onePerShape adds, for the thorough tier, the shortest bare spelling of every shape that is
// scrubbed on its own and is not yet represented.
func onePerShape(all, have []c07.Addr) []c07.Addr {
	seen := map[string]bool{}
	for _, a := range have {
		seen[a.Shape+a.Form] = true
	}
	var out []c07.Addr
	for _, a := range all {
		if a.Form != "bare" || seen[a.Shape+a.Form] {
			continue
		}
		if len(c07.Survivors(scrubString("x "+a.Text+" y"), []c07.Addr{a})) > 0 || len(c07.Survivors(scrubString(a.Text), []c07.Addr{a})) > 0 {
			continue
		}
		seen[a.Shape+a.Form] = true
		out = append(out, a)
	}
	return out
}

// writeSplit feeds the parts to a fresh LogScrubber and returns what reached the sink.
func writeSplit(parts []string) (rec *recorder, badReturn string) { return writeSplitMode(parts, 0) }

// writeSplitMode: how the caller treats the slice it passed once Write has returned (io.Writer must not
// retain it): 0 a fresh slice per call, never touched again; 1 one scratch buffer reused for every
// chunk, as io.CopyBuffer and bufio.Writer do; 2 the slice is overwritten with digits right after the call.
func writeSplitMode(parts []string, mode int) (rec *recorder, badReturn string) {
	rec = &recorder{}
	ls := &LogScrubber{Output: rec}
	scratch := make([]byte, 0, 256)
	for _, p := range parts {
		var b []byte
		switch mode {
		case 1:
			scratch = append(scratch[:0], p...)
			b = scratch
		default:
			b = []byte(p)
		}
		n, err := ls.Write(b)
		if n != len(p) || err != nil {
			badReturn = fmt.Sprintf("Write(%q) = %d, %v", p, n, err)
		}
		if mode == 2 {
			for i := range b {
				b[i] = '7'
			}
		}
	}
	return
}

// checkFailingSink: the sink fails once, part-way through a flush, and logging goes on.  Whatever the
// scrubber does about the failed flush (repeat it, drop it), everything it hands to the sink must still
// be complete scrubbed lines of the input.
func checkFailingSink(r *en.R, fails *c07.Fails, lines []string) {
	allowed := map[string]bool{}
	for _, l := range lines {
		allowed[scrubString(l+"\n")] = true
	}
	// how many bytes the first flush hands over (to choose the failure points)
	first := len(scrubString(lines[0] + "\n"))
	for failCall := 1; failCall <= 2; failCall++ {
		for k := 0; k <= first+2; k++ {
			rec := &recorder{failCall: failCall, failAfter: k}
			ls := &LogScrubber{Output: rec}
			in := map[string]interface{}{"lines": lines, "sink_write_that_fails": failCall, "bytes_accepted_before_the_error": k}
			panicked, val, stack := en.Try(func() {
				for _, l := range lines {
					ls.Write([]byte(l + "\n")) // errors are reported to the caller, which keeps logging
				}
				ls.Write([]byte("end\n"))
			})
			r.Case(fmt.Sprintf("fs|%d|%d|%s", failCall, k, strings.Join(lines, "\x00")), true)
			if panicked {
				fails.Add("failing-sink:panic@"+en.PanicSite(stack), "LogScrubber.Write panicked after a failed flush: "+val+" "+stack, strings.Join(lines, "\n"), in)
				continue
			}
			for _, c := range rec.calls {
				if !strings.HasSuffix(c, "\n") {
					fails.Add("failing-sink:incomplete-line-emitted", fmt.Sprintf("after the sink's Write %d failed having accepted %d bytes the sink was handed %q, which does not end a line", failCall, k, c), strings.Join(lines, "\n"), in)
					break
				}
				bad := ""
				for _, l := range strings.SplitAfter(c, "\n") {
					if l != "" && !allowed[l] && l != "end\n" {
						bad = l
						break
					}
				}
				if bad != "" {
					fails.Add("failing-sink:not-a-scrubbed-line-of-the-input", fmt.Sprintf("after the sink's Write %d failed having accepted %d bytes the sink was handed %q; the scrubbed input lines are %q", failCall, k, bad, keys(allowed)), strings.Join(lines, "\n"), in)
					break
				}
			}
		}
	}
}

func keys(m map[string]bool) []string {
	var out []string
	for k := range m {
		out = append(out, k)
	}
	sort.Strings(out)
	return out
}

func checkSplits(r *en.R, fails *c07.Fails, input string) {
	// reference: one Write per line (itself one way of splitting the stream); the bytes after the
	// last newline are a partial line
	var perLine []string
	rest := input
	for {
		i := strings.IndexByte(rest, '\n')
		if i < 0 {
			break
		}
		perLine = append(perLine, rest[:i+1])
		rest = rest[i+1:]
	}
	refParts := append([]string(nil), perLine...)
	if rest != "" {
		refParts = append(refParts, rest)
	}
	refRec, _ := writeSplit(refParts)
	ref := refRec.all()
	// independent of the writer: Scrub of each complete line
	want := ""
	for _, l := range perLine {
		want += scrubString(l)
	}
	if ref != want {
		fails.Add("writer:one-write-per-line-differs-from-scrub-of-each-line", fmt.Sprintf("writes %q reached the sink as %q; Scrub of each complete line gives %q", refParts, ref, want), input, nil)
	}
	n := len(input)
	var check func(parts []string)
	checkMode := func(parts []string, mode int) {
		rec, bad := writeSplitMode(parts, mode)
		r.Case(fmt.Sprintf("w%d|", mode)+strings.Join(parts, "\x00"), true)
		in := map[string]interface{}{"writes": parts, "caller_buffer": []string{"fresh slice per call", "one scratch buffer reused for every chunk", "overwritten with digits after the call"}[mode]}
		if bad != "" {
			fails.Add("writer:wrong-return-value", bad, input, in)
		}
		for _, c := range rec.calls {
			if !strings.HasSuffix(c, "\n") {
				fails.Add("writer:incomplete-line-emitted", fmt.Sprintf("writes %q: the sink received %q, which does not end in a newline", parts, c), input, in)
				break
			}
		}
		got := rec.all()
		if got == ref {
			return
		}
		// name the mechanism: did one Write complete several lines at once?
		sig := "split-dependence:line-or-address-cut-by-a-write-boundary"
		for _, p := range parts {
			if strings.Count(p, "\n") >= 2 {
				sig = "split-dependence:several-lines-completed-by-one-write"
			}
		}
		if mode != 0 {
			sig = "split-dependence:caller-buffer-retained"
			if fresh, _ := writeSplitMode(parts, 0); fresh.all() != ref {
				return // the same split differs with fresh slices too: reported by mode 0
			}
		}
		fails.Add(sig, fmt.Sprintf("writes %q (%s) reached the sink as %q; one Write per line gives %q", parts, in["caller_buffer"], got, ref), input, in)
	}
	check = func(parts []string) {
		checkMode(parts, 0)
		if len(parts) > 1 {
			checkMode(parts, 1)
			checkMode(parts, 2)
		}
	}
	check([]string{input})
	for c1 := 1; c1 < n; c1++ {
		check([]string{input[:c1], input[c1:]})
		for c2 := c1 + 1; c2 < n; c2++ {
			check([]string{input[:c1], input[c1:c2], input[c2:]})
		}
	}
}
