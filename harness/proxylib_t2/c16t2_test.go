//go:build go1.21

package snowflake_proxy

// C16 tier 2 — the real proxy (SnowflakeProxy.Start: real polling loop, runSession,
// makePeerConnectionFromOffer, datachannelHandler, webRTCConn, copyLoop) against a scripted broker and
// relay (loopback HTTP/WebSocket servers) and REAL pion clients in the same process.  The session
// outcomes that tier 1 plays through two seams are produced here by what the client does.  After every
// scenario the proxy must poll again, report no client and hold no slot.
//
// In-process WebRTC needs a network interface pion gathers host candidates on (it ignores loopback).
// The first scenario is a plain session; if its data channel does not open, the environment cannot
// run this tier and the run is marked incomplete (never failed).  Real time: oracles are bytes, counts
// and "the proxy polled again" within a generous bound, re-run three times before it is believed.

import (
	"bytes"
	"fmt"
	"io"
	"log"
	"net"
	"net/http"
	"net/http/httptest"
	"os"
	"strings"
	"sync"
	"sync/atomic"
	"testing"
	"time"

	"git.torproject.org/pluggable-transports/snowflake.git/v2/common/messages"
	"git.torproject.org/pluggable-transports/snowflake.git/v2/common/util"
	en "git.torproject.org/pluggable-transports/snowflake.git/v2/verifenum"
	"github.com/gorilla/websocket"
	"github.com/pion/stun"
	"github.com/pion/webrtc/v3"
)

const t2Wait = 90 * time.Second

func t2STUN() (string, func(), error) {
	pc, err := net.ListenPacket("udp4", "127.0.0.1:0")
	if err != nil {
		return "", nil, err
	}
	go func() {
		buf := make([]byte, 1500)
		for {
			n, addr, err := pc.ReadFrom(buf)
			if err != nil {
				return
			}
			req := &stun.Message{Raw: append([]byte{}, buf[:n]...)}
			if req.Decode() != nil {
				continue
			}
			ua := addr.(*net.UDPAddr)
			resp, err := stun.Build(stun.NewTransactionIDSetter(req.TransactionID), stun.BindingSuccess, &stun.XORMappedAddress{IP: ua.IP, Port: ua.Port}, stun.Fingerprint)
			if err == nil {
				pc.WriteTo(resp.Raw, addr)
			}
		}
	}()
	return "stun:" + pc.LocalAddr().String(), func() { pc.Close() }, nil
}

// what one client does
const (
	cEcho             = iota // opens the channel, sends 200 kB, reads them back from the echoing relay, closes
	cCloseAtOpen             // closes its peer connection as soon as the data channel is open
	cNeverAnswer             // never applies the proxy's answer: the data channel never opens (20 s timeout at the proxy)
	cStallDownload           // the relay pushes 6 MB; the client stops consuming after the first message, waits 3 s, closes
	cRelayDown               // the relay URL the broker hands out is unreachable
	cBadOffer                // the broker hands out an offer that does not deserialise
	cRelayStalls             // the relay accepts the TCP connection and never answers the WebSocket handshake
	cBrokerErrorPages        // the broker (a gateway in front of it) answers the next three polls with a 502 page, then serves an echo client
	cAnswerErrorPage         // the broker answers the proxy's /answer request with a 503 page: the session comes to nothing
	cLongStay                // echoes like the first kind, then stays connected for 45 s (nine poll intervals at full capacity) before it closes
	nClientModes
)

var cModeName = []string{"echo-then-close", "close-at-open", "never-applies-answer", "stalls-during-download-then-closes", "relay-unreachable", "undecodable-offer", "relay-accepts-and-never-answers", "three-502-pages-then-echo", "answer-request-gets-a-503-page", "echo-then-stay-45s"}

type t2Poll struct {
	n       int
	clients int
	at      time.Time
}

type t2World struct {
	mu       sync.Mutex
	offers   []string // offers still to hand out, with their relay URLs
	relays   []string
	polls    []t2Poll
	answers  map[string]chan string // offer -> answer channel
	sidOffer map[string]string      // session id of the poll that was handed an offer -> that offer
	pollCh   chan struct{}
	download bool
	// broker faults
	errorPolls   int             // polls still to be answered with a 502 page
	answerErrors map[string]bool // offers whose /answer request gets a 503 page
}

type t2Outcome struct {
	infra    string // environment trouble (not judged)
	noWebRTC bool
	sig, msg string
	slow     bool // the proxy did not poll again in time
}

func t2RunScenario(capacity uint, modes []int) *t2Outcome {
	return t2RunScenarioSettle(capacity, modes, true)
}

// settle: wait for the proxy to poll with everything released (false: the environment probe only needs the session itself)
func t2RunScenarioSettle(capacity uint, modes []int, settle bool) *t2Outcome {
	out := &t2Outcome{}
	w := &t2World{answers: map[string]chan string{}, sidOffer: map[string]string{}, pollCh: make(chan struct{}, 1024), answerErrors: map[string]bool{}}
	// relay: echoes, or pushes a download
	up := websocket.Upgrader{CheckOrigin: func(*http.Request) bool { return true }}
	relay := httptest.NewServer(http.HandlerFunc(func(rw http.ResponseWriter, r *http.Request) {
		ws, err := up.Upgrade(rw, r, nil)
		if err != nil {
			return
		}
		defer ws.Close()
		if r.URL.Path == "/download" {
			go func() {
				chunk := make([]byte, 16384)
				for sent := 0; sent < 6<<20; sent += len(chunk) {
					if ws.WriteMessage(websocket.BinaryMessage, chunk) != nil {
						return
					}
				}
			}()
			for {
				if _, _, err := ws.ReadMessage(); err != nil {
					return
				}
			}
		}
		for {
			mt, m, err := ws.ReadMessage()
			if err != nil {
				return
			}
			for i := range m {
				m[i] ^= 0x5a
			}
			if ws.WriteMessage(mt, m) != nil {
				return
			}
		}
	}))
	defer relay.Close()
	relayWS := "ws://" + strings.TrimPrefix(relay.URL, "http://")
	dead, _ := net.Listen("tcp", "127.0.0.1:0")
	deadURL := "ws://" + dead.Addr().String() + "/"
	dead.Close()
	// a relay that completes the TCP handshake and then says nothing (the proxy's dial is given up after
	// gorilla's default 45 s handshake timeout; the slot must come back then)
	mute, _ := net.Listen("tcp", "127.0.0.1:0")
	muteURL := "ws://" + mute.Addr().String() + "/"
	var muteConns []net.Conn
	var muteMu sync.Mutex
	go func() {
		for {
			c, err := mute.Accept()
			if err != nil {
				return
			}
			muteMu.Lock()
			muteConns = append(muteConns, c)
			muteMu.Unlock()
		}
	}()
	closeMute := func() {
		mute.Close()
		muteMu.Lock()
		for _, c := range muteConns {
			c.Close()
		}
		muteConns = nil
		muteMu.Unlock()
	}
	defer closeMute()

	var nPolls int32
	brokerSrv := httptest.NewServer(http.HandlerFunc(func(rw http.ResponseWriter, r *http.Request) {
		body, _ := io.ReadAll(r.Body)
		switch r.URL.Path {
		case "/proxy":
			sid, _, _, clients, _, _, err := messages.DecodeProxyPollRequestWithRelayPrefix(body)
			if err != nil {
				http.Error(rw, err.Error(), 400)
				return
			}
			n := int(atomic.AddInt32(&nPolls, 1))
			w.mu.Lock()
			w.polls = append(w.polls, t2Poll{n, clients, time.Now()})
			if w.errorPolls > 0 {
				w.errorPolls--
				w.mu.Unlock()
				select {
				case w.pollCh <- struct{}{}:
				default:
				}
				http.Error(rw, "<html><head><title>502 Bad Gateway</title></head><body><center><h1>502 Bad Gateway</h1></center>"+strings.Repeat("<!-- padding -->", 40)+"</body></html>", http.StatusBadGateway)
				return
			}
			var resp []byte
			if len(w.offers) > 0 {
				w.sidOffer[sid] = w.offers[0]
				resp, _ = messages.EncodePollResponseWithRelayURL(w.offers[0], true, "unknown", w.relays[0], "")
				w.offers, w.relays = w.offers[1:], w.relays[1:]
			} else {
				resp, _ = messages.EncodePollResponse("", false, "")
			}
			w.mu.Unlock()
			select {
			case w.pollCh <- struct{}{}:
			default:
			}
			rw.Write(resp)
		case "/answer":
			answer, sid, err := messages.DecodeAnswerRequest(body)
			if err != nil {
				http.Error(rw, err.Error(), 400)
				return
			}
			// the answer goes to the client whose offer was handed to the poll with this session id
			w.mu.Lock()
			if w.answerErrors[w.sidOffer[sid]] {
				w.mu.Unlock()
				http.Error(rw, "<html><body><h1>503 Service Temporarily Unavailable</h1>"+strings.Repeat("<!-- padding -->", 40)+"</body></html>", http.StatusServiceUnavailable)
				return
			}
			if ch := w.answers[w.sidOffer[sid]]; ch != nil {
				select {
				case ch <- answer:
				default:
				}
			}
			w.mu.Unlock()
			resp, _ := messages.EncodeAnswerResponse(true)
			rw.Write(resp)
		default:
			http.NotFound(rw, r)
		}
	}))
	defer brokerSrv.Close()
	stunURL, stopSTUN, err := t2STUN()
	if err != nil {
		out.infra = err.Error()
		return out
	}
	defer stopSTUN()

	proxy := &SnowflakeProxy{Capacity: capacity, STUNURL: stunURL, BrokerURL: brokerSrv.URL + "/", NATProbeURL: brokerSrv.URL + "/probe", RelayURL: relayWS + "/", KeepLocalAddresses: true,
		RelayDomainNamePattern: "$", AllowNonTLSRelay: true}
	started := make(chan error, 1)
	go func() { started <- proxy.Start() }()
	defer func() {
		// a dial still waiting for the mute relay ends now, and gives its slot back to THIS proxy's token
		// pool (a package variable that the next scenario's Start replaces)
		closeMute()
		time.Sleep(time.Second)
		proxy.Stop()
		select {
		case <-started:
		case <-time.After(20 * time.Second):
		}
	}()
	waitPoll := func(d time.Duration) bool {
		select {
		case <-w.pollCh:
			return true
		case <-time.After(d):
			return false
		}
	}
	if !waitPoll(t2Wait) {
		// the broker is a loopback server: unless Start itself gave up, a proxy that does not poll once is a
		// proxy that holds no free slot (believed after re-runs, like every liveness verdict here)
		select {
		case err := <-started:
			out.infra = fmt.Sprintf("Start returned %v before polling", err)
			started <- err
		default:
			out.slow = true
			out.msg = fmt.Sprintf("the proxy did not poll the broker once within %v of Start() (NAT probe answered 404)", t2Wait)
		}
		return out
	}

	// clients, one after the other when capacity is 1, together otherwise
	type clientRes struct {
		noWebRTC bool
		stalled  bool // its offer was never taken by the proxy
		sig, msg string
	}
	runClient := func(idx, mode int) clientRes {
		var res clientRes
		pc, err := webrtc.NewPeerConnection(webrtc.Configuration{})
		if err != nil {
			res.sig, res.msg = "", "client: "+err.Error()
			res.noWebRTC = true
			return res
		}
		defer pc.Close()
		dc, err := pc.CreateDataChannel("snowflake", nil)
		if err != nil {
			res.noWebRTC = true
			return res
		}
		dcOpen := make(chan struct{})
		dc.OnOpen(func() { close(dcOpen) })
		payload := make([]byte, 200000)
		for i := range payload {
			payload[i] = byte(i*7 + idx)
		}
		var got []byte
		var gotMu sync.Mutex
		first := make(chan struct{})
		var firstOnce sync.Once
		resume := make(chan struct{})
		defer func() {
			select {
			case <-resume:
			default:
				close(resume)
			}
		}()
		dc.OnMessage(func(m webrtc.DataChannelMessage) {
			gotMu.Lock()
			if len(got) < len(payload) {
				got = append(got, m.Data...)
			}
			gotMu.Unlock()
			firstOnce.Do(func() { close(first) })
			if mode == cStallDownload {
				<-resume
			}
		})
		offer, err := pc.CreateOffer(nil)
		if err != nil {
			res.noWebRTC = true
			return res
		}
		gathered := webrtc.GatheringCompletePromise(pc)
		if err = pc.SetLocalDescription(offer); err != nil {
			res.noWebRTC = true
			return res
		}
		<-gathered
		offerJSON, _ := util.SerializeSessionDescription(pc.LocalDescription())
		ansCh := make(chan string, 4)
		ru := relayWS + "/"
		switch mode {
		case cStallDownload:
			ru = relayWS + "/download"
		case cRelayDown:
			ru = deadURL
		case cRelayStalls:
			ru = muteURL
		case cBadOffer:
			offerJSON = `{"type":"offer","sdp":`
		}
		w.mu.Lock()
		w.answers[offerJSON] = ansCh
		if mode == cBrokerErrorPages {
			w.errorPolls = 3
		}
		if mode == cAnswerErrorPage {
			w.answerErrors[offerJSON] = true
		}
		w.offers = append(w.offers, offerJSON)
		w.relays = append(w.relays, ru)
		w.mu.Unlock()
		defer func() {
			w.mu.Lock()
			delete(w.answers, offerJSON)
			w.mu.Unlock()
		}()
		if mode == cBadOffer {
			return res // the proxy refuses it; nothing more for this client to do
		}
		if mode == cAnswerErrorPage {
			// the proxy's answer never gets through; wait until the offer was taken, then leave
			for t0 := time.Now(); time.Since(t0) < t2Wait; time.Sleep(100 * time.Millisecond) {
				w.mu.Lock()
				taken := true
				for _, o := range w.offers {
					taken = taken && o != offerJSON
				}
				w.mu.Unlock()
				if taken {
					break
				}
			}
			time.Sleep(2 * time.Second)
			return res
		}
		var answerJSON string
		// the answer that belongs to this client carries a fingerprint/ufrag this client can apply; with two
		// clients the harness tries each answer it sees
		deadline := time.After(t2Wait)
		applied := false
		for !applied {
			select {
			case answerJSON = <-ansCh:
				if mode == cNeverAnswer {
					return res // got it, never applies it
				}
				ans, err := util.DeserializeSessionDescription(answerJSON)
				if err != nil {
					res.sig, res.msg = "session:bad-answer", "the proxy's answer does not deserialise: "+err.Error()
					return res
				}
				if err := pc.SetRemoteDescription(*ans); err == nil {
					applied = true
				}
			case <-deadline:
				// no answer: either the proxy never took the offer (it has stopped polling: a liveness
				// failure of the proxy, believed after re-runs) or the environment is in the way
				w.mu.Lock()
				taken := true
				for _, o := range w.offers {
					taken = taken && o != offerJSON
				}
				w.mu.Unlock()
				if taken {
					res.noWebRTC = true
				} else {
					res.stalled = true
				}
				return res
			}
		}
		select {
		case <-dcOpen:
		case <-time.After(40 * time.Second):
			res.noWebRTC = true // ICE did not connect in this environment
			return res
		}
		switch mode {
		case cCloseAtOpen:
		case cRelayDown, cRelayStalls:
			time.Sleep(500 * time.Millisecond)
		case cStallDownload:
			select {
			case <-first:
			case <-time.After(40 * time.Second):
				res.sig, res.msg = "session:no-data", "no byte of the relay's download reached the client within 40 s"
				return res
			}
			time.Sleep(3 * time.Second)
			closed := make(chan struct{})
			go func() { pc.Close(); close(closed) }()
			time.Sleep(500 * time.Millisecond)
			close(resume)
			<-closed
			return res
		case cEcho, cBrokerErrorPages, cLongStay:
			for off := 0; off < len(payload); off += 8192 {
				if err := dc.Send(payload[off:min(off+8192, len(payload))]); err != nil {
					res.sig, res.msg = "session:send-error", err.Error()
					return res
				}
			}
			for t0 := time.Now(); ; {
				gotMu.Lock()
				n := len(got)
				gotMu.Unlock()
				if n >= len(payload) {
					break
				}
				if time.Since(t0) > t2Wait {
					res.sig, res.msg = "session:echo-incomplete", fmt.Sprintf("%d of %d echoed bytes arrived within %v", n, len(payload), t2Wait)
					return res
				}
				time.Sleep(20 * time.Millisecond)
			}
			gotMu.Lock()
			g := append([]byte(nil), got[:len(payload)]...)
			gotMu.Unlock()
			for i := range g {
				g[i] ^= 0x5a
			}
			if !bytes.Equal(g, payload) {
				res.sig, res.msg = "session:wrong-echo", "the bytes relayed back through the proxy differ from what the client sent"
				return res
			}
			if mode == cLongStay {
				time.Sleep(45 * time.Second)
			}
		}
		pc.Close()
		return res
	}
	results := make([]clientRes, len(modes))
	if capacity == 1 {
		for i, m := range modes {
			results[i] = runClient(i, m)
			if results[i].noWebRTC || results[i].stalled {
				break
			}
			// the slot must come back before the next client can be served: with capacity 1 the proxy polls
			// only while it holds no client, so a poll that arrives from now on shows it (polls signalled
			// earlier are discarded first)
			for drained := false; !drained; {
				select {
				case <-w.pollCh:
				default:
					drained = true
				}
			}
			if !waitPoll(t2Wait + 10*time.Second) {
				out.slow = true
				out.msg = fmt.Sprintf("capacity 1: no poll within %v after client %d (%s) had left", t2Wait+10*time.Second, i, cModeName[m])
				return out
			}
		}
	} else {
		var wg sync.WaitGroup
		for i, m := range modes {
			i, m := i, m
			wg.Add(1)
			go func() { defer wg.Done(); results[i] = runClient(i, m) }()
		}
		wg.Wait()
	}
	for i, cr := range results {
		if cr.stalled {
			out.slow = true
			out.msg = fmt.Sprintf("the offer of client %d (%s) was not taken within %v: the proxy has stopped polling", i, cModeName[modes[i]], t2Wait)
			return out
		}
		if cr.noWebRTC {
			out.noWebRTC = true
			return out
		}
		if cr.sig != "" && out.sig == "" {
			out.sig, out.msg = cr.sig, cr.msg
		}
	}
	if !settle {
		return out
	}
	// afterwards: the proxy keeps polling, reports no client and holds no slot beyond the polling one
	settleFor := 8 * time.Second
	for _, m := range modes {
		if m == cNeverAnswer {
			settleFor = 25 * time.Second // a session whose data channel never opens is given up by the proxy after 20 s
		}
	}
	leftAt := time.Now()
	// released = the proxy polls, reports no client and holds no slot beyond the polling loop's own.  How
	// long the proxy needs to notice that a client is gone is pion's business (close notification, ICE
	// timeouts), so this is a liveness oracle: wait for the released state up to a generous bound.
	for {
		if !waitPoll(t2Wait) {
			out.slow = true
			return out
		}
		w.mu.Lock()
		last := w.polls[len(w.polls)-1]
		pending := len(w.offers)
		w.mu.Unlock()
		if pending == 0 && last.at.After(leftAt.Add(settleFor)) && last.clients == 0 && tokens.count() <= 1 {
			return out
		}
		if time.Since(leftAt) > settleFor+75*time.Second {
			out.slow = true
			out.msg = fmt.Sprintf("%v after the last client left: last poll reports %d clients, %d slots in use (1 is the polling loop's), %d offers not taken", time.Since(leftAt).Round(time.Second), last.clients, tokens.count(), pending)
			return out
		}
	}
}

func TestVerifEnumC16T2(t *testing.T) {
	r := en.New()
	defer r.Done()
	log.SetOutput(io.Discard)
	logf := func(format string, a ...interface{}) { fmt.Fprintf(os.Stderr, "[c16t2] "+format+"\n", a...) }
	type scenario struct {
		capacity uint
		modes    []int
	}
	var scen []scenario
	for m := 0; m < nClientModes; m++ {
		scen = append(scen, scenario{1, []int{m}})
	}
	scen = append(scen, scenario{1, []int{cCloseAtOpen, cEcho}}, scenario{1, []int{cRelayDown, cBadOffer, cEcho}}, scenario{2, []int{cEcho, cEcho}}, scenario{2, []int{cStallDownload, cEcho}}, scenario{3, []int{cEcho, cCloseAtOpen, cRelayDown}}, scenario{1, []int{cRelayStalls, cEcho}}, scenario{1, []int{cBrokerErrorPages, cAnswerErrorPage, cEcho}}, scenario{2, []int{cAnswerErrorPage, cBrokerErrorPages}}, scenario{1, []int{cLongStay, cEcho}})
	if r.Thorough() {
		for a := 0; a < nClientModes; a++ {
			for b := 0; b < nClientModes; b++ {
				scen = append(scen, scenario{1, []int{a, b}}, scenario{2, []int{a, b}})
			}
		}
	}
	r.Begin("real-proxy-sessions", fmt.Sprintf("SnowflakeProxy.Start against a scripted broker and relay with real pion clients in the same process: %d scenarios over client behaviours %v, capacities 1-3; oracle: bytes relayed through the proxy are exact, afterwards the proxy polls again, reports no client and holds no slot", len(scen), cModeName))
	// the environment check: a plain session
	probe := t2RunScenarioSettle(1, []int{cEcho}, false)
	if probe.slow {
		rep := 0
		for i := 0; i < 3; i++ {
			if o2 := t2RunScenarioSettle(1, []int{cEcho}, false); o2.slow {
				rep++
			}
		}
		if rep == 3 {
			if r.Shard0() {
				r.Fail("slots:not-released", "in 4 runs "+probe.msg, "capacity 1, first client")
			}
			return
		}
		probe = t2RunScenarioSettle(1, []int{cEcho}, false)
	}
	if probe.noWebRTC || probe.infra != "" {
		r.Incomplete("in-process WebRTC does not connect in this environment (no interface pion gathers candidates on?): " + probe.infra)
		return
	}
	for _, sc := range scen {
		if !r.Mine() {
			continue
		}
		if r.TimeUp() {
			break
		}
		var names []string
		for _, m := range sc.modes {
			names = append(names, cModeName[m])
		}
		desc := fmt.Sprintf("capacity %d, clients [%s]", sc.capacity, strings.Join(names, ", "))
		if only := os.Getenv("VERIF_T2_ONLY"); only != "" && !strings.Contains(desc, only) {
			continue
		}
		r.Case("t2|"+desc, true)
		t0 := time.Now()
		o := t2RunScenario(sc.capacity, sc.modes)
		logf("%s: %v", desc, time.Since(t0).Round(time.Millisecond))
		if o.infra != "" || o.noWebRTC {
			r.Incomplete("environment trouble in " + desc + ": " + o.infra)
			continue
		}
		if o.slow {
			rep := 0
			for i := 0; i < 3; i++ {
				o2 := t2RunScenario(sc.capacity, sc.modes)
				logf("%s: re-run %d: slow=%v infra=%q noWebRTC=%v sig=%q %s", desc, i+1, o2.slow, o2.infra, o2.noWebRTC, o2.sig, o2.msg)
				if o2.slow {
					rep++
				}
			}
			if rep == 3 {
				r.Fail("slots:not-released", fmt.Sprintf("in 4 runs the proxy did not return to 'polling, no client, no slot held' after its clients had left (%s)", o.msg), desc)
			}
			continue
		}
		if o.sig != "" {
			r.Fail(o.sig, o.msg, desc)
		}
	}
}
