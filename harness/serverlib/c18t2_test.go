//go:build go1.21

package snowflake_server

// C18 on the real stack — a session whose ClientID the bounded address map has already forgotten is given
// no address.  (The map is bounded; with the production capacity of 10240 this takes that many newer
// carriers, here the package's map is replaced by one of capacity 2 for the duration of the scenario.)
// Kept apart from c05t2_test.go because it touches unexported package state.

import (
	"fmt"
	"time"

	"git.torproject.org/pluggable-transports/snowflake.git/v2/common/turbotunnel"
	en "git.torproject.org/pluggable-transports/snowflake.git/v2/verifenum"
)

func init() {
	t2Forgotten = func(r *en.R, nextTag func() [8]byte, logf func(string, ...interface{})) {
		r.Case("sess|forgotten-clientid", true)
		saved := clientIDAddrMap
		clientIDAddrMap = newClientIDMap(2)
		if s, err := startT2Server(); err != nil {
			r.Incomplete("cannot start the server on a loopback port: " + err.Error())
		} else {
			tag := nextTag()
			var id turbotunnel.ClientID
			copy(id[:], tag[:])
			prefix := append(append([]byte{}, turbotunnel.Token[:]...), id[:]...)
			forgotten := schedule{"carrier-idle-while-three-newer-clients-attach", func(s *t2server, pc *cliPC, _ []byte, ip1, ip2 string) (string, error) {
				c, err := mustDial(s, ip1, prefix)
				if err != nil {
					return "", err
				}
				pc.attach(c)
				time.Sleep(500 * time.Millisecond) // the server has registered this ClientID
				for k := 0; k < 3; k++ {
					var other turbotunnel.ClientID
					copy(other[:], []byte{0xEE, byte(k), 1, 2, 3, 4, 5, 6})
					oc, err := mustDial(s, fmt.Sprintf("10.8.8.%d", k+1), append(append([]byte{}, turbotunnel.Token[:]...), other[:]...))
					if err != nil {
						return "", err
					}
					time.Sleep(300 * time.Millisecond)
					oc.close()
				}
				return "\x00forgotten", nil
			}}
			x := runSession(s, forgotten, tag, 3000, "3.3.3.3", "")
			switch {
			case x.infraErr != nil:
				r.Incomplete("loopback trouble: " + x.infraErr.Error())
			case x.timedOut:
				logf("forgotten-clientid scenario timed out (not judged)")
			case x.failSig != "":
				r.Fail(x.failSig, x.failMsg, "forgotten ClientID")
			default:
				for _, a := range s.snapshot() {
					if a.gotTag && a.tag == tag && a.remote != "" && a.remote != "<nil>" {
						r.Fail("accept:address-for-a-forgotten-clientid", fmt.Sprintf("the address map (capacity 2) had forgotten the session's ClientID when it was established, yet the bridge is told %q (must be none)", a.remote), "forgotten ClientID")
					}
				}
			}
			s.ln.Close()
		}
		clientIDAddrMap = saved
	}
}
