//go:build go1.21

package snowflake_server

// C18 — bridge is told the right client address or none: the client_ip sanitiser (ENUM against a
// net/netip reference) and the bounded ClientID->address ring map (explicit-state search to a
// fixpoint against the reference "the last cap Set calls").

import (
	"fmt"
	"net"
	"net/netip"
	"sort"
	"strings"
	"testing"

	"git.torproject.org/pluggable-transports/snowflake.git/v2/common/turbotunnel"
	en "git.torproject.org/pluggable-transports/snowflake.git/v2/verifenum"
)

func clientIPStrings() []string {
	var out []string
	v4 := []string{"1.2.3.4", "0.0.0.0", "255.255.255.255", "10.0.0.1", "127.0.0.1", "01.2.3.4", "1.2.3.04", "1.2.3", "1.2.3.4.5", "256.1.1.1", "1.2.3.-4", "1.2.3.4 ", " 1.2.3.4", "1.2.3.4\n", "0x1.2.3.4", "1.2.3.4.", "1..3.4"}
	v6 := []string{"::", "::1", "2001:db8::1", "2001:DB8::1", "2001:0db8:0000:0000:0000:0000:0000:0001", "fe80::1", "fe80::1%eth0", "fe80::1%25eth0", "::%eth0", "::ffff:1.2.3.4", "::ffff:0.0.0.0", "::ffff:0:0", "0:0:0:0:0:0:0:0", "0::0",
		"1:2:3:4:5:6:7:8", "1:2:3:4:5:6:7:8:9", "1:2:3:4:5:6:7", ":::", "::g", "1::2::3", "[::1]", "[2001:db8::1]", "2001:db8::1.2.3.4", "64:ff9b::1.2.3.4", "::1.2.3.4", "1:2:3:4:5:6:1.2.3.4", "1:2:3:4:5:6:7:1.2.3.4"}
	for _, a := range v4 {
		out = append(out, a, a+":80", a+":1", "["+a+"]")
	}
	for _, a := range v6 {
		out = append(out, a, a+":80", "["+a+"]:80")
	}
	out = append(out, "", " ", "localhost", "example.com", "garbage", "1", "-1", "4294967295", "16909060", "1.2.3.4,5.6.7.8", "1.2.3.4;", "%00", "\x00", "١.٢.٣.٤", strings.Repeat("1", 5000), strings.Repeat("1:", 4000), "1.2.3.4%eth0", "::1%", "%", "::ffff:1.2.3.4%x")
	return out
}

func TestVerifEnumC18(t *testing.T) {
	r := en.New()
	defer r.Done()

	r.Begin("sanitiser", "client_ip strings from a grammar (IPv4/IPv6 spellings, leading zeros, zones, ports, brackets, embedded IPv4, garbage, empty, very long) against a net/netip reference: valid specified zone-less IP => ip:1 / [ip6]:1 naming the same address, otherwise empty")
	if r.Shard0() {
		for _, s := range clientIPStrings() {
			s := s
			r.Case("ip|"+s, s != "")
			var got net.Addr
			p, val, stack := en.Try(func() { got = clientAddr(s) })
			if p {
				r.Fail("sanitiser:panic@"+en.PanicSite(stack), val+" "+stack, shortC(s))
				continue
			}
			if got == nil {
				r.Fail("sanitiser:nil-addr", "clientAddr returned a nil net.Addr", shortC(s))
				continue
			}
			out := got.String()
			ref, err := netip.ParseAddr(s)
			valid := err == nil && ref.Zone() == "" && !ref.Unmap().IsUnspecified()
			if !valid {
				if out != "" {
					r.Fail("sanitiser:accepts-invalid", fmt.Sprintf("client_ip %q is not a valid specified IP address but yields %q", shortC(s), out), shortC(s))
				}
				continue
			}
			ap, err := netip.ParseAddrPort(out)
			if err != nil || ap.Port() != 1 || ap.Addr().Unmap() != ref.Unmap() {
				r.Fail("sanitiser:wrong-address", fmt.Sprintf("client_ip %q yields %q, want the same address with stub port 1", s, out), shortC(s))
			}
		}
		r.Sample(map[string]string{"client_ip": "2001:DB8::1", "addr": clientAddr("2001:DB8::1").String()})
	}

	// ring map: explicit-state search to a fixpoint
	r.Begin("ringmap", "clientIDMap: capacities 0..3, ClientIDs {A,B,C,D}, addresses {x,y}; breadth-first over Set sequences on real objects until no new canonical state (ring rotated to oldest + current map) appears; in every state Get of every id must equal the reference 'address of the latest of the last cap Set calls naming id'")
	ids := []turbotunnel.ClientID{{'A'}, {'B'}, {'C'}, {'D'}}
	addrs := []net.Addr{ClientMapAddr("x"), ClientMapAddr("y")}
	type setOp struct{ id, addr int }
	var ops []setOp
	for i := range ids {
		for a := range addrs {
			ops = append(ops, setOp{i, a})
		}
	}
	for capacity := 0; capacity <= 3; capacity++ {
		if !r.Mine() {
			continue
		}
		build := func(seq []setOp) *clientIDMap {
			m := newClientIDMap(capacity)
			for _, o := range seq {
				m.Set(ids[o.id], addrs[o.addr])
			}
			return m
		}
		canon := func(m *clientIDMap) string {
			var sb strings.Builder
			n := len(m.entries)
			for k := 0; k < n; k++ {
				e := m.entries[(m.oldest+k)%n]
				a := "-"
				if e.addr != nil {
					a = e.addr.String()
				}
				fmt.Fprintf(&sb, "%c%s,", e.clientID[0]+'0'*0, a)
			}
			var cur []string
			for id, i := range m.current {
				cur = append(cur, fmt.Sprintf("%c@%d", id[0], (i-m.oldest+n)%max(n, 1)))
			}
			sort.Strings(cur)
			return sb.String() + "|" + strings.Join(cur, ",")
		}
		seen := map[string]bool{}
		frontier := [][]setOp{nil}
		seen[canon(build(nil))] = true
		states, transitions, depth := 1, 0, 0
		for len(frontier) > 0 {
			var next [][]setOp
			for _, hist := range frontier {
				for _, o := range ops {
					seq := append(append([]setOp{}, hist...), o)
					var m *clientIDMap
					p, val, stack := en.Try(func() { m = build(seq) })
					transitions++
					if p {
						r.Fail("ringmap:panic@"+en.PanicSite(stack), val+" "+stack, fmt.Sprint(capacity, seq))
						continue
					}
					// reference
					last := seq
					if len(last) > capacity {
						last = last[len(last)-capacity:]
					}
					for i, id := range ids {
						want := -1
						for _, x := range last {
							if x.id == i {
								want = x.addr
							}
						}
						got, ok := m.Get(id)
						if (want < 0) != !ok || (ok && got != addrs[want]) {
							r.Fail("ringmap:wrong-get", fmt.Sprintf("capacity %d after %v: Get(%c) = %v,%v; reference index %d", capacity, seq, id[0], got, ok, want), fmt.Sprint(capacity, seq))
						}
					}
					if len(m.current) > capacity {
						r.Fail("ringmap:unbounded", fmt.Sprintf("capacity %d but %d ids remembered", capacity, len(m.current)), fmt.Sprint(capacity, seq))
					}
					r.Case(fmt.Sprintf("ring|%d|%v", capacity, seq), true)
					k := canon(m)
					if !seen[k] {
						seen[k] = true
						states++
						next = append(next, seq)
					}
				}
			}
			frontier = next
			if len(next) > 0 {
				depth++
			}
			if depth > 12 {
				r.Incomplete("ring map search did not reach a fixpoint by depth 12")
				break
			}
		}
		r.Sample(map[string]interface{}{"capacity": capacity, "reachable_states": states, "transitions": transitions, "fixpoint_depth": depth})
	}
}

func shortC(s string) string {
	if len(s) > 100 {
		return s[:100] + fmt.Sprintf("...(%d bytes)", len(s))
	}
	return s
}
