//go:build go1.21

package snowflake_server

// C05 tier 2 — the clauses of C05 that live above turbotunnelMode (token check in ServeHTTP, one
// accepted connection per session in acceptSessions/acceptStreams, client address of the accepted
// connection) on the REAL stack: Transport.Listen on a loopback port, gorilla WebSocket carriers,
// kcp-go and smux on both ends.  Real time is involved, therefore:
//   * safety oracles only compare bytes and counts (never durations);
//   * "nothing was accepted" is judged after a barrier: a valid session set up afterwards on the same
//     listener has been accepted and served;
//   * liveness oracles use a generous deadline (liveWait) and a case that misses it is re-run alone
//     three times before it is reported; infrastructure trouble (cannot listen / dial on loopback) marks
//     the run incomplete instead of failing it.
// The carrier schedules of tier 1 (cut at every byte class, idle gaps around the one-minute retention)
// are explored exhaustively under virtual time by checks/c05.py; here the schedules are short.

import (
	"bytes"
	"encoding/binary"
	"fmt"
	"io"
	"log"
	"net"
	"os"
	"runtime"
	"sort"
	"strings"
	"sync"
	"testing"
	"time"

	"git.torproject.org/pluggable-transports/snowflake.git/v2/common/encapsulation"
	"git.torproject.org/pluggable-transports/snowflake.git/v2/common/turbotunnel"
	"git.torproject.org/pluggable-transports/snowflake.git/v2/common/websocketconn"
	en "git.torproject.org/pluggable-transports/snowflake.git/v2/verifenum"
	"github.com/gorilla/websocket"
	"github.com/xtaci/kcp-go/v5"
	"github.com/xtaci/smux"
)

const liveWait = 40 * time.Second

// ---- server side ---------------------------------------------------------------------------------

type acceptedConn struct {
	remoteLast string // RemoteAddr() asked again after the latest read
	remote     string
	tag        [8]byte
	gotTag     bool
	recv       []byte // everything after the tag
}

type t2server struct {
	ln   *SnowflakeListener
	port int
	mu   sync.Mutex
	acc  []*acceptedConn
}

// Ports: every shard process uses its own range (two processes must never talk to each other's
// listener: Transport.Listen does not report a failed bind), and a failed bind is recognised from the
// server's log.
var t2NextPort = 21000

type syncBuf struct {
	mu sync.Mutex
	b  bytes.Buffer
}

func (w *syncBuf) Write(p []byte) (int, error) {
	w.mu.Lock()
	defer w.mu.Unlock()
	if w.b.Len() > 1<<20 {
		w.b.Reset()
	}
	return w.b.Write(p)
}
func (w *syncBuf) String() string { w.mu.Lock(); defer w.mu.Unlock(); return w.b.String() }

var t2Log = &syncBuf{}

func startT2Server() (*t2server, error) {
	var lastErr error
	for try := 0; try < 20; try++ {
		port := t2NextPort
		t2NextPort++
		addr := &net.TCPAddr{IP: net.IPv4(127, 0, 0, 1), Port: port}
		probe, err := net.Listen("tcp", addr.String())
		if err != nil {
			lastErr = err
			continue // in use by something else
		}
		probe.Close()
		ln, err := NewSnowflakeServer(nil).Listen(addr)
		if err != nil {
			lastErr = err
			continue
		}
		ok := false
		for i := 0; i < 100; i++ {
			c, err := net.DialTimeout("tcp", addr.String(), time.Second)
			if err == nil {
				c.Close()
				ok = true
				break
			}
			time.Sleep(20 * time.Millisecond)
		}
		if !ok || strings.Contains(t2Log.String(), fmt.Sprintf("error in ListenAndServe: listen tcp 127.0.0.1:%d", port)) {
			ln.Close()
			lastErr = fmt.Errorf("port %d: bind failed or no answer", port)
			continue
		}
		s := &t2server{ln: ln, port: port}
		go s.acceptLoop()
		return s, nil
	}
	return nil, lastErr
}

// The bridge behind the server: reads an 8-byte tag, then echoes every byte XOR 0x5a.
func (s *t2server) acceptLoop() {
	for {
		c, err := s.ln.Accept()
		if err != nil {
			return
		}
		a := &acceptedConn{}
		if ra := c.RemoteAddr(); ra != nil {
			a.remote = ra.String()
		} else {
			a.remote = "<nil>"
		}
		s.mu.Lock()
		s.acc = append(s.acc, a)
		s.mu.Unlock()
		go func() {
			defer c.Close()
			var tag [8]byte
			if _, err := io.ReadFull(c, tag[:]); err != nil {
				return
			}
			s.mu.Lock()
			a.tag, a.gotTag = tag, true
			s.mu.Unlock()
			buf := make([]byte, 16384)
			for {
				n, err := c.Read(buf)
				last := "<nil>"
				if ra := c.RemoteAddr(); ra != nil {
					last = ra.String()
				}
				if n > 0 {
					s.mu.Lock()
					a.recv = append(a.recv, buf[:n]...)
					a.remoteLast = last
					s.mu.Unlock()
					out := make([]byte, n)
					for i := range out {
						out[i] = buf[i] ^ 0x5a
					}
					if _, werr := c.Write(out); werr != nil {
						return
					}
				}
				if err != nil {
					return
				}
			}
		}()
	}
}

func (s *t2server) snapshot() []acceptedConn {
	s.mu.Lock()
	defer s.mu.Unlock()
	out := make([]acceptedConn, len(s.acc))
	for i, a := range s.acc {
		out[i] = acceptedConn{remote: a.remote, remoteLast: a.remoteLast, tag: a.tag, gotTag: a.gotTag, recv: append([]byte(nil), a.recv...)}
	}
	return out
}

// ---- client side: carriers and a packet conn that spreads KCP packets over them ------------------

type carrier struct {
	conn       *websocketconn.Conn
	closed     chan struct{}
	readerDone chan struct{} // the stream from the server ended (closed by attach's reader)
	once       sync.Once
}

func (c *carrier) close() {
	c.once.Do(func() {
		close(c.closed)
		c.conn.Close()
	})
}

// dialCarrier opens a WebSocket to the server and writes prefix (normally token + ClientID).
func (s *t2server) dialCarrier(clientIP string, prefix []byte) (*carrier, error) {
	u := fmt.Sprintf("ws://127.0.0.1:%d/", s.port)
	if clientIP != "\x00none" {
		u += "?client_ip=" + urlEscape(clientIP)
	}
	d := websocket.Dialer{HandshakeTimeout: 20 * time.Second}
	ws, _, err := d.Dial(u, nil)
	if err != nil {
		return nil, err
	}
	// the prefix is written synchronously on the raw connection (websocketconn's Write only hands the bytes
	// to a goroutine; a carrier closed right afterwards might never send them)
	if len(prefix) > 0 {
		if err := ws.WriteMessage(websocket.BinaryMessage, prefix); err != nil {
			ws.Close()
			return nil, err
		}
	}
	c := &carrier{conn: websocketconn.New(ws), closed: make(chan struct{}), readerDone: make(chan struct{})}
	return c, nil
}

func urlEscape(s string) string {
	var b strings.Builder
	for i := 0; i < len(s); i++ {
		ch := s[i]
		if ch >= 'a' && ch <= 'z' || ch >= 'A' && ch <= 'Z' || ch >= '0' && ch <= '9' || ch == '.' || ch == '-' {
			b.WriteByte(ch)
		} else {
			fmt.Fprintf(&b, "%%%02X", ch)
		}
	}
	return b.String()
}

// cliPC is the client's net.PacketConn: outgoing packets are encapsulated onto the carriers chosen
// by pick; packets decapsulated from any carrier are delivered to ReadFrom.
type cliPC struct {
	mu       sync.Mutex
	carriers []*carrier
	recv     chan []byte
	closed   chan struct{}
	once     sync.Once
	sent     int                    // packets handed to WriteTo so far
	onSend   func(pc *cliPC, n int) // called with mu held before packet number n (1-based) is written
	pick     func(n int, k int) int // which of the k live carriers takes packet n
	foreign  func(p []byte) bool    // optional: reports a downstream packet that cannot belong to this session
	// afterFirstEcho, if set, is called by the session once it has read the echo of the first half of its payload (without mu held)
	afterFirstEcho func()
}

func newCliPC() *cliPC {
	return &cliPC{recv: make(chan []byte, 4096), closed: make(chan struct{})}
}

func (pc *cliPC) attach(c *carrier) {
	pc.carriers = append(pc.carriers, c)
	go func() {
		defer close(c.readerDone)
		for {
			p, err := encapsulation.ReadData(c.conn)
			if err != nil {
				return
			}
			select {
			case pc.recv <- p:
			case <-pc.closed:
				return
			}
		}
	}()
}

func (pc *cliPC) live() []*carrier {
	var out []*carrier
	for _, c := range pc.carriers {
		select {
		case <-c.closed:
		default:
			out = append(out, c)
		}
	}
	return out
}

func (pc *cliPC) WriteTo(p []byte, _ net.Addr) (int, error) {
	select {
	case <-pc.closed:
		return 0, io.ErrClosedPipe
	default:
	}
	pc.mu.Lock()
	defer pc.mu.Unlock()
	pc.sent++
	if pc.onSend != nil {
		pc.onSend(pc, pc.sent)
	}
	l := pc.live()
	if len(l) == 0 {
		return len(p), nil // no carrier: the packet is lost, KCP retransmits
	}
	i := 0
	if pc.pick != nil {
		i = pc.pick(pc.sent, len(l)) % len(l)
	} else {
		i = len(l) - 1
	}
	var buf bytes.Buffer
	encapsulation.WriteData(&buf, p)
	l[i].conn.Write(buf.Bytes()) // an error means this carrier is gone: packet lost
	return len(p), nil
}

func (pc *cliPC) ReadFrom(p []byte) (int, net.Addr, error) {
	select {
	case b := <-pc.recv:
		return copy(p, b), t2addr{}, nil
	case <-pc.closed:
		return 0, nil, io.ErrClosedPipe
	}
}

func (pc *cliPC) Close() error {
	pc.once.Do(func() { close(pc.closed) })
	pc.mu.Lock()
	defer pc.mu.Unlock()
	for _, c := range pc.carriers {
		c.close()
	}
	return nil
}
func (pc *cliPC) LocalAddr() net.Addr                { return t2addr{} }
func (pc *cliPC) SetDeadline(t time.Time) error      { return nil }
func (pc *cliPC) SetReadDeadline(t time.Time) error  { return nil }
func (pc *cliPC) SetWriteDeadline(t time.Time) error { return nil }

type t2addr struct{}

func (t2addr) Network() string { return "t2" }
func (t2addr) String() string  { return "t2" }

// ---- one client session --------------------------------------------------------------------------

// schedule says how a session's carriers come and go; hooks run with pc.mu held, before packet n.
type schedule struct {
	name string
	// setup opens the initial carrier(s); returns the client address the accepted connection must carry
	run func(s *t2server, pc *cliPC, prefix []byte, ip1, ip2 string) (wantIP string, err error)
}

// scheduleWait: liveness bound of a session running the schedule of that name (default liveWait).
var scheduleWait = map[string]time.Duration{}

func mustDial(s *t2server, ip string, prefix []byte) (*carrier, error) {
	return s.dialCarrier(ip, prefix)
}

func schedules() []schedule {
	seqCut := func(k int) schedule {
		return schedule{fmt.Sprintf("sequential-cut-after-%d", k), func(s *t2server, pc *cliPC, prefix []byte, ip1, ip2 string) (string, error) {
			c, err := mustDial(s, ip1, prefix)
			if err != nil {
				return "", err
			}
			pc.attach(c)
			pc.onSend = func(pc *cliPC, n int) {
				if n == k+1 {
					pc.carriers[0].close()
					if c2, err := mustDial(s, ip1, prefix); err == nil {
						pc.attach(c2)
					}
				}
			}
			return ip1, nil
		}}
	}
	return []schedule{
		{"single", func(s *t2server, pc *cliPC, prefix []byte, ip1, ip2 string) (string, error) {
			c, err := mustDial(s, ip1, prefix)
			if err != nil {
				return "", err
			}
			pc.attach(c)
			return ip1, nil
		}},
		seqCut(1), seqCut(2), seqCut(5),
		{"overlap-alternate-then-drop-first", func(s *t2server, pc *cliPC, prefix []byte, ip1, ip2 string) (string, error) {
			c1, err := mustDial(s, ip1, prefix)
			if err != nil {
				return "", err
			}
			c2, err := mustDial(s, ip1, prefix)
			if err != nil {
				return "", err
			}
			pc.attach(c1)
			pc.attach(c2)
			pc.pick = func(n, k int) int { return n }
			pc.onSend = func(pc *cliPC, n int) {
				if n == 9 {
					pc.carriers[0].close()
				}
			}
			return ip1, nil
		}},
		{"gap-1.5s-after-3", func(s *t2server, pc *cliPC, prefix []byte, ip1, ip2 string) (string, error) {
			c, err := mustDial(s, ip1, prefix)
			if err != nil {
				return "", err
			}
			pc.attach(c)
			pc.onSend = func(pc *cliPC, n int) {
				if n == 4 {
					pc.carriers[0].close()
					go func() {
						time.Sleep(1500 * time.Millisecond)
						if c2, err := mustDial(s, ip1, prefix); err == nil {
							pc.mu.Lock()
							pc.attach(c2)
							pc.mu.Unlock()
						}
					}()
				}
			}
			return ip1, nil
		}},
		{"idle-first-carrier-with-other-address", func(s *t2server, pc *cliPC, prefix []byte, ip1, ip2 string) (string, error) {
			// a first carrier presents the ClientID from ip2 and ends before any packet; the session
			// is established over a later carrier from ip1: the accepted connection carries ip1
			c0, err := mustDial(s, ip2, prefix)
			if err != nil {
				return "", err
			}
			c0.close()
			time.Sleep(1500 * time.Millisecond) // the server has long dealt with the first carrier when the second one arrives
			c, err := mustDial(s, ip1, prefix)
			if err != nil {
				return "", err
			}
			pc.attach(c)
			return ip1, nil
		}},
		{"later-carrier-from-other-address", func(s *t2server, pc *cliPC, prefix []byte, ip1, ip2 string) (string, error) {
			// the session is established over a carrier from ip1; after the first echo it is carried by a
			// carrier that presents ip2: the accepted connection keeps the address of its establishment
			c, err := mustDial(s, ip1, prefix)
			if err != nil {
				return "", err
			}
			pc.attach(c)
			// the switch happens once the client has read the first echoed bytes: by then the bridge has
			// accepted the connection and read its address (real time does not decide the order)
			pc.afterFirstEcho = func() {
				pc.mu.Lock()
				defer pc.mu.Unlock()
				pc.carriers[0].close()
				if c2, err := mustDial(s, ip2, prefix); err == nil {
					pc.attach(c2)
				}
			}
			return ip1, nil
		}},
		{"cut-inside-a-packet", func(s *t2server, pc *cliPC, prefix []byte, ip1, ip2 string) (string, error) {
			c, err := mustDial(s, ip1, prefix)
			if err != nil {
				return "", err
			}
			pc.attach(c)
			pc.onSend = func(pc *cliPC, n int) {
				if n == 3 {
					// half of an encapsulated packet, then the carrier ends
					pc.carriers[0].conn.Write([]byte{0x28, 1, 2, 3, 4, 5})
					pc.carriers[0].close()
					if c2, err := mustDial(s, ip1, prefix); err == nil {
						pc.attach(c2)
					}
				}
			}
			return ip1, nil
		}},
	}
}

type sessResult struct {
	tag      [8]byte
	payload  []byte
	wantIP   string
	infraErr error
	failSig  string
	failMsg  string
	timedOut bool
}

func payloadFor(tag [8]byte, n int) []byte {
	b := make([]byte, n)
	x := binary.BigEndian.Uint32(tag[4:])
	for i := range b {
		x = x*1664525 + 1013904223
		b[i] = byte(x >> 24)
	}
	return b
}

func openClientStack(pc net.PacketConn) (*kcp.UDPSession, *smux.Session, error) {
	conn, err := kcp.NewConn2(t2addr{}, nil, 0, 0, pc)
	if err != nil {
		return nil, nil, err
	}
	conn.SetStreamMode(true)
	conn.SetWindowSize(WindowSize, WindowSize)
	conn.SetNoDelay(0, 0, 0, 1)
	cfg := smux.DefaultConfig()
	cfg.Version = 2
	cfg.KeepAliveTimeout = 10 * time.Minute
	cfg.MaxStreamBuffer = StreamSize
	sess, err := smux.Client(conn, cfg)
	if err != nil {
		conn.Close()
		return nil, nil, err
	}
	return conn, sess, nil
}

// runSession drives one client session (one ClientID) through a schedule and checks the echo.
func runSession(s *t2server, sc schedule, tag [8]byte, size int, ip1, ip2 string) *sessResult {
	return runSessionAt(s, sc, tag, size, ip1, ip2, nil, nil)
}

// runSessionAt: ready is signalled once the carriers are up; the client stack starts when start is closed.
func runSessionAt(s *t2server, sc schedule, tag [8]byte, size int, ip1, ip2 string, ready *sync.WaitGroup, start <-chan struct{}) *sessResult {
	res := &sessResult{tag: tag, payload: payloadFor(tag, size)}
	var id turbotunnel.ClientID
	copy(id[:], tag[:])
	prefix := append(append([]byte{}, turbotunnel.Token[:]...), id[:]...)
	pc := newCliPC()
	defer pc.Close()
	pc.mu.Lock()
	want, err := sc.run(s, pc, prefix, ip1, ip2)
	pc.mu.Unlock()
	if ready != nil {
		ready.Done()
	}
	if start != nil {
		<-start
	}
	if err != nil {
		res.infraErr = err
		return res
	}
	res.wantIP = want
	conn, sess, err := openClientStack(pc)
	if err != nil {
		res.infraErr = err
		return res
	}
	defer conn.Close()
	defer sess.Close()
	st, err := sess.OpenStream()
	if err != nil {
		res.infraErr = err
		return res
	}
	// smux's Stream.Close waits without a deadline for room to send its FIN: bounded here, the session
	// and the packet conn are closed right after
	defer func() {
		closed := make(chan struct{})
		go func() { st.Close(); close(closed) }()
		select {
		case <-closed:
		case <-time.After(2 * time.Second):
		}
	}()
	done := make(chan struct{})
	got := make([]byte, len(res.payload))
	var rerr, werr error
	go func() {
		defer close(done)
		if pc.afterFirstEcho != nil && len(res.payload) >= 2 {
			// two phases: first half and its echo, the hook, the rest
			h := len(res.payload) / 2
			if _, werr = st.Write(append(append([]byte{}, tag[:]...), res.payload[:h]...)); werr != nil {
				return
			}
			if _, rerr = io.ReadFull(st, got[:h]); rerr != nil {
				return
			}
			pc.afterFirstEcho()
			wdone := make(chan struct{})
			go func() {
				defer close(wdone)
				_, werr = st.Write(res.payload[h:])
			}()
			_, rerr = io.ReadFull(st, got[h:])
			<-wdone
			return
		}
		wdone := make(chan struct{})
		go func() {
			defer close(wdone)
			_, werr = st.Write(append(append([]byte{}, tag[:]...), res.payload...))
		}()
		_, rerr = io.ReadFull(st, got)
		<-wdone
	}()
	select {
	case <-done:
	case <-time.After(max(liveWait, scheduleWait[sc.name])):
		res.timedOut = true
		return res
	}
	if werr != nil || rerr != nil {
		res.failSig, res.failMsg = "session:stream-error", fmt.Sprintf("write error %v, read error %v", werr, rerr)
		return res
	}
	for i := range got {
		if got[i] != res.payload[i]^0x5a {
			res.failSig, res.failMsg = "session:wrong-echo", fmt.Sprintf("echo differs from the payload at offset %d of %d", i, len(got))
			return res
		}
	}
	return res
}

// judgeAccepted compares what the bridge side saw with the sessions that were run.
func judgeAccepted(r *en.R, s *t2server, sessions []*sessResult, desc interface{}) {
	acc := s.snapshot()
	byTag := map[[8]byte][]acceptedConn{}
	allComplete := true
	for _, x := range sessions {
		allComplete = allComplete && x.infraErr == nil && !x.timedOut && x.failSig == ""
	}
	for _, a := range acc {
		if !a.gotTag && !allComplete {
			continue // a session that did not finish may have been accepted without its first bytes having arrived yet
		}
		if !a.gotTag {
			r.Fail("accept:connection-without-session", fmt.Sprintf("the listener produced a connection (client address %q) that never carried a session's first bytes", a.remote), desc)
			continue
		}
		byTag[a.tag] = append(byTag[a.tag], a)
	}
	known := map[[8]byte]*sessResult{}
	for _, x := range sessions {
		known[x.tag] = x
	}
	for tag, l := range byTag {
		x, ok := known[tag]
		if !ok {
			r.Fail("accept:foreign-connection", fmt.Sprintf("accepted connection with a tag no session sent: %x", tag), desc)
			continue
		}
		if len(l) != 1 {
			r.Fail("accept:not-exactly-one", fmt.Sprintf("session %x surfaced as %d accepted connections", tag, len(l)), desc)
		}
		for _, a := range l {
			complete := x.infraErr == nil && !x.timedOut && x.failSig == ""
			if !complete {
				// the client did not see the whole echo: the bridge may have read only part, never other bytes
				if !bytes.HasPrefix(x.payload, a.recv) {
					r.Fail("accept:wrong-bytes", fmt.Sprintf("the bridge read %d bytes for session %x that are not a prefix of what the client wrote", len(a.recv), tag), desc)
				}
			} else if !bytes.Equal(a.recv, x.payload) {
				d := 0
				for d < len(a.recv) && d < len(x.payload) && a.recv[d] == x.payload[d] {
					d++
				}
				r.Fail("accept:wrong-bytes", fmt.Sprintf("the bridge read %d bytes for session %x, the client wrote %d; first difference at %d", len(a.recv), tag, len(x.payload), d), desc)
			}
			// what the bridge must be told for the client_ip values the harness uses (written out, not
			// computed by the sanitiser under test)
			wantAddr := map[string]string{"1.2.3.4": "1.2.3.4:1", "9.9.9.9": "9.9.9.9:1", "2001:db8::7": "[2001:db8::7]:1", "8.8.8.8": "8.8.8.8:1", "7.7.7.7": "7.7.7.7:1", "6.6.6.6": "6.6.6.6:1", "2001:db8::9": "[2001:db8::9]:1",
				"5.6.7.8": "5.6.7.8:1", "\x00none": "", "0.0.0.0": "", "not-an-ip": "", "": ""}[x.wantIP]
			if strings.HasPrefix(x.wantIP, "10.9.") {
				wantAddr = x.wantIP + ":1"
			}
			if a.remote != wantAddr {
				r.Fail("accept:wrong-client-address", fmt.Sprintf("session %x was accepted with client address %q, its carrier presented client_ip=%q (%q)", tag, a.remote, x.wantIP, wantAddr), desc)
			} else if a.remoteLast != "" && a.remoteLast != wantAddr {
				r.Fail("accept:client-address-changed-later", fmt.Sprintf("session %x was accepted with client address %q, but the same connection later reports %q", tag, a.remote, a.remoteLast), desc)
			}
		}
	}
	for _, x := range sessions {
		if x.infraErr == nil && !x.timedOut && x.failSig == "" && len(byTag[x.tag]) == 0 {
			r.Fail("accept:missing", fmt.Sprintf("session %x completed its echo but the listener shows no connection for it", x.tag), desc)
		}
	}
}

// ---- the test ------------------------------------------------------------------------------------

// t2Forgotten is set by c18t2_test.go when that file is part of the build.
var t2Forgotten func(r *en.R, nextTag func() [8]byte, logf func(string, ...interface{}))

func TestVerifEnumC05T2(t *testing.T) {
	r := en.New()
	defer r.Done()
	runtime.GOMAXPROCS(4)
	log.SetOutput(t2Log)
	if shard, _ := r.Shard(); true {
		t2NextPort = 21000 + 600*shard
	}
	thorough := r.Thorough()
	logf := func(format string, a ...interface{}) { fmt.Fprintf(os.Stderr, "[c05t2] "+format+"\n", a...) }

	newServer := func() *t2server {
		s, err := startT2Server()
		if err != nil {
			r.Incomplete("cannot start the server on a loopback port: " + err.Error())
			return nil
		}
		return s
	}
	tagFor := func(n int) [8]byte {
		var tag [8]byte
		shard, _ := r.Shard()
		binary.BigEndian.PutUint32(tag[:4], uint32(0xC0500000+shard))
		binary.BigEndian.PutUint32(tag[4:], uint32(n))
		return tag
	}
	tagN := 0
	nextTag := func() [8]byte { tagN++; return tagFor(tagN) }

	only := os.Getenv("VERIF_T2_ONLY") // "" = all sections; C18 runs the sessions section alone
	// A. token ------------------------------------------------------------------------------------
	r.Begin("token", "carriers whose first 8 bytes are not the turbotunnel token: each of the 64 single-bit flips, all-zero, the token reversed, the token shifted by one byte, every proper prefix (then the carrier ends), each followed by a valid ClientID and a complete client stack (KCP + smux + stream write) trying to establish a session over it: the server must end the carrier and the listener must not produce a connection (judged after a valid session on the same listener has been accepted)")
	type tokVariant struct {
		name string
		b    []byte
		full bool
	}
	var variants []tokVariant
	for bit := 0; bit < 64; bit++ {
		b := append([]byte{}, turbotunnel.Token[:]...)
		b[bit/8] ^= 1 << (bit % 8)
		variants = append(variants, tokVariant{fmt.Sprintf("bitflip-%d", bit), b, true})
	}
	variants = append(variants, tokVariant{"zeros", make([]byte, 8), true})
	rev := make([]byte, 8)
	for i := range rev {
		rev[i] = turbotunnel.Token[7-i]
	}
	variants = append(variants, tokVariant{"reversed", rev, true})
	variants = append(variants, tokVariant{"shifted", append([]byte{0}, turbotunnel.Token[:7]...), true})
	for n := 0; n < 8; n++ {
		variants = append(variants, tokVariant{fmt.Sprintf("prefix-%d", n), append([]byte{}, turbotunnel.Token[:n]...), false})
	}
	if s := newServer(); s != nil && (only == "" || only == "token") {
		var bad []*sessResult
		for _, v := range variants {
			if !r.Mine() {
				continue
			}
			if r.TimeUp() {
				break
			}
			r.Case("tok|"+v.name, true)
			tag := nextTag()
			if !v.full {
				// proper prefix of the token, then the carrier ends
				c, err := s.dialCarrier("1.2.3.4", v.b)
				if err != nil {
					r.Incomplete("dial: " + err.Error())
					continue
				}
				c.close()
				continue
			}
			var id turbotunnel.ClientID
			copy(id[:], tag[:])
			prefix := append(append([]byte{}, v.b...), id[:]...)
			c, err := s.dialCarrier("1.2.3.4", prefix)
			if err != nil {
				r.Incomplete("dial: " + err.Error())
				continue
			}
			pc := newCliPC()
			pc.mu.Lock()
			pc.attach(c)
			pc.mu.Unlock()
			ended := c.readerDone // the server ended the carrier: the reader attached above sees the end of the stream
			conn, sess, err := openClientStack(pc)
			if err == nil {
				go func() {
					st, err := sess.OpenStream()
					if err == nil {
						st.Write(append(append([]byte{}, tag[:]...), 1, 2, 3))
					}
				}()
			}
			bad = append(bad, &sessResult{tag: tag})
			// give the server the chance to (wrongly) accept: wait until it ended the carrier
			select {
			case <-ended:
			case <-time.After(liveWait):
				r.Fail("token:carrier-not-closed", fmt.Sprintf("a carrier starting with %x instead of the token was still open after %v", v.b, liveWait), v.name)
			}
			if sess != nil {
				sess.Close()
			}
			if conn != nil {
				conn.Close()
			}
			pc.Close()
		}
		// barrier: a valid session, then judge
		good := runSession(s, schedules()[0], nextTag(), 100, "5.6.7.8", "")
		switch {
		case good.infraErr != nil:
			r.Incomplete("valid session: " + good.infraErr.Error())
		case good.timedOut:
			r.Fail("session:no-progress", "a plain valid session did not complete after the rejected carriers", "token section barrier")
		case good.failSig != "":
			r.Fail(good.failSig, good.failMsg, "token section barrier")
		}
		acc := s.snapshot()
		for _, a := range acc {
			if !a.gotTag || a.tag != good.tag {
				r.Fail("token:connection-produced", fmt.Sprintf("the listener produced a connection (tag %x, client address %q) although only carriers without the token were offered", a.tag, a.remote), "token section")
			}
		}
		judgeAccepted(r, s, []*sessResult{good}, "token section barrier")
		s.ln.Close()
	}

	// B. sessions across carriers -------------------------------------------------------------------
	scs := schedules()
	sizes := []int{1, 3000, 200000}
	if thorough {
		sizes = []int{1, 1399, 3000, 200000, 2000000} // never 0: only the echo tells the client that the bridge side has read and recorded the bytes
	}
	r.Begin("sessions", fmt.Sprintf("real client stacks (kcp-go + smux) over harness-controlled WebSocket carriers against the real listener: 1 session x %d carrier schedules x payload sizes %v; 2 and 3 concurrent sessions with distinct ClientIDs and client addresses over all pairs (a sample of triples) of schedules; oracle: each session surfaces as exactly one accepted connection, the bridge reads exactly the client's bytes, the echo is exact, the connection carries the client address of the carrier that established it, no other connection appears", len(scs), sizes))
	type scenario struct {
		name  string
		sched []int
		size  int
		rot   int // which client addresses the sessions present (rotation of the list)
	}
	var scen []scenario
	// a session that idles (carrier attached) until 27.5 s after it began, then has no carrier for 36 s (less
	// than the one-minute retention) while the application writes, and continues on the next carrier as the
	// same connection.  The gap covers the span from 30 s to 60 s of the session's life: keep-alive windows
	// shorter than the retention time show there.  On its own (not combined with the others): it takes over a
	// minute of real time.
	scheduleWait["idle-27s-then-gap-36s"] = liveWait + 90*time.Second
	longGap := schedule{"idle-27s-then-gap-36s", func(s *t2server, pc *cliPC, prefix []byte, ip1, ip2 string) (string, error) {
		c, err := mustDial(s, ip1, prefix)
		if err != nil {
			return "", err
		}
		pc.attach(c)
		t0 := time.Now()
		pc.afterFirstEcho = func() {
			time.Sleep(time.Until(t0.Add(27500 * time.Millisecond)))
			pc.mu.Lock()
			pc.carriers[0].close()
			pc.mu.Unlock()
			go func() {
				time.Sleep(36 * time.Second)
				if c2, err := mustDial(s, ip1, prefix); err == nil {
					pc.mu.Lock()
					pc.attach(c2)
					pc.mu.Unlock()
				}
			}()
		}
		return ip1, nil
	}}
	allScs := append(append([]schedule{}, scs...), longGap)
	scen = append(scen, scenario{"1x" + longGap.name + "/3000", []int{len(scs)}, 3000, 0})
	for i := range scs {
		for _, sz := range sizes {
			scen = append(scen, scenario{fmt.Sprintf("1x%s/%d", scs[i].name, sz), []int{i}, sz, i + len(scen)})
		}
	}
	for i := range scs {
		for j := range scs {
			scen = append(scen, scenario{fmt.Sprintf("2x%s+%s", scs[i].name, scs[j].name), []int{i, j}, 3000, i + j})
		}
	}
	for i := range scs {
		scen = append(scen, scenario{fmt.Sprintf("3x%s+%s+%s", scs[i].name, scs[(i+1)%len(scs)].name, scs[(i+3)%len(scs)].name), []int{i, (i + 1) % len(scs), (i + 3) % len(scs)}, 3000, i})
	}
	ips := [][2]string{{"1.2.3.4", "9.9.9.9"}, {"2001:db8::7", "8.8.8.8"}, {"\x00none", "7.7.7.7"}, {"0.0.0.0", "6.6.6.6"}, {"not-an-ip", "2001:db8::9"}}
	runScenario := func(sc scenario) (infra error, timeouts int, fails []*sessResult, s *t2server, sessions []*sessResult) {
		s, err := startT2Server()
		if err != nil {
			return err, 0, nil, nil, nil
		}
		var wg sync.WaitGroup
		sessions = make([]*sessResult, len(sc.sched))
		for k, si := range sc.sched {
			k, si := k, si
			tag := nextTag()
			wg.Add(1)
			go func() {
				defer wg.Done()
				ip := ips[(k+sc.rot)%len(ips)]
				sessions[k] = runSession(s, allScs[si], tag, sc.size, ip[0], ip[1])
			}()
		}
		wg.Wait()
		for _, x := range sessions {
			switch {
			case x.infraErr != nil:
				infra = x.infraErr
			case x.timedOut:
				timeouts++
			case x.failSig != "":
				fails = append(fails, x)
			}
		}
		return
	}
	for _, sc := range scen {
		if only != "" && only != "sessions" {
			break
		}
		if !r.Mine() {
			continue
		}
		if r.TimeUp() {
			break
		}
		r.Case("sess|"+sc.name, true)
		infra, timeouts, fails, s, sessions := runScenario(sc)
		if s == nil {
			r.Incomplete("cannot start the server on a loopback port: " + infra.Error())
			break
		}
		if timeouts > 0 {
			// liveness: believe it only if it repeats three times alone
			s.ln.Close()
			rep := 0
			for i := 0; i < 3; i++ {
				var s2 *t2server
				_, to, _, s2, _ := runScenario(sc)
				if s2 != nil {
					s2.ln.Close()
				}
				if to > 0 {
					rep++
				}
			}
			if rep == 3 {
				r.Fail("session:no-progress", fmt.Sprintf("a session did not complete within its bound (%v, longer for schedules with long gaps) although a working carrier was available (4 runs)", liveWait), sc.name)
			} else {
				logf("scenario %s timed out once, then completed on re-run", sc.name)
			}
			continue
		}
		if infra != nil {
			r.Incomplete("loopback trouble: " + infra.Error())
			s.ln.Close()
			continue
		}
		for _, f := range fails {
			r.Fail(f.failSig, f.failMsg, sc.name)
		}
		judgeAccepted(r, s, sessions, sc.name)
		s.ln.Close()
	}
	// B2. a session whose ClientID the address map has already forgotten: lives in c18t2_test.go (it swaps
	// an unexported package variable, which the scenarios of this file do not touch, so that this file builds
	// against trees that reorganise those internals)
	if t2Forgotten != nil && (only == "" || only == "sessions") && r.Mine() {
		t2Forgotten(r, nextTag, logf)
	}

	// C. bursts -----------------------------------------------------------------------------------
	// Many sessions whose first packets reach the listener at (nearly) the same moment: the accept
	// path then has several new KCP sessions pending at once.  Real time decides how close they
	// land, so this section is a systematic stress, not an enumeration; its oracles are the same
	// byte-and-count comparisons.
	burstK, burstRounds := 8, 6
	if thorough {
		burstRounds = 40
	}
	r.Begin("bursts", fmt.Sprintf("%d rounds (all shards together) of %d sessions with distinct ClientIDs whose carriers are set up first and whose client stacks are then released together, so that their first packets arrive together; same oracle as the sessions section", burstRounds, burstK))
	for round := 0; round < burstRounds; round++ {
		if only != "" && only != "bursts" {
			break
		}
		if !r.Mine() {
			continue
		}
		if r.TimeUp() {
			break
		}
		r.Case(fmt.Sprintf("burst|%d", round), true)
		runBurst := func() (infra error, timeouts int, fails []*sessResult, s *t2server, sessions []*sessResult) {
			s, err := startT2Server()
			if err != nil {
				return err, 0, nil, nil, nil
			}
			var ready, wg sync.WaitGroup
			start := make(chan struct{})
			sessions = make([]*sessResult, burstK)
			for k := 0; k < burstK; k++ {
				k := k
				tag := nextTag()
				ready.Add(1)
				wg.Add(1)
				go func() {
					defer wg.Done()
					sessions[k] = runSessionAt(s, scs[0], tag, 500, fmt.Sprintf("10.9.%d.%d", round%250, k+1), "", &ready, start)
				}()
			}
			ready.Wait()
			close(start)
			wg.Wait()
			for _, x := range sessions {
				switch {
				case x.infraErr != nil:
					infra = x.infraErr
				case x.timedOut:
					timeouts++
				case x.failSig != "":
					fails = append(fails, x)
				}
			}
			return
		}
		desc := fmt.Sprintf("burst round %d of %d simultaneous sessions", round, burstK)
		infra, timeouts, fails, s, sessions := runBurst()
		if s == nil {
			r.Incomplete("cannot start the server on a loopback port: " + infra.Error())
			break
		}
		if timeouts > 0 {
			// what the bridge side saw is judged at once (bytes and counts); the missing progress itself
			// is believed only if it repeats
			judgeAccepted(r, s, sessions, desc)
			s.ln.Close()
			rep := 0
			for i := 0; i < 3; i++ {
				_, to, _, s2, _ := runBurst()
				if s2 != nil {
					s2.ln.Close()
				}
				if to > 0 {
					rep++
				}
			}
			if rep == 3 {
				r.Fail("session:no-progress", fmt.Sprintf("in every one of 4 bursts of %d simultaneous sessions some session did not complete within %v", burstK, liveWait), desc)
			}
			continue
		}
		if infra != nil {
			r.Incomplete("loopback trouble: " + infra.Error())
			s.ln.Close()
			continue
		}
		for _, f := range fails {
			r.Fail(f.failSig, f.failMsg, desc)
		}
		judgeAccepted(r, s, sessions, desc)
		s.ln.Close()
	}

	names := make([]string, 0, len(scs))
	for _, s := range scs {
		names = append(names, s.name)
	}
	sort.Strings(names)
	if r.Shard0() {
		r.Sample(map[string]interface{}{"carrier_schedules": names, "token_variants": len(variants), "scenarios": len(scen)})
	}
}
