//go:build go1.21

package event

// C07, event-string clause (DESIGN.md §3 C07): the client's pluggable-transport log does not go
// through the LogScrubber; it relies on Scrub inside the String() methods of the events that carry
// an error.  Every such event must render without an injected address.

import (
	"errors"
	"fmt"
	"testing"

	c07 "git.torproject.org/pluggable-transports/snowflake.git/v2/verifc07"
	en "git.torproject.org/pluggable-transports/snowflake.git/v2/verifenum"
)

type renderer struct {
	name string
	f    func(err error) string
}

// Every event type of interface.go that has an Error field.
var renderers = []renderer{
	{"EventOnOfferCreated", func(err error) string { return EventOnOfferCreated{Error: err}.String() }},
	{"EventOnBrokerRendezvous", func(err error) string { return EventOnBrokerRendezvous{Error: err}.String() }},
	{"EventOnSnowflakeConnectionFailed", func(err error) string { return EventOnSnowflakeConnectionFailed{Error: err}.String() }},
}

func TestVerifEnumC07Event(t *testing.T) {
	r := en.New()
	defer r.Done()
	fails := &c07.Fails{}
	defer fails.Flush(r.Fail)
	th := r.Thorough()

	red := c07.Reduced(0)
	left, right := c07.LeftContexts(th), c07.RightContexts(th)
	check := func(rd renderer, cl *c07.Classifier, ln c07.Line) {
		text := ln.Text()
		out := cl.Scrub(text)
		r.Case("e|"+rd.name+"|"+text, true)
		for _, sv := range c07.Survivors(out, ln.Addrs) {
			fails.Add(cl.Classify(ln, sv), fmt.Sprintf("%s{Error: %q}.String() = %q: the address %q is still readable as %q", rd.name, text, out, ln.Addrs[sv.Index].Text, sv.Run),
				text, map[string]interface{}{"output": out, "address": ln.Addrs[sv.Index].Text, "path": rd.name + ".String()"})
		}
	}

	r.Begin("event-strings", fmt.Sprintf("%d event types with an Error x error texts: %d representative spellings x %d left x %d right contexts, and ordered pairs of distinct IPs x joiners {space, tab, ', ', ',', ' -> ', ';'} x {'', 'x '} x {'', ': y'}", len(renderers), len(red), len(left), len(right)))
	for _, rd := range renderers {
		rd := rd
		cl := &c07.Classifier{Scrub: func(s string) string { return rd.f(errors.New(s)) }}
		for _, a := range red {
			if !r.Mine() {
				continue
			}
			if r.TimeUp() {
				break
			}
			for _, l := range left {
				for _, rc := range right {
					if !c07.Compatible(l, a, rc) {
						continue
					}
					check(rd, cl, c07.Line{L: l, Addrs: []c07.Addr{a}, R: rc})
				}
			}
			for _, b := range red {
				as := []c07.Addr{a, b}
				if !c07.DistinctIPs(as) {
					continue
				}
				for _, j := range c07.Joiners {
					if j.Text == "\n" || !c07.Compatible(left[0], a, j) {
						continue
					}
					for _, l := range []c07.Ctx{left[0], left[1]} {
						for _, rc := range []c07.Ctx{right[0], right[4]} {
							if !c07.Compatible(l, b, rc) {
								continue
							}
							check(rd, cl, c07.Line{L: l, Addrs: as, Joins: []c07.Ctx{j}, R: rc})
						}
					}
				}
			}
		}
	}

}
