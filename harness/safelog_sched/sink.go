//go:build go1.21

package safelog

// Instrumented add-file of the C07 concurrent-writers harness: a log sink that, like a pipe or a
// contended file, can be descheduled between being handed the bytes and consuming them.

import "sync"

type verifSink struct {
	mu     sync.Mutex
	writes [][]byte
}

func (s *verifSink) Write(p []byte) (int, error) {
	// two scheduling points before the sink consumes p
	s.mu.Lock()
	s.mu.Unlock()
	cp := make([]byte, len(p))
	copy(cp, p)
	s.mu.Lock()
	s.writes = append(s.writes, cp)
	s.mu.Unlock()
	return len(p), nil
}
