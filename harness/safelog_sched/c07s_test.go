//go:build go1.21

package safelog

// C07, concurrent writers — two or three goroutines write whole log lines (as log.Logger does: one
// Write per line, sometimes a line in two pieces by one writer) through ONE LogScrubber into a sink
// that may be descheduled before it consumes the bytes.  Explored without partial-order reduction
// (every interleaving of the synchronisation operations up to the preemption bound), because the
// failure to look for is a data race on the scrubber's buffer, which a reduction would assume away.

import (
	"bytes"
	"fmt"
	"sort"
	"strconv"
	"strings"
	"testing"
	"time"

	vs "git.torproject.org/pluggable-transports/snowflake.git/v2/verifvs"
)

var harnesses []*vs.Harness

func TestVerif(t *testing.T) { vs.Main(harnesses...) }

func cfgInt(x *vs.X, k string, def int) int {
	if v, ok := x.Cfg[k]; ok {
		if n, err := strconv.Atoi(v); err == nil {
			return n
		}
	}
	return def
}

// what one writer does: a list of Write calls
type writerScript struct {
	name   string
	chunks []string
}

var injected = []string{"203.0.113.77", "10.1.2.3", "2001:db8::1", "198.51.100.9"}

var scripts = []writerScript{
	{"plain", []string{"next poll\n"}},
	{"addr", []string{"client 203.0.113.77:44123 connected\n"}},
	{"two-lines-one-write", []string{"a 10.1.2.3\nb [2001:db8::1]:443 x\n"}},
	{"plain-then-addr", []string{"tick\n", "peer 198.51.100.9 left\n"}},
	{"addr-then-plain", []string{"peer 198.51.100.9 left\n", "tick\n"}},
	{"plain-plain", []string{"one\n", "two\n"}},
}

func init() {
	harnesses = append(harnesses, &vs.Harness{
		Name:    "c07-writers",
		Horizon: time.Minute,
		Body: func(x *vs.X) {
			n := cfgInt(x, "writers", 2)
			var pick []int
			for i := 0; i < n; i++ {
				pick = append(pick, vs.Choose("script", len(scripts)))
			}
			sink := &verifSink{}
			ls := &LogScrubber{Output: sink}
			var names []string
			for _, p := range pick {
				names = append(names, scripts[p].name)
			}
			x.User = &c07World{sink: sink, pick: pick}
			x.Outcome("writers[" + strings.Join(names, ",") + "]")
			for i, p := range pick {
				sc := scripts[p]
				vs.GoRole(fmt.Sprintf("writer%d", i), vs.RoleRequest, func() {
					for _, c := range sc.chunks {
						// the caller's buffer is reused after Write returns, as log.Logger does
						buf := []byte(c)
						k, err := ls.Write(buf)
						if err != nil || k != len(c) {
							x.Fail("scrubber", "writers:write-error", "Write(%q) = %d, %v", c, k, err)
						}
						for j := range buf {
							buf[j] = '#'
						}
					}
				})
			}
		},
		Check: func(x *vs.X) {
			w := x.User.(*c07World)
			var all []byte
			for i, p := range w.sink.writes {
				all = append(all, p...)
				if len(p) == 0 || p[len(p)-1] != '\n' {
					x.Fail("scrubber", "writers:partial-line-emitted", "sink write %d is not a sequence of complete lines: %q", i, p)
				}
			}
			for _, a := range injected {
				if bytes.Contains(all, []byte(a)) {
					x.Fail("scrubber", "writers:address-reaches-sink", "the sink received %q, which contains the address %s", all, a)
				}
			}
			if bytes.Contains(all, []byte("#")) {
				x.Fail("scrubber", "writers:caller-buffer-aliased", "the sink received bytes of a caller's buffer after Write had returned: %q", all)
			}
			// every line written arrives exactly once, scrubbed (writers emit whole lines per Write here, so
			// lines of different writers cannot be spliced)
			var want, got []string
			for _, p := range w.pick {
				for _, c := range scripts[p].chunks {
					for _, l := range strings.SplitAfter(c, "\n") {
						if l != "" {
							want = append(want, string(Scrub([]byte(l))))
						}
					}
				}
			}
			for _, l := range strings.SplitAfter(string(all), "\n") {
				if l != "" {
					got = append(got, l)
				}
			}
			sort.Strings(want)
			sort.Strings(got)
			if strings.Join(want, "") != strings.Join(got, "") {
				x.Fail("scrubber", "writers:lines-lost-duplicated-or-torn", "the sink received the lines %q, the writers wrote (scrubbed) %q", got, want)
			}
			x.Outcome(fmt.Sprintf("sink writes=%d", len(w.sink.writes)))
		},
	})
}

type c07World struct {
	sink *verifSink
	pick []int
}
