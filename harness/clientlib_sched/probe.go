//go:build go1.21

package snowflake_client

// Instrumented add-file of the C15 harness: observations the harness makes through the scheduler's
// own channel operations.

// verifMelted reports whether the collector has been told to stop.
func verifMelted(p *Peers) bool {
	select {
	case <-p.melt:
		return true
	default:
		return false
	}
}
