//go:build go1.21

package snowflake_client

// C15 — client bounds its peers, survives failed rendezvous, always shuts down (SCHED part):
// the real Peers / connectLoop / WebRTCPeer.Close under the scheduler with a scripted Tongue.

import (
	"errors"
	"fmt"
	"io"
	"log"
	"strconv"
	"strings"
	"testing"
	"time"

	vs "git.torproject.org/pluggable-transports/snowflake.git/v2/verifvs"
)

var harnesses []*vs.Harness

func TestVerif(t *testing.T) {
	log.SetOutput(io.Discard)
	vs.Main(harnesses...)
}

func cfgInt(x *vs.X, k string, def int) int {
	if v, ok := x.Cfg[k]; ok {
		if n, err := strconv.Atoi(v); err == nil {
			return n
		}
	}
	return def
}

// catch outcomes
const (
	catchNow  = iota
	catchSlow // succeeds after 3 s (a rendezvous in flight)
	catchErr
	catchSlowErr // fails after 3 s (a rendezvous in flight that comes to nothing)
	nCatch
)

type peerRec struct {
	p        *WebRTCPeer
	idx      int
	closedAt int64 // event clock when its Close completed (0: not yet)
	// virtual instant at which its Close completed (-1: not yet)
	closedTime time.Duration
}

type c15World struct {
	peers   *Peers
	max     int
	script  []int // outcome of the i-th Catch (last one repeats)
	catches int
	recs    []*peerRec
	seq     int64 // event clock (hooked atomic: orders harness events for the reduction)

	endReturned   int64 // event clock when the first End returned
	catchAfterEnd string
	// a Catch returned after the collector had been told to stop: no further Catch may begin
	endedMelted      bool
	catchAfterMelted string
	// promptness of the replacement: when the peers went away on their own, when End was first called,
	// and when rendezvous attempts began (virtual time)
	selfClosedAt      time.Duration
	endCalledAt       time.Duration
	catchTimes        []time.Duration
	inFlight          int
	overCap           string
	popBad            string
	popped            []int
	popNilAfterEnd    bool
	popAfterEndNonNil string
}

func (w *c15World) tick() int64 { return vs.AddInt64(&w.seq, 1) }

// the scripted Tongue
type c15Tongue struct{ w *c15World }

func (t c15Tongue) GetMax() int { return t.w.max }

func (t c15Tongue) Catch() (*WebRTCPeer, error) {
	w := t.w
	now := w.tick()
	if w.endReturned != 0 && w.endReturned < now && w.catchAfterEnd == "" {
		w.catchAfterEnd = fmt.Sprintf("Catch #%d began after End had returned", w.catches)
	}
	i := w.catches
	w.catches++
	w.catchTimes = append(w.catchTimes, vs.Elapsed())
	w.inFlight++
	defer func() { w.inFlight-- }()
	// one attempt may be in flight when the collector is told to stop (or begin in the window between
	// Collect's check and the stop); once an attempt has ENDED after the stop, no other may begin
	if w.peers != nil && verifMelted(w.peers) && w.endedMelted && w.catchAfterMelted == "" {
		w.catchAfterMelted = fmt.Sprintf("Catch #%d began although an earlier rendezvous attempt had already ended after the collector was told to stop", i)
	}
	defer func() {
		if w.peers != nil && verifMelted(w.peers) {
			w.endedMelted = true
		}
	}()
	if i >= len(w.script) {
		i = len(w.script) - 1
	}
	switch w.script[i] {
	case catchErr:
		return nil, errors.New("broker unreachable")
	case catchSlowErr:
		vs.Sleep(3 * time.Second)
		return nil, errors.New("timed out waiting for an answer")
	case catchSlow:
		vs.Sleep(3 * time.Second)
	}
	p := &WebRTCPeer{closed: make(chan struct{})}
	rec := &peerRec{p: p, idx: len(w.recs), closedTime: -1}
	w.recs = append(w.recs, rec)
	// capacity oracle: peers obtained and not closed
	live := 0
	for _, r := range w.recs {
		if !r.p.Closed() {
			live++
		}
	}
	w.tick()
	if live > w.max && w.overCap == "" {
		w.overCap = fmt.Sprintf("%d live peers with a maximum of %d", live, w.max)
	}
	return p, nil
}

func (w *c15World) recOf(p *WebRTCPeer) *peerRec {
	for _, r := range w.recs {
		if r.p == p {
			return r
		}
	}
	return nil
}

func init() {
	harnesses = append(harnesses, &vs.Harness{
		Name:    "c15",
		Horizon: 60 * time.Second,
		Body: func(x *vs.X) {
			w := &c15World{selfClosedAt: -1, endCalledAt: -1}
			x.User = w
			w.max = 1 + vs.Choose("max", cfgInt(x, "maxes", 2))
			nScript := cfgInt(x, "script", 2)
			for i := 0; i < nScript; i++ {
				w.script = append(w.script, vs.Choose("catch", nCatch))
			}
			// who closes peers on their own, and when (staleness / remote close)
			selfClose := []time.Duration{-1, 500 * time.Millisecond, 11 * time.Second}[vs.Choose("selfclose", 3)]
			// pops by the data path
			nPop := vs.Choose("pops", 3)
			// the data path starts asking at 1 s, or at 10.5 s (while the second rendezvous may be in flight)
			popFirst := []time.Duration{time.Second, 10500 * time.Millisecond}[vs.Choose("popfirst", 2)]
			// End calls: instants of the first and (optionally) second call
			end1 := []time.Duration{1 * time.Second, 10 * time.Second, 12 * time.Second, 45 * time.Second}[vs.Choose("end1", 4)]
			end2 := []time.Duration{-1, 0, 5 * time.Second}[vs.Choose("end2", cfgInt(x, "end2s", 3))]
			x.Outcome(fmt.Sprintf("max=%d script=%v selfclose=%v pops=%d from %v end1=%v end2=+%v", w.max, w.script, selfClose, nPop, popFirst, end1, end2))

			var err error
			w.peers, err = NewPeers(c15Tongue{w})
			if err != nil {
				panic(err)
			}
			vs.GoRole("connectLoop", vs.RoleDaemon, func() { connectLoop(w.peers) })
			if nPop > 0 {
				vs.GoRole("popper", vs.RoleDaemon, func() {
					for i := 0; i < nPop; i++ {
						if i == 0 {
							vs.Sleep(popFirst)
						} else {
							vs.Sleep(time.Second) // the data path asks for a peer once per second
						}
						start := w.tick()
						p := w.peers.Pop()
						w.tick()
						if p == nil {
							w.popNilAfterEnd = true
							return
						}
						r := w.recOf(p)
						if r == nil {
							w.popBad = "Pop returned a peer the Tongue never produced"
							return
						}
						w.popped = append(w.popped, r.idx)
						if r.closedAt != 0 && r.closedAt < start && w.popBad == "" {
							w.popBad = fmt.Sprintf("Pop returned peer %d, whose Close had completed before Pop was called", r.idx)
						}
						// virtual time: computation is instantaneous, so a peer closed at an EARLIER instant than the
						// one at which Pop returns it was already closed while Pop was still waiting for something
						if now := vs.Elapsed(); r.closedTime >= 0 && r.closedTime < now && w.popBad == "" {
							w.popBad = fmt.Sprintf("Pop returned peer %d at %v; its Close had completed at %v", r.idx, now, r.closedTime)
						}
						if w.endReturned != 0 && w.endReturned < start && w.popAfterEndNonNil == "" {
							w.popAfterEndNonNil = fmt.Sprintf("Pop called after End returned yields peer %d instead of nil", r.idx)
						}
					}
				})
			}
			if selfClose >= 0 {
				vs.GoRole("selfcloser", vs.RoleDaemon, func() {
					vs.Sleep(selfClose)
					// every peer that exists now closes on its own (stale / closed by the proxy)
					// (the promptness oracle applies when this leaves the client without any peer: something was
					// closed, and no rendezvous is in flight that will deliver another one)
					if len(w.recs) > 0 && w.inFlight == 0 {
						w.selfClosedAt = vs.Elapsed()
					}
					for _, r := range append([]*peerRec(nil), w.recs...) {
						r.p.Close()
						if r.closedAt == 0 {
							r.closedAt = w.tick()
							r.closedTime = vs.Elapsed()
						}
					}
				})
			}
			ender := func(name string, at time.Duration) {
				vs.GoRole(name, vs.RoleRequest, func() {
					vs.Sleep(at)
					if w.endCalledAt < 0 {
						w.endCalledAt = vs.Elapsed()
					}
					w.peers.End()
					t := w.tick()
					if w.endReturned == 0 {
						w.endReturned = t
					}
				})
			}
			ender("end1", end1)
			if end2 >= 0 {
				ender("end2", end1+end2)
			}
		},
		Check: func(x *vs.X) {
			w := x.User.(*c15World)
			x.Outcome(fmt.Sprintf("catches=%d peers=%d popped=%v", w.catches, len(w.recs), w.popped))
			for _, t := range x.Threads() {
				if t.Panic != "" {
					x.Fail("no-panic", "panic:"+stripDigits(t.Name)+":"+firstLineC(t.Panic), "thread %s panicked: %s\n%s", t.Name, t.Panic, t.PanicAt)
				}
			}
			var blocked []string
			for _, t := range x.Threads() {
				if t.Role == vs.RoleRequest && !t.Done && t.Panic == "" {
					blocked = append(blocked, t.Name+"@"+t.Site)
				}
			}
			if len(blocked) > 0 {
				where := ""
				for _, t := range x.Threads() {
					if t.Name == "connectLoop" && !t.Done {
						where = " while connectLoop is at " + t.Site
					}
				}
				x.Fail("end-returns", "end-never-returns:"+stripDigits(strings.Join(blocked, "+")), "End did not return: %v%s", blocked, where)
			}
			if w.overCap != "" {
				x.Fail("capacity", "over-capacity", "%s", w.overCap)
			}
			if w.popBad != "" {
				x.Fail("pop-live", "pop-returned-closed-peer", "%s", w.popBad)
			}
			if w.catchAfterMelted != "" {
				x.Fail("stops-collecting", "second-rendezvous-after-stop", "%s", w.catchAfterMelted)
			}
			// a peer that went away is replaced promptly: connectLoop looks for a new one every ReconnectTimeout,
			// so a rendezvous attempt begins within that time after the peers closed on their own (unless the
			// connection was closed meanwhile)
			if w.selfClosedAt >= 0 && (w.endCalledAt < 0 || w.endCalledAt > w.selfClosedAt+ReconnectTimeout) {
				found := false
				for _, t := range w.catchTimes {
					if t > w.selfClosedAt && t <= w.selfClosedAt+ReconnectTimeout {
						found = true
					}
				}
				if !found {
					x.Fail("retried-later", "no-rendezvous-within-ReconnectTimeout-after-the-peers-went-away", "all peers closed on their own at %v; rendezvous attempts began at %v, none within the next %v (End was called at %v)", w.selfClosedAt, w.catchTimes, ReconnectTimeout, w.endCalledAt)
				}
			}
			if w.catchAfterEnd != "" {
				x.Fail("stops-collecting", "catch-after-end", "%s", w.catchAfterEnd)
			}
			if w.popAfterEndNonNil != "" {
				x.Fail("pop-nil-after-end", "pop-after-end", "%s", w.popAfterEndNonNil)
			}
			if w.endReturned != 0 {
				for _, r := range w.recs {
					if !r.p.Closed() {
						x.Fail("closes-all", "peer-open-after-end", "peer %d is still open after End returned", r.idx)
						break
					}
				}
				for _, t := range x.Threads() {
					if t.Name == "connectLoop" && !t.Done && len(blocked) == 0 {
						x.Fail("stops-collecting", "connectloop-alive-after-end@"+t.Site, "connectLoop is still running at %s after End returned", t.Site)
					}
				}
			}
		},
	})
}

func firstLineC(s string) string {
	if i := strings.IndexByte(s, '\n'); i >= 0 {
		return s[:i]
	}
	return s
}

func stripDigits(s string) string {
	var sb strings.Builder
	for i := 0; i < len(s); i++ {
		c := s[i]
		// keep digits that belong to file:line, drop the thread numbering (end1/end2)
		if c >= '0' && c <= '9' && i > 0 && s[i-1] == 'd' {
			continue
		}
		sb.WriteByte(c)
	}
	return sb.String()
}
