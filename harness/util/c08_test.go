//go:build go1.21

package util

// C08 — local addresses are stripped from SDP, nothing else is lost (DESIGN.md §3 C08).

import (
	"fmt"
	"net"
	"strings"
	"testing"

	en "git.torproject.org/pluggable-transports/snowflake.git/v2/verifenum"
	"github.com/pion/sdp/v3"
)

// normalForm is Unmarshal→Marshal of pion/sdp: the form StripLocalAddresses emits for fields it
// does not touch.
func normalForm(doc string) (string, bool) {
	var d sdp.SessionDescription
	if err := d.Unmarshal([]byte(doc)); err != nil {
		return "", false
	}
	b, err := d.Marshal()
	if err != nil {
		return "", false
	}
	return string(b), true
}

func checkStrip(r *en.R, doc string, what func() interface{}) {
	var out string
	p, val, stack := en.Try(func() { out = StripLocalAddresses(doc) })
	if p {
		r.Fail("strip:panic@"+en.PanicSite(stack), "StripLocalAddresses panicked: "+val+" "+stack, what())
		return
	}
	nf, ok := normalForm(doc)
	if !ok {
		r.Fail("strip:generator", "generated document is not parseable by pion/sdp (harness bug)", what())
		return
	}
	want := expectedLines(nf)
	got := strings.Split(strings.TrimRight(out, "\r\n"), "\r\n")
	// 1. no reference-local host candidate survives
	for _, l := range got {
		if addr, typ, ok := candidateOf(l); ok && typ == "host" && refLocal(addr) {
			r.Fail("strip:local-survives:"+classOf(addr), fmt.Sprintf("host candidate with local address %s survives: %q", addr, l), what())
			return
		}
	}
	// 2. everything else preserved in order
	if len(got) != len(want) {
		r.Fail("strip:lines-lost-or-added", fmt.Sprintf("output has %d lines, expected %d\n got: %q\nwant: %q", len(got), len(want), got, want), what())
		return
	}
	for i := range got {
		if got[i] != want[i] {
			r.Fail("strip:line-changed", fmt.Sprintf("line %d is %q, expected %q", i, got[i], want[i]), what())
			return
		}
	}
}

func classOf(addr string) string {
	ip := net.ParseIP(addr)
	switch {
	case ip == nil:
		return "unparsed"
	case strings.Contains(addr, "::ffff:"):
		return "v4-mapped"
	case ip.To4() != nil:
		return fmt.Sprintf("v4-%d", ip.To4()[0])
	default:
		return fmt.Sprintf("v6-%02x", ip[0])
	}
}

func TestVerifEnumC08(t *testing.T) {
	r := en.New()
	defer r.Done()

	// 0. classifier: IsLocal/IsUnspecified/IsLoopback as used by the stripper vs the netip reference, on
	// the whole boundary alphabet and on every /8 and the edges of every range
	r.Begin("classifier", "util.IsLocal || unspecified || loopback vs the netip-prefix reference for the boundary alphabet, all a.b.0.1 / a.b.255.254 with a,b in 0..255, every first 16-bit group xxyy::1 and IPv4-mapped spellings around every range")
	if r.Shard0() {
		chk := func(s string) {
			ip := net.ParseIP(s)
			if ip == nil {
				return
			}
			got := IsLocal(ip) || ip.IsUnspecified() || ip.IsLoopback()
			r.Case("cls|"+s, true)
			if got != refLocal(s) {
				r.Fail("classifier:mismatch:"+classOf(s), fmt.Sprintf("address %s: code says local=%v, reference says %v", s, got, refLocal(s)), s)
			}
		}
		for _, a := range addrAlphabet {
			chk(a)
		}
		for a := 0; a < 256; a++ {
			for b := 0; b < 256; b++ {
				chk(fmt.Sprintf("%d.%d.0.1", a, b))
				chk(fmt.Sprintf("%d.%d.255.254", a, b))
			}
		}
		for hi := 0; hi < 256; hi++ {
			for lo := 0; lo < 256; lo++ {
				chk(fmt.Sprintf("%02x%02x::1", hi, lo))
			}
			chk(fmt.Sprintf("%02xff:ffff::1", hi))
			chk(fmt.Sprintf("::ffff:%d.0.0.1", hi))
			chk(fmt.Sprintf("::ffff:%d.255.255.254", hi))
		}
		for b := 0; b < 256; b++ {
			for _, a := range []int{10, 100, 127, 169, 172, 192} {
				chk(fmt.Sprintf("::ffff:%d.%d.0.1", a, b))
			}
		}
	}

	// 0b. the same candidate written with other token separators: every ICE implementation splits the
	// attribute on runs of blanks, so "typ  host" or a tab is still a host candidate
	r.Begin("spacing", "one candidate (8 addresses x host/srflx) whose tokens are separated by two spaces, a tab or a mix at each of the 7 gaps of the attribute (and at all of them): local host candidates removed, everything else kept verbatim")
	if r.Shard0() {
		addrs := []string{"192.168.0.100", "10.0.0.1", "172.31.255.255", "100.64.0.1", "169.254.1.1", "fd00::1", "8.8.8.8", "2001:db8::1"}
		seps := []string{"  ", "\t", " \t", "   "}
		for _, a := range addrs {
			for _, typ := range []string{"host", "srflx"} {
				toks := []string{"a=candidate:1000", "1", "udp", "2130706431", a, "50000", "typ", typ}
				for gap := 0; gap <= 7; gap++ {
					for _, sep := range seps {
						var sb strings.Builder
						for i, t := range toks {
							if i > 0 {
								if gap == 7 || gap == i-1 {
									sb.WriteString(sep)
								} else {
									sb.WriteByte(' ')
								}
							}
							sb.WriteString(t)
						}
						line := sb.String()
						doc := sdpHeader + "m=application 9 UDP/DTLS/SCTP webrtc-datachannel\r\nc=IN IP4 0.0.0.0\r\na=ice-ufrag:CGnA\r\n" + line + "\r\na=mid:0\r\n"
						r.Case("sp|"+line, true)
						checkStrip(r, doc, func() interface{} { return map[string]interface{}{"candidate_line": line} })
					}
				}
			}
		}
	}

	// 1. single candidate of every type and address, in every position/layout, 1-2 media sections
	r.Begin("single", "one candidate: address alphabet (48) x candidate type (4) x layout (3) x media sections (1-2) x section carrying it")
	for _, a := range addrAlphabet {
		for _, typ := range candTypes {
			for layout := 0; layout < 3; layout++ {
				for nm := 1; nm <= 2; nm++ {
					for at := 0; at < nm; at++ {
						if !r.Mine() {
							continue
						}
						ms := make([]media, nm)
						for i := range ms {
							ms[i].layout = layout
						}
						ms[at].cands = []cand{{a, typ}}
						doc := docText(ms)
						r.Case(fmt.Sprintf("single|%s|%s|%d|%d|%d", a, typ, layout, nm, at), true)
						checkStrip(r, doc, func() interface{} { return doc })
					}
				}
			}
		}
	}
	r.Sample(docText([]media{{cands: []cand{{"10.0.0.0", "host"}, {"8.8.8.8", "srflx"}}, layout: 1}}))

	// 2. all ordered pairs of host candidates (and host/srflx mixes) in one section
	r.Begin("pairs", "all ordered pairs of addresses (40x40) as host/host, host/srflx and srflx/host candidates of one section, interleaved layout")
	for _, a := range addrAlphabet {
		for _, b := range addrAlphabet {
			if !r.Mine() {
				continue
			}
			for _, tt := range [][2]string{{"host", "host"}, {"host", "srflx"}, {"srflx", "host"}} {
				doc := docText([]media{{cands: []cand{{a, tt[0]}, {b, tt[1]}}, layout: 1}})
				r.Case(fmt.Sprintf("pair|%s|%s|%s|%s", a, b, tt[0], tt[1]), true)
				checkStrip(r, doc, func() interface{} { return doc })
			}
		}
	}

	// 3. triples from a reduced alphabet across two sections
	r.Begin("triples", "all triples over a reduced alphabet (10 addresses) x types {host,relay} spread over two media sections")
	red := []string{"10.0.0.0", "11.0.0.0", "172.31.255.255", "172.32.0.0", "100.64.0.0", "fc00::", "fe00::", "::ffff:10.0.0.1", "abc.local", "8.8.8.8"}
	for _, a := range red {
		for _, b := range red {
			for _, c := range red {
				if !r.Mine() {
					continue
				}
				for _, ty := range []string{"host", "relay"} {
					doc := docText([]media{{cands: []cand{{a, "host"}, {b, ty}}, layout: 2}, {cands: []cand{{c, "host"}}, layout: 0}})
					r.Case(fmt.Sprintf("triple|%s|%s|%s|%s", a, b, c, ty), true)
					checkStrip(r, doc, func() interface{} { return doc })
				}
			}
		}
	}

	// 4. totality: mutations of documents and token soups never panic
	r.Begin("totality", "every truncation, single-line deletion and duplication of 3 base documents; malformed candidate lines; token strings of <=4 SDP line heads: no panic")
	bases := []string{
		docText([]media{{cands: []cand{{"10.0.0.1", "host"}, {"8.8.8.8", "srflx"}}, layout: 1}}),
		docText([]media{{cands: []cand{{"fc00::1", "host"}}, layout: 0}, {cands: []cand{{"abc.local", "host"}}, layout: 2}}),
		docText([]media{{layout: 0}}),
	}
	try := func(key, doc string) {
		r.Case(key, true)
		if p, val, stack := en.Try(func() { StripLocalAddresses(doc) }); p {
			r.Fail("strip:panic@"+en.PanicSite(stack), "StripLocalAddresses panicked: "+val+" "+stack, doc)
		}
	}
	for bi, b := range bases {
		if !r.Mine() {
			continue
		}
		for cut := 0; cut <= len(b); cut++ {
			try(fmt.Sprintf("trunc|%d|%d", bi, cut), b[:cut])
		}
		lines := strings.SplitAfter(b, "\r\n")
		for i := range lines {
			del := strings.Join(append(append([]string{}, lines[:i]...), lines[i+1:]...), "")
			try(fmt.Sprintf("del|%d|%d", bi, i), del)
			dup := strings.Join(append(append(append([]string{}, lines[:i+1]...), lines[i]), lines[i+1:]...), "")
			try(fmt.Sprintf("dup|%d|%d", bi, i), dup)
		}
	}
	malformed := []string{
		"a=candidate:", "a=candidate:1", "a=candidate:1 1 udp", "a=candidate:1 1 udp x 10.0.0.1 1 typ host", "a=candidate:1 1 udp 1 10.0.0.1 x typ host",
		"a=candidate:1 1 udp 1 10.0.0.1 1 typ", "a=candidate:1 1 udp 1 10.0.0.1 1 typ bogus", "a=candidate:1 1 udp 1  1 typ host", "a=candidate:1 1 udp 1 999.0.0.1 1 typ host",
		"a=candidate:1 1 udp 1 10.0.0.1 99999999 typ host", "a=candidate:1 1 tcp 1 10.0.0.1 9 typ host tcptype active", "a=candidate:\x00", "a=candidate:1 1 udp 1 [::1] 1 typ host",
		"a=candidate:1 1 udp 1 fe80::1%eth0 1 typ host", "a=candidate:1 1 udp 18446744073709551616 10.0.0.1 1 typ host", "a=candidate:1 1 udp -1 10.0.0.1 1 typ host raddr", "a=candidate:1 1 udp 1 10.0.0.1 1 typ host generation",
	}
	if r.Shard0() {
		for i, m := range malformed {
			doc := sdpHeader + "m=application 9 UDP/DTLS/SCTP webrtc-datachannel\r\nc=IN IP4 0.0.0.0\r\n" + m + "\r\na=mid:0\r\n"
			try(fmt.Sprintf("malformed|%d", i), doc)
		}
	}
	heads := []string{"v=0\r\n", "o=- 1 2 IN IP4 127.0.0.1\r\n", "s=-\r\n", "t=0 0\r\n", "m=application 9 UDP/DTLS/SCTP webrtc-datachannel\r\n", "c=IN IP4 0.0.0.0\r\n", "a=candidate:1 1 udp 1 10.0.0.1 1 typ host\r\n", "a=mid:0\r\n", "a=\r\n", "=\r\n", "x", "\r\n", "m=\r\n", "garbage"}
	en.Strings(heads, 4, func(toks []string) bool {
		if !r.Mine() {
			return true
		}
		try("soup|"+strings.Join(toks, ""), strings.Join(toks, ""))
		return !r.TimeUp()
	})
}
