//go:build go1.21

package util

// SDP document generator and reference classifier shared by the C08 and C13 harnesses.

import (
	"fmt"
	"net/netip"
	"strings"
)

// boundary-rich address alphabet: every RFC range named by the property, on and around each edge
var addrAlphabet = []string{
	"9.255.255.255", "10.0.0.0", "10.255.255.255", "11.0.0.0",
	"172.15.255.255", "172.16.0.0", "172.31.255.255", "172.32.0.0",
	"192.167.255.255", "192.168.0.0", "192.168.255.255", "192.169.0.0",
	"100.63.255.255", "100.64.0.0", "100.127.255.255", "100.128.0.0",
	"169.253.255.255", "169.254.0.0", "169.254.255.255", "169.255.0.0",
	"126.255.255.255", "127.0.0.0", "127.255.255.255", "128.0.0.0",
	"0.0.0.0", "8.8.8.8", "192.0.2.2", "255.255.255.255",
	"fbff:ffff::1", "fc00::", "fdff:ffff:ffff:ffff:ffff:ffff:ffff:ffff", "fe00::",
	"::1", "::", "2001:db8::1", "::ffff:10.0.0.1", "::ffff:8.8.8.8", "::ffff:127.0.0.1",
	"abc.local", "f47ac10b-58cc-4372-a567-0e02b2c3d479.local",
	// IPv6 ranges that are NOT in the statement's list (must be kept): link-local, site-local, multicast, NAT64
	"fe80::1", "febf:ffff::1", "fec0::1", "ff02::1", "64:ff9b::a00:1", "::2", "::ffff:169.254.0.1", "::ffff:0.0.0.0",
}

var localPrefixes = func() []netip.Prefix {
	var out []netip.Prefix
	for _, s := range []string{
		"10.0.0.0/8", "172.16.0.0/12", "192.168.0.0/16", // RFC 1918
		"100.64.0.0/10",          // RFC 6598
		"169.254.0.0/16",         // RFC 3927
		"fc00::/7",               // RFC 4193
		"127.0.0.0/8", "::1/128", // loopback
		"0.0.0.0/32", "::/128", // unspecified
	} {
		out = append(out, netip.MustParsePrefix(s))
	}
	return out
}()

// refLocal is the independent reference: must a host candidate with this address be stripped?
func refLocal(addr string) bool {
	a, err := netip.ParseAddr(addr)
	if err != nil {
		return false // not an IP address (e.g. an mDNS name): nothing to strip
	}
	a = a.Unmap()
	for _, p := range localPrefixes {
		if p.Contains(a) {
			return true
		}
	}
	return false
}

var candTypes = []string{"host", "srflx", "prflx", "relay"}

type cand struct {
	addr string
	typ  string
}

func (c cand) line(i int) string {
	s := fmt.Sprintf("a=candidate:%d 1 udp %d %s %d typ %s", 1000+i, 2130706431-i, c.addr, 50000+i, c.typ)
	if c.typ != "host" {
		s += " raddr 0.0.0.0 rport 0"
	}
	return s
}

type media struct {
	cands []cand
	// where the other attributes go relative to the candidates: 0 all before, 1 interleaved, 2 all after
	layout int
}

const sdpHeader = "v=0\r\no=- 4358805017720277108 2 IN IP4 127.0.0.1\r\ns=-\r\nt=0 0\r\na=group:BUNDLE 0\r\na=msid-semantic: WMS\r\n"

func (m media) text(idx int) string {
	var sb strings.Builder
	fmt.Fprintf(&sb, "m=application 9 UDP/DTLS/SCTP webrtc-datachannel\r\nc=IN IP4 0.0.0.0\r\n")
	others := []string{"a=ice-ufrag:CGnA", "a=ice-pwd:9Hf2hZVXHEtPVqnPZVZBVYDb", fmt.Sprintf("a=mid:%d", idx), "a=sctp-port:5000", "a=end-of-candidates"}
	var lines []string
	switch m.layout {
	case 0:
		lines = append(lines, others...)
		for i, c := range m.cands {
			lines = append(lines, c.line(i))
		}
	case 1:
		for i := 0; i < len(others) || i < len(m.cands); i++ {
			if i < len(others) {
				lines = append(lines, others[i])
			}
			if i < len(m.cands) {
				lines = append(lines, m.cands[i].line(i))
			}
		}
	default:
		for i, c := range m.cands {
			lines = append(lines, c.line(i))
		}
		lines = append(lines, others...)
	}
	for _, l := range lines {
		sb.WriteString(l)
		sb.WriteString("\r\n")
	}
	return sb.String()
}

func docText(ms []media) string {
	var sb strings.Builder
	sb.WriteString(sdpHeader)
	for i, m := range ms {
		sb.WriteString(m.text(i))
	}
	return sb.String()
}

// candidateOf parses an attribute line "a=candidate:..." written by this generator (or any line
// following RFC 5245's candidate-attribute grammar) into address and type.
func candidateOf(line string) (addr, typ string, ok bool) {
	if !strings.HasPrefix(line, "a=candidate:") {
		return "", "", false
	}
	f := strings.Fields(strings.TrimPrefix(line, "a=candidate:"))
	if len(f) < 8 || f[6] != "typ" {
		return "", "", false
	}
	return f[4], f[7], true
}

// expectedLines applies the reference filter to a document: every line except reference-local
// host candidates, in order.
func expectedLines(doc string) []string {
	var out []string
	for _, l := range strings.Split(strings.TrimRight(doc, "\r\n"), "\r\n") {
		if addr, typ, ok := candidateOf(l); ok && typ == "host" && refLocal(addr) {
			continue
		}
		out = append(out, l)
	}
	return out
}
