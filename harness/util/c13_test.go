//go:build go1.21

package util

// C13 — untrusted session descriptions cannot crash client or proxy (DESIGN.md §3 C13), core part:
// util.SerializeSessionDescription / DeserializeSessionDescription.

import (
	"fmt"
	"strings"
	"testing"

	en "git.torproject.org/pluggable-transports/snowflake.git/v2/verifenum"
	"github.com/pion/webrtc/v3"
)

func TestVerifEnumC13(t *testing.T) {
	r := en.New()
	defer r.Done()

	// 1. value-or-error, never panic
	r.Begin("deserialize", "JSON value lattice: members type and sdp each in 24 JSON values (absent, null, booleans, numbers, strings incl. the four type names, arrays, objects) + top-level shapes, duplicate keys, case variants, extra members; every truncation of a valid document")
	valid := `{"type":"offer","sdp":"v=0\r\no=- 1 2 IN IP4 127.0.0.1\r\n"}`
	inputs := en.HostileSessionDescriptions()
	for cut := 0; cut <= len(valid); cut++ {
		inputs = append(inputs, valid[:cut])
	}
	for i, in := range inputs {
		if !r.Mine() {
			continue
		}
		in := in
		r.Case(fmt.Sprintf("deser|%d|%s", i, in[:min(len(in), 80)]), len(in) > 0)
		var d *webrtc.SessionDescription
		var err error
		p, val, stack := en.Try(func() { d, err = DeserializeSessionDescription(in) })
		if p {
			r.Fail("deserialize:panic@"+en.PanicSite(stack), "DeserializeSessionDescription panicked: "+val+" "+stack, short(in))
			continue
		}
		if (d == nil) == (err == nil) {
			r.Fail("deserialize:neither-value-nor-error", fmt.Sprintf("returned desc=%v err=%v", d, err), short(in))
		}
	}
	r.Sample(inputs[30])
	r.Sample(inputs[5])

	// 2. round trip
	r.Begin("roundtrip", "4 SDP types x SDP texts {empty, plain, quotes, backslashes, newlines, HTML characters, non-ASCII, NUL, U+2028, 64 kB}")
	texts := []string{"", "v=0\r\n", `a "quoted" text`, `back\slash\\`, "line1\nline2\r\n", "<script>&amp;</script>", "héllo wörld ☃", "nul\x00byte", "sep arator", strings.Repeat("v=0\r\na=x\r\n", 6000)}
	types := []webrtc.SDPType{webrtc.SDPTypeOffer, webrtc.SDPTypePranswer, webrtc.SDPTypeAnswer, webrtc.SDPTypeRollback}
	if r.Shard0() {
		for _, ty := range types {
			for i, tx := range texts {
				in := &webrtc.SessionDescription{Type: ty, SDP: tx}
				r.Case(fmt.Sprintf("rt|%v|%d", ty, i), true)
				var out *webrtc.SessionDescription
				var s string
				var err1, err2 error
				p, val, stack := en.Try(func() {
					s, err1 = SerializeSessionDescription(in)
					if err1 == nil {
						out, err2 = DeserializeSessionDescription(s)
					}
				})
				if p {
					r.Fail("roundtrip:panic@"+en.PanicSite(stack), val+" "+stack, map[string]interface{}{"type": ty.String(), "sdp": short(tx)})
					continue
				}
				if err1 != nil || err2 != nil || out == nil || out.Type != in.Type || out.SDP != in.SDP {
					r.Fail("roundtrip:mismatch", fmt.Sprintf("serialize err=%v deserialize err=%v out=%v", err1, err2, out), map[string]interface{}{"type": ty.String(), "sdp": short(tx)})
				}
			}
		}
	}
}

func short(s string) string {
	if len(s) > 300 {
		return s[:300] + fmt.Sprintf("...(%d bytes)", len(s))
	}
	return s
}
