//go:build go1.21

package messages

// C12 — broker messages round-trip and invalid ones are rejected (DESIGN.md §3 C12).
//
// Two laws, both checked on the real exported Encode*/Decode* functions:
//
//   inverse law  decode(encode(m)) == m with the documented defaults, for every m the statement
//                calls valid and the encoder accepts (sections rt-*, defaults);
//   reject law   every decoder returns an error (and never panics) for what the statement lists as
//                forbidden (all sections; the document sections are shapes-*, versionline,
//                truncation, mutation, tokens).
//
// The reference ("what must be rejected", "what the fields of this document are") is written from
// the property statement and the specification comments on top of proxy.go / client.go with the
// generic encoding/json tokenizer only; it never looks at the message structs of this package.
// Anything the statement leaves open yields no verdict (see refMajor, fAmbig, fOther below).

import (
	"bytes"
	"encoding/json"
	"fmt"
	"hash/fnv"
	"math"
	"strconv"
	"strings"
	"testing"
	"unicode/utf8"

	en "git.torproject.org/pluggable-transports/snowflake.git/v2/verifenum"
)

// ---- reference: constants of the protocol (from the statement / spec comments) ------------------

var refNATNames = []string{"unknown", "restricted", "unrestricted"}
var refProxyTypes = []string{"standalone", "webext", "badge", "iptproxy"}

// "missing fingerprint means the default bridge": the value documented in client.go.
const refDefaultFingerprint = "2B280B23E1107BB62ABFC40DDCC8824814F80A72"

func isNATName(s string) bool {
	for _, n := range refNATNames {
		if s == n {
			return true
		}
	}
	return false
}

// refNAT: missing NAT means unknown.
func refNAT(s string) string {
	if s == "" {
		return "unknown"
	}
	return s
}

// natAllowed: empty (= missing) or one of the three names.
func natAllowed(s string) bool { return s == "" || isNATName(s) }

// refProxyType: unrecognised proxy type means unknown.
func refProxyType(s string) string {
	for _, n := range refProxyTypes {
		if s == n {
			return s
		}
	}
	return "unknown"
}

// refFingerprintOK: 20 or 32 hex-encoded bytes.
func refFingerprintOK(s string) bool {
	if len(s) != 40 && len(s) != 64 {
		return false
	}
	for i := 0; i < len(s); i++ {
		c := s[i]
		if !(c >= '0' && c <= '9' || c >= 'a' && c <= 'f' || c >= 'A' && c <= 'F') {
			return false
		}
	}
	return true
}

func refFingerprint(s string) string {
	if s == "" {
		return refDefaultFingerprint
	}
	return s
}

const (
	vOK     = iota // major version is 1
	vOpen          // could be read as 1 ("01", "+1", " 1"): no verdict
	vReject        // major version other than 1 (or none)
)

// refMajor classifies a version string: the major version is the text before the first dot.
func refMajor(v string) int {
	major := v
	if i := strings.IndexByte(v, '.'); i >= 0 {
		major = v[:i]
	}
	if major == "1" {
		return vOK
	}
	if n, err := strconv.ParseInt(strings.TrimSpace(major), 10, 64); err == nil && n == 1 {
		return vOpen
	}
	return vReject
}

// ---- reference: generic view of a document --------------------------------------------------------

const (
	fAbsent = iota
	fNull
	fString
	fOther // number, bool, object, array: the statement does not say what a mistyped member means
	fAmbig // duplicate member or a name differing in case: which value counts is not specified
)

type fld struct {
	st int
	s  string
	v  interface{}
}

// missing: absent, null or the empty string (the specification comments use "empty" and "missing"
// interchangeably: "If the answer field is empty, the error field MUST contain ...").
func (f fld) missing() bool {
	return f.st == fAbsent || f.st == fNull || (f.st == fString && f.s == "")
}

// det: the value is determined as "a string or missing".
func (f fld) det() bool { return f.st == fAbsent || f.st == fNull || f.st == fString }

func (f fld) str() string {
	if f.st == fString {
		return f.s
	}
	return ""
}

type member struct {
	key string
	val interface{}
}

type refDoc struct {
	notJSON bool // the bytes do not start with a JSON value
	object  bool
	members []member
}

func parseRef(body []byte) refDoc {
	var d refDoc
	dec := json.NewDecoder(bytes.NewReader(body))
	dec.UseNumber()
	var v interface{}
	if err := dec.Decode(&v); err != nil {
		d.notJSON = true
		return d
	}
	if _, ok := v.(map[string]interface{}); !ok {
		return d
	}
	d.object = true
	// second pass with the tokenizer to keep order and duplicates
	dec = json.NewDecoder(bytes.NewReader(body))
	dec.UseNumber()
	if _, err := dec.Token(); err != nil {
		d.notJSON = true
		return d
	}
	for dec.More() {
		kt, err := dec.Token()
		if err != nil {
			d.notJSON = true
			return d
		}
		k, ok := kt.(string)
		if !ok {
			d.notJSON = true
			return d
		}
		var mv interface{}
		if err := dec.Decode(&mv); err != nil {
			d.notJSON = true
			return d
		}
		d.members = append(d.members, member{k, mv})
	}
	return d
}

func (d *refDoc) get(name string) fld {
	n := 0
	exact := false
	var got interface{}
	for _, m := range d.members {
		if strings.EqualFold(m.key, name) {
			n++
			got = m.val
			exact = m.key == name
		}
	}
	if n == 0 {
		return fld{st: fAbsent}
	}
	if n > 1 || !exact {
		return fld{st: fAmbig}
	}
	switch x := got.(type) {
	case nil:
		return fld{st: fNull}
	case string:
		return fld{st: fString, s: x}
	default:
		return fld{st: fOther, v: x}
	}
}

// ---- the six messages and their decoders ---------------------------------------------------------

const (
	kPPReq = iota
	kPPResp
	kAnsReq
	kAnsResp
	kCliReq
	kCliResp
	nKinds
)

var kindName = []string{"proxy-poll-request", "proxy-poll-response", "proxy-answer-request", "proxy-answer-response", "client-poll-request", "client-poll-response"}

// out: everything any decoder returns.
type out struct {
	sid, typ, nat, pattern, offer, relay, answer, errField, fp string
	clients                                                    int
	aware, success                                             bool
	err                                                        error
}

type decoder struct {
	name string
	kind int
	full bool // returns the extension field (relay pattern / relay URL)
	fn   func([]byte) out
}

var decoders = []decoder{
	{"DecodeProxyPollRequestWithRelayPrefix", kPPReq, true, func(b []byte) (o out) {
		o.sid, o.typ, o.nat, o.clients, o.pattern, o.aware, o.err = DecodeProxyPollRequestWithRelayPrefix(b)
		return
	}},
	{"DecodeProxyPollRequest", kPPReq, false, func(b []byte) (o out) {
		o.sid, o.typ, o.nat, o.clients, o.err = DecodeProxyPollRequest(b)
		return
	}},
	{"DecodePollResponseWithRelayURL", kPPResp, true, func(b []byte) (o out) {
		o.offer, o.nat, o.relay, o.err = DecodePollResponseWithRelayURL(b)
		return
	}},
	{"DecodePollResponse", kPPResp, false, func(b []byte) (o out) {
		o.offer, o.nat, o.err = DecodePollResponse(b)
		return
	}},
	{"DecodeAnswerRequest", kAnsReq, true, func(b []byte) (o out) {
		o.answer, o.sid, o.err = DecodeAnswerRequest(b)
		return
	}},
	{"DecodeAnswerResponse", kAnsResp, true, func(b []byte) (o out) {
		o.success, o.err = DecodeAnswerResponse(b)
		return
	}},
	{"DecodeClientPollRequest", kCliReq, true, func(b []byte) (o out) {
		m, err := DecodeClientPollRequest(b)
		o.err = err
		if err == nil && m == nil {
			o.err = nil
			o.offer = "<nil message with nil error>"
			return
		}
		if m != nil {
			o.offer, o.nat, o.fp = m.Offer, m.NAT, m.Fingerprint
		}
		return
	}},
	{"DecodeClientPollResponse", kCliResp, true, func(b []byte) (o out) {
		m, err := DecodeClientPollResponse(b)
		o.err = err
		if err == nil && m == nil {
			o.answer = "<nil message with nil error>"
			return
		}
		if m != nil {
			o.answer, o.errField = m.Answer, m.Error
		}
		return
	}},
}

func decodersOf(kind int) []decoder {
	var l []decoder
	for _, d := range decoders {
		if d.kind == kind {
			l = append(l, d)
		}
	}
	return l
}

// ---- reference: must this byte string be rejected? -----------------------------------------------

type analysis struct {
	reason string // non-empty: the statement demands an error, and why
	doc    refDoc
	hasDoc bool
}

func versionMember(f fld) bool {
	switch f.st {
	case fAbsent, fNull:
		return true // no major version 1
	case fString:
		return refMajor(f.s) == vReject
	}
	return false
}

func natMember(f fld) bool { return f.st == fString && !natAllowed(f.s) }

func analyse(kind int, data []byte) analysis {
	var a analysis
	body := data
	if kind == kCliReq {
		// <message> := <version>\n<body>
		i := bytes.IndexByte(data, '\n')
		if i < 0 {
			a.reason = "version"
			return a
		}
		if refMajor(string(data[:i])) == vReject {
			a.reason = "version"
			return a
		}
		body = data[i+1:]
	}
	a.doc = parseRef(body)
	a.hasDoc = true
	d := &a.doc
	if d.notJSON {
		a.reason = "not-json"
		return a
	}
	switch kind {
	case kPPReq:
		switch {
		case versionMember(d.get("Version")):
			a.reason = "version"
		case d.get("Sid").missing():
			a.reason = "no-sid"
		case natMember(d.get("NAT")):
			a.reason = "nat-outside-names"
		}
	case kPPResp:
		st := d.get("Status")
		switch {
		case st.st == fString && st.s == "client match" && d.get("Offer").missing():
			a.reason = "no-offer"
		case natMember(d.get("NAT")):
			a.reason = "nat-outside-names"
		}
	case kAnsReq:
		switch {
		case versionMember(d.get("Version")):
			a.reason = "version"
		case d.get("Sid").missing():
			a.reason = "no-sid"
		case d.get("Answer").missing():
			a.reason = "no-answer"
		}
	case kAnsResp:
		// nothing beyond being JSON is demanded by the statement
	case kCliReq:
		fp := d.get("fingerprint")
		switch {
		case d.get("offer").missing():
			a.reason = "no-offer"
		case natMember(d.get("nat")):
			a.reason = "nat-outside-names"
		case fp.st == fString && fp.s != "" && !refFingerprintOK(fp.s):
			a.reason = "fingerprint"
		}
	case kCliResp:
		if d.get("answer").missing() && d.get("error").missing() {
			a.reason = "neither-answer-nor-error"
		}
	}
	return a
}

type mismatch struct{ field, msg string }

func neq(l *[]mismatch, field, got, want string) {
	if got != want {
		*l = append(*l, mismatch{field, fmt.Sprintf("%s = %s, document says %s", field, show(got), show(want))})
	}
}

// consistency: an accepted document must decode to its own members, with the documented defaults.
// Only members whose meaning is determined (string or missing, unique exact name) are compared.
func consistency(kind int, dc decoder, a *analysis, o out) []mismatch {
	var l []mismatch
	if !a.hasDoc || !a.doc.object {
		return nil
	}
	d := &a.doc
	switch kind {
	case kPPReq:
		if f := d.get("Sid"); f.det() {
			neq(&l, "sid", o.sid, f.str())
		}
		if f := d.get("Type"); f.det() {
			neq(&l, "type", o.typ, refProxyType(f.str()))
		}
		if f := d.get("NAT"); f.det() {
			neq(&l, "nat", o.nat, refNAT(f.str()))
		}
		if f := d.get("Clients"); f.st == fOther {
			if num, ok := f.v.(json.Number); ok {
				if n, err := strconv.ParseInt(string(num), 10, 64); err == nil && int64(o.clients) != n {
					l = append(l, mismatch{"clients", fmt.Sprintf("clients = %d, document says %d", o.clients, n)})
				}
			}
		}
		if dc.full {
			switch f := d.get("AcceptedRelayPattern"); f.st {
			case fAbsent:
				// absent relay pattern reported as unsupported
				if o.aware || o.pattern != "" {
					l = append(l, mismatch{"relay-pattern", fmt.Sprintf("absent relay pattern reported as (%s, supported=%v)", show(o.pattern), o.aware)})
				}
			case fString:
				if !o.aware || o.pattern != f.s {
					l = append(l, mismatch{"relay-pattern", fmt.Sprintf("relay pattern %s reported as (%s, supported=%v)", show(f.s), show(o.pattern), o.aware)})
				}
			}
		}
	case kPPResp:
		st := d.get("Status")
		if st.st != fString {
			return nil
		}
		if st.s == "client match" {
			if f := d.get("Offer"); f.det() {
				neq(&l, "offer", o.offer, f.str())
			}
			if f := d.get("NAT"); f.det() {
				neq(&l, "nat", o.nat, refNAT(f.str()))
			}
			if f := d.get("RelayURL"); f.det() && dc.full {
				neq(&l, "relay-url", o.relay, f.str())
			}
		} else if o.offer != "" {
			// "If there is a client match, the returned offer string will be non-empty"
			l = append(l, mismatch{"offer", fmt.Sprintf("status %s decoded as a match with offer %s", show(st.s), show(o.offer))})
		}
	case kAnsReq:
		if f := d.get("Sid"); f.det() {
			neq(&l, "sid", o.sid, f.str())
		}
		if f := d.get("Answer"); f.det() {
			neq(&l, "answer", o.answer, f.str())
		}
	case kAnsResp:
		if f := d.get("Status"); f.st == fString && (f.s == "success" || f.s == "client gone") {
			if o.success != (f.s == "success") {
				l = append(l, mismatch{"success", fmt.Sprintf("status %s decoded as success=%v", show(f.s), o.success)})
			}
		}
	case kCliReq:
		if f := d.get("offer"); f.det() {
			neq(&l, "offer", o.offer, f.str())
		}
		if f := d.get("nat"); f.det() {
			neq(&l, "nat", o.nat, refNAT(f.str()))
		}
		if f := d.get("fingerprint"); f.det() {
			neq(&l, "fingerprint", o.fp, refFingerprint(f.str()))
		}
	case kCliResp:
		if f := d.get("answer"); f.det() {
			neq(&l, "answer", o.answer, f.str())
		}
		if f := d.get("error"); f.det() {
			neq(&l, "error", o.errField, f.str())
		}
	}
	return l
}

// ---- plumbing ------------------------------------------------------------------------------------

// show renders a string for reports: as it is when it is short printable UTF-8, quoted otherwise.
func show(s string) string {
	tail := ""
	if len(s) > 160 {
		tail = fmt.Sprintf("...<%d bytes>", len(s))
		s = s[:80]
	}
	plain := utf8.ValidString(s)
	for _, c := range s {
		if c < 0x20 || c == 0x7f || c == utf8.RuneError || c == 0x2028 || c == 0xfeff {
			plain = false
		}
	}
	if plain && tail == "" {
		return s
	}
	return fmt.Sprintf("%q", s) + tail
}

func showBytes(b []byte) string { return show(string(b)) }

type H struct {
	r       *en.R
	shard   int
	nshards int
	stop    bool
	n       int
	section string
	sampled map[string]bool
	cur     []byte // the encoded document of the round-trip case at hand

	docSample map[string]bool // document sections that contribute samples
}

func (h *H) sampleOnce(key string, v func() interface{}) {
	if !h.sampled[key] {
		h.sampled[key] = true
		h.r.Sample(v())
	}
}

// enc adds the encoded document to the description of a round-trip case.
func (h *H) enc(m map[string]interface{}) interface{} {
	if h.cur != nil {
		m["encoded"] = showBytes(h.cur)
	}
	return m
}

func (h *H) begin(name, note string) {
	h.r.Begin(name, note)
	h.section = name
}

// mineKey shards document sections by content so that equal documents meet in one shard and the
// distinct count is exact across shards.
func (h *H) mineKey(key string) bool {
	if h.nshards <= 1 {
		return true
	}
	f := fnv.New32a()
	f.Write([]byte(key))
	return int(f.Sum32()%uint32(h.nshards)) == h.shard
}

func (h *H) timeUp() bool {
	if h.stop {
		return true
	}
	h.n++
	if h.n&0xff == 0 && h.r.TimeUp() {
		h.stop = true
	}
	return h.stop
}

// try runs one decoder; a panic is a finding.
func (h *H) try(dc decoder, data []byte, info func() interface{}) (out, bool) {
	var o out
	h.cur = data
	p, val, stack := en.Try(func() { o = dc.fn(data) })
	if p {
		h.r.Fail("panic:"+dc.name+"@"+en.PanicSite(stack), dc.name+" panicked: "+val+" "+stack, info())
		return o, false
	}
	return o, true
}

// checkDoc offers one byte string to every decoder of the message kind.
func (h *H) checkDoc(kind int, data []byte, origin string) {
	if h.nshards > 1 {
		// FNV-1a over "<message>|<bytes>", without allocating (every shard sees every document)
		x := uint32(2166136261)
		for _, c := range []byte(kindName[kind]) {
			x = (x ^ uint32(c)) * 16777619
		}
		x = (x ^ '|') * 16777619
		for _, c := range data {
			x = (x ^ uint32(c)) * 16777619
		}
		if int(x%uint32(h.nshards)) != h.shard {
			return
		}
	}
	if h.timeUp() {
		return
	}
	key := kindName[kind] + "|" + string(data)
	h.r.Case(key, len(data) > 0)
	a := analyse(kind, data)
	info := func() interface{} {
		return map[string]interface{}{"message": kindName[kind], "document": showBytes(data), "origin": origin}
	}
	accepted := []string{}
	for _, dc := range decodersOf(kind) {
		o, ok := h.try(dc, data, info)
		if !ok || o.err != nil {
			continue
		}
		if a.reason != "" {
			h.r.Fail("accepted:"+kindName[kind]+":"+a.reason, fmt.Sprintf("%s returned no error for a document the statement forbids (%s): %s", dc.name, a.reason, showBytes(data)), info())
			continue
		}
		accepted = append(accepted, dc.name)
		for _, m := range consistency(kind, dc, &a, o) {
			h.r.Fail("decode:"+kindName[kind]+":"+m.field, fmt.Sprintf("%s on %s: %s", dc.name, showBytes(data), m.msg), info())
		}
	}
	if h.docSample[h.section] && len(data) > 8 && len(data) < 300 {
		verdict := ""
		if len(accepted) > 0 {
			verdict = "accepted"
		} else if a.reason != "" && a.reason != "not-json" {
			verdict = "statement demands rejection"
		}
		if verdict != "" {
			h.sampleOnce(h.section+"/"+verdict, func() interface{} {
				return map[string]interface{}{"section": h.section, "message": kindName[kind], "document": showBytes(data), "origin": origin, "statement_demands_rejection": a.reason, "accepted_by": accepted}
			})
		}
	}
}

// ---- alphabets -----------------------------------------------------------------------------------

var big70k = strings.Repeat("0123456789abcdef/+=-_. ~", 3000)[:70000]

func strAlphabet(thorough bool) []string {
	s := []string{"", "a", "unknown", "restricted", "unrestricted", "standalone", "webext", "badge", "iptproxy", `x"y`, "é", "\n", "<&>", big70k}
	if thorough {
		s = append(s[:len(s)-1], "\x00", "\u2028", "\U0001F600", "\ufffd", `\`, " ", "null", "client match", "1.0", big70k)
	}
	return s
}

func intAlphabet(thorough bool) []int {
	s := []int{0, 1, 8, -1, math.MaxInt64}
	if thorough {
		s = append(s, math.MinInt64, 1<<53+1)
	}
	return s
}

var fpAlphabet = []string{
	"",
	refDefaultFingerprint,                  // 20 bytes, upper case
	strings.ToLower(refDefaultFingerprint), // 20 bytes, lower case
	strings.Repeat("aB", 32),               // 32 bytes, mixed case
	"a",                                    // odd
	"unknown",                              // not hex
	refDefaultFingerprint[:39],             // odd length
	refDefaultFingerprint[:38],             // 19 bytes
	refDefaultFingerprint + "0",            // odd length
	refDefaultFingerprint + "00",           // 21 bytes
	"G" + refDefaultFingerprint[1:],        // 40 characters, not hex
	refDefaultFingerprint[:38] + "é",       // 40 bytes, the last two not ASCII
	strings.Repeat("0", 62),                // 31 bytes
	strings.Repeat("0", 66),                // 33 bytes
	strings.Repeat("0", 128),               // 64 bytes
	" " + refDefaultFingerprint,            // leading blank
	refDefaultFingerprint + "\n",           // trailing newline
	"0x" + refDefaultFingerprint[:38],      // 40 characters with a 0x prefix
	strings.Repeat("é", 20),                // 40 bytes of non-ASCII
	big70k,
}

// ---- reference encoder for hand-made documents ---------------------------------------------------

func jstr(s string) string {
	b, err := json.Marshal(s)
	if err != nil {
		panic(err)
	}
	return string(b)
}

type kv struct{ k, raw string } // raw == "" means absent

func object(members []kv) string {
	var sb strings.Builder
	sb.WriteByte('{')
	first := true
	for _, m := range members {
		if m.raw == "" {
			continue
		}
		if !first {
			sb.WriteByte(',')
		}
		first = false
		sb.WriteString(jstr(m.k))
		sb.WriteByte(':')
		sb.WriteString(m.raw)
	}
	sb.WriteByte('}')
	return sb.String()
}

func reversed(m []kv) []kv {
	r := make([]kv, len(m))
	for i := range m {
		r[len(m)-1-i] = m[i]
	}
	return r
}

// opt: "" marks absence for optional members in the defaults section
const absent = "\x00absent"

func optRaw(s string) string {
	if s == absent {
		return ""
	}
	return jstr(s)
}

func optStr(s string) string {
	if s == absent {
		return ""
	}
	return s
}

// ---- the test ------------------------------------------------------------------------------------

type cmpCtx struct {
	h    *H
	msg  string
	fn   string
	info func() interface{}
}

func (c cmpCtx) str(field, got, want string) {
	if got != want {
		c.h.r.Fail("roundtrip:"+c.msg+":"+field, fmt.Sprintf("%s: %s = %s, want %s", c.fn, field, show(got), show(want)), c.info())
	}
}

func (c cmpCtx) rejectedValid(err error) {
	c.h.r.Fail("roundtrip:"+c.msg+":valid-rejected", fmt.Sprintf("%s rejected a valid encoded message: %v", c.fn, err), c.info())
}

func (c cmpCtx) acceptedInvalid(reason string) {
	c.h.r.Fail("accepted:"+c.msg+":"+reason, fmt.Sprintf("%s returned no error for an encoded message the statement forbids (%s): %s", c.fn, reason, showBytes(c.h.cur)), c.info())
}

func TestVerifEnum(t *testing.T) {
	r := en.New()
	defer r.Done()
	h := &H{r: r, sampled: map[string]bool{}, docSample: map[string]bool{"shapes-proxy-poll-request": true, "shapes-client-poll-request": true, "mutation": true, "tokens": true}}
	h.shard, h.nshards = r.Shard()
	S := strAlphabet(r.Thorough())
	I := intAlphabet(r.Thorough())
	alphaNote := fmt.Sprintf("strings {\"\", a, 3 NAT names, 4 proxy types, x\"y, é, \\n, <&>%s, 70 kB} (%d), ints %v", map[bool]string{true: ", NUL, U+2028, U+1F600, U+FFFD, backslash, blank, null, client match, 1.0", false: ""}[r.Thorough()], len(S), I)

	encPanic := func(msg string, stack, val string, info interface{}) {
		r.Fail("panic:encode:"+msg+"@"+en.PanicSite(stack), "encoder panicked: "+val+" "+stack, info)
	}
	encRejected := 0

	dPPReqFull, dPPReq := decoders[0], decoders[1]
	dPPRespFull, dPPResp := decoders[2], decoders[3]
	dAnsReq, dAnsResp, dCliReq, dCliResp := decoders[4], decoders[5], decoders[6], decoders[7]

	// ---- 1. proxy poll request ---------------------------------------------------------------
	h.begin("rt-proxy-poll-request", "EncodeProxyPollRequestWithRelayPrefix/EncodeProxyPollRequest x both decoders; sid, type, NAT, relay pattern over "+alphaNote+"; valid iff sid non-empty and NAT empty or one of the three names")
	{
		o := en.NewOdometer(len(S), len(S), len(S), len(S), len(I))
		for o.Next() {
			if !r.Mine() {
				continue
			}
			if h.timeUp() {
				break
			}
			h.cur = nil
			si, ti, ni, pi, ci := o.V[0], o.V[1], o.V[2], o.V[3], o.V[4]
			sid, typ, natv, pat, cl := S[si], S[ti], S[ni], S[pi], I[ci]
			info := func() interface{} {
				return h.enc(map[string]interface{}{"sid": show(sid), "type": show(typ), "nat": show(natv), "clients": cl, "relay_pattern": show(pat)})
			}
			r.Case(fmt.Sprintf("ppr|%d|%d|%d|%d|%d", si, ti, ni, pi, ci), sid != "" || typ != "" || natv != "" || pat != "" || cl != 0)
			reason := ""
			if sid == "" {
				reason = "no-sid"
			} else if !natAllowed(natv) {
				reason = "nat-outside-names"
			}
			check := func(encName string, data []byte, withPattern bool) {
				for _, dc := range []decoder{dPPReqFull, dPPReq} {
					out, ok := h.try(dc, data, info)
					if !ok {
						continue
					}
					c := cmpCtx{h, kindName[kPPReq], encName + "->" + dc.name, info}
					if reason != "" {
						if out.err == nil {
							c.acceptedInvalid(reason)
						}
						continue
					}
					if out.err != nil {
						// the legacy decoder may refuse the relay-pattern extension (left open)
						if !dc.full && pat != "" {
							continue
						}
						c.rejectedValid(out.err)
						continue
					}
					c.str("sid", out.sid, sid)
					c.str("type", out.typ, refProxyType(typ))
					c.str("nat", out.nat, refNAT(natv))
					if out.clients != cl {
						r.Fail("roundtrip:"+c.msg+":clients", fmt.Sprintf("%s: clients = %d, want %d", c.fn, out.clients, cl), info())
					}
					if dc.full {
						c.str("relay-pattern", out.pattern, pat)
						// a pattern given to the encoder is present, hence supported
						if withPattern && !out.aware {
							r.Fail("roundtrip:"+c.msg+":relay-pattern-support", fmt.Sprintf("%s: encoded relay pattern %s reported as unsupported", c.fn, show(pat)), info())
						}
					}
				}
			}
			var data []byte
			var err error
			if p, val, stack := en.Try(func() { data, err = EncodeProxyPollRequestWithRelayPrefix(sid, typ, natv, cl, pat) }); p {
				encPanic(kindName[kPPReq], stack, val, info())
			} else if err != nil {
				encRejected++
			} else {
				check("EncodeProxyPollRequestWithRelayPrefix", data, true)
			}
			if pi == 0 {
				if p, val, stack := en.Try(func() { data, err = EncodeProxyPollRequest(sid, typ, natv, cl) }); p {
					encPanic(kindName[kPPReq], stack, val, info())
				} else if err != nil {
					encRejected++
				} else {
					check("EncodeProxyPollRequest", data, false)
				}
			}
			if reason == "" && si > 8 && ti > 0 && pi > 0 && len(data) < 300 {
				h.sampleOnce("rt-proxy-poll-request", func() interface{} {
					return map[string]interface{}{"section": "rt-proxy-poll-request", "fields": info()}
				})
			}
		}
	}

	// ---- 2. proxy poll response --------------------------------------------------------------
	h.begin("rt-proxy-poll-response", "EncodePollResponseWithRelayURL/EncodePollResponse x both decoders; match: offer, NAT, relay URL over the string alphabet, valid iff offer non-empty and NAT empty or a name; no match: every fail reason over the alphabet + {no match, incorrect relay pattern}: never decoded as a match, 'no match' decodes without error")
	{
		o := en.NewOdometer(len(S), len(S), len(S), 2)
		for o.Next() {
			if !r.Mine() {
				continue
			}
			if h.timeUp() {
				break
			}
			h.cur = nil
			oi, ni, ui, fi := o.V[0], o.V[1], o.V[2], o.V[3]
			offer, natv, relay := S[oi], S[ni], S[ui]
			failReason := []string{"", "no match"}[fi]
			info := func() interface{} {
				return h.enc(map[string]interface{}{"success": true, "offer": show(offer), "nat": show(natv), "relay_url": show(relay), "fail_reason": failReason})
			}
			r.Case(fmt.Sprintf("ppresp|t|%d|%d|%d|%d", oi, ni, ui, fi), true)
			reason := ""
			if offer == "" {
				reason = "no-offer"
			} else if !natAllowed(natv) {
				reason = "nat-outside-names"
			}
			check := func(encName string, data []byte) {
				for _, dc := range []decoder{dPPRespFull, dPPResp} {
					out, ok := h.try(dc, data, info)
					if !ok {
						continue
					}
					c := cmpCtx{h, kindName[kPPResp], encName + "->" + dc.name, info}
					if reason != "" {
						if out.err == nil {
							c.acceptedInvalid(reason)
						}
						continue
					}
					if out.err != nil {
						if !dc.full && relay != "" {
							continue // legacy decoder may refuse the relay URL extension (left open)
						}
						c.rejectedValid(out.err)
						continue
					}
					c.str("offer", out.offer, offer)
					c.str("nat", out.nat, refNAT(natv))
					if dc.full {
						c.str("relay-url", out.relay, relay)
					}
				}
			}
			var data []byte
			var err error
			if p, val, stack := en.Try(func() { data, err = EncodePollResponseWithRelayURL(offer, true, natv, relay, failReason) }); p {
				encPanic(kindName[kPPResp], stack, val, info())
			} else if err != nil {
				encRejected++
			} else {
				check("EncodePollResponseWithRelayURL", data)
			}
			if ui == 0 && fi == 0 {
				if p, val, stack := en.Try(func() { data, err = EncodePollResponse(offer, true, natv) }); p {
					encPanic(kindName[kPPResp], stack, val, info())
				} else if err != nil {
					encRejected++
				} else {
					check("EncodePollResponse", data)
				}
			}
			if reason == "" && oi > 8 && ui > 0 && len(data) < 300 {
				h.sampleOnce("rt-proxy-poll-response", func() interface{} {
					return map[string]interface{}{"section": "rt-proxy-poll-response", "fields": info()}
				})
			}
		}
		reasons := append(append([]string{}, S...), "no match", "incorrect relay pattern")
		small := []string{"", "a", "unknown"}
		o = en.NewOdometer(len(reasons), len(small), len(small), len(small))
		for o.Next() {
			if !r.Mine() {
				continue
			}
			if h.timeUp() {
				break
			}
			h.cur = nil
			failReason, offer, natv, relay := reasons[o.V[0]], small[o.V[1]], small[o.V[2]], small[o.V[3]]
			info := func() interface{} {
				return h.enc(map[string]interface{}{"success": false, "offer": show(offer), "nat": show(natv), "relay_url": show(relay), "fail_reason": show(failReason)})
			}
			r.Case(fmt.Sprintf("ppresp|f|%v", o.V), true)
			check := func(encName string, data []byte, reasonSent string) {
				for _, dc := range []decoder{dPPRespFull, dPPResp} {
					out, ok := h.try(dc, data, info)
					if !ok {
						continue
					}
					fn := encName + "->" + dc.name
					if out.err == nil && out.offer != "" {
						r.Fail("roundtrip:"+kindName[kPPResp]+":no-match-decoded-as-match", fmt.Sprintf("%s: a no-match response decoded as offer %s", fn, show(out.offer)), info())
					}
					if reasonSent == "no match" && out.err != nil {
						r.Fail("roundtrip:"+kindName[kPPResp]+":valid-rejected", fmt.Sprintf("%s rejected the no-match response: %v", fn, out.err), info())
					}
				}
			}
			var data []byte
			var err error
			if p, val, stack := en.Try(func() { data, err = EncodePollResponseWithRelayURL(offer, false, natv, relay, failReason) }); p {
				encPanic(kindName[kPPResp], stack, val, info())
			} else if err != nil {
				encRejected++
			} else {
				check("EncodePollResponseWithRelayURL", data, failReason)
			}
			if o.V[0] == 0 && o.V[3] == 0 {
				if p, val, stack := en.Try(func() { data, err = EncodePollResponse(offer, false, natv) }); p {
					encPanic(kindName[kPPResp], stack, val, info())
				} else if err != nil {
					encRejected++
				} else {
					check("EncodePollResponse", data, "no match")
				}
			}
		}
	}

	// ---- 3. proxy answer request -------------------------------------------------------------
	h.begin("rt-proxy-answer-request", "EncodeAnswerRequest -> DecodeAnswerRequest; answer, sid over the string alphabet; valid iff both non-empty")
	{
		o := en.NewOdometer(len(S), len(S))
		for o.Next() {
			if !r.Mine() {
				continue
			}
			if h.timeUp() {
				break
			}
			h.cur = nil
			answer, sid := S[o.V[0]], S[o.V[1]]
			info := func() interface{} { return h.enc(map[string]interface{}{"answer": show(answer), "sid": show(sid)}) }
			r.Case(fmt.Sprintf("ansreq|%v", o.V), answer != "" || sid != "")
			var data []byte
			var err error
			if p, val, stack := en.Try(func() { data, err = EncodeAnswerRequest(answer, sid) }); p {
				encPanic(kindName[kAnsReq], stack, val, info())
				continue
			} else if err != nil {
				encRejected++
				continue
			}
			out, ok := h.try(dAnsReq, data, info)
			if !ok {
				continue
			}
			c := cmpCtx{h, kindName[kAnsReq], "EncodeAnswerRequest->DecodeAnswerRequest", info}
			reason := ""
			if sid == "" {
				reason = "no-sid"
			} else if answer == "" {
				reason = "no-answer"
			}
			if reason != "" {
				if out.err == nil {
					c.acceptedInvalid(reason)
				}
				continue
			}
			if out.err != nil {
				c.rejectedValid(out.err)
				continue
			}
			c.str("answer", out.answer, answer)
			c.str("sid", out.sid, sid)
			if o.V[0] > 8 && len(data) < 300 {
				h.sampleOnce("rt-proxy-answer-request", func() interface{} {
					return map[string]interface{}{"section": "rt-proxy-answer-request", "fields": info()}
				})
			}
		}
	}

	// ---- 4. proxy answer response ------------------------------------------------------------
	if r.Shard0() {
		h.begin("rt-proxy-answer-response", "EncodeAnswerResponse(true|false) -> DecodeAnswerResponse")
		for _, success := range []bool{true, false} {
			h.cur = nil
			info := func() interface{} { return h.enc(map[string]interface{}{"success": success}) }
			r.Case(fmt.Sprintf("ansresp|%v", success), true)
			var data []byte
			var err error
			if p, val, stack := en.Try(func() { data, err = EncodeAnswerResponse(success) }); p {
				encPanic(kindName[kAnsResp], stack, val, info())
				continue
			} else if err != nil {
				encRejected++
				continue
			}
			out, ok := h.try(dAnsResp, data, info)
			if !ok {
				continue
			}
			if out.err != nil {
				cmpCtx{h, kindName[kAnsResp], "EncodeAnswerResponse->DecodeAnswerResponse", info}.rejectedValid(out.err)
			} else if out.success != success {
				r.Fail("roundtrip:"+kindName[kAnsResp]+":success", fmt.Sprintf("success = %v, want %v", out.success, success), info())
			}
		}
	}

	// ---- 5. client poll request --------------------------------------------------------------
	h.begin("rt-client-poll-request", fmt.Sprintf("ClientPollRequest.EncodeClientPollRequest -> DecodeClientPollRequest; offer, NAT over the string alphabet, fingerprint over %d values (empty, 20/32 bytes upper/lower/mixed case, 19/21/31/33/64 bytes, odd length, non-hex, blanks, 0x prefix, non-ASCII, 70 kB); valid iff offer non-empty, NAT empty or a name, fingerprint empty or 40/64 hex digits", len(fpAlphabet)))
	{
		o := en.NewOdometer(len(S), len(S), len(fpAlphabet))
		for o.Next() {
			if !r.Mine() {
				continue
			}
			if h.timeUp() {
				break
			}
			h.cur = nil
			offer, natv, fp := S[o.V[0]], S[o.V[1]], fpAlphabet[o.V[2]]
			info := func() interface{} {
				return h.enc(map[string]interface{}{"offer": show(offer), "nat": show(natv), "fingerprint": show(fp)})
			}
			r.Case(fmt.Sprintf("clireq|%v", o.V), offer != "" || natv != "" || fp != "")
			var data []byte
			var err error
			if p, val, stack := en.Try(func() {
				m := &ClientPollRequest{Offer: offer, NAT: natv, Fingerprint: fp}
				data, err = m.EncodeClientPollRequest()
			}); p {
				encPanic(kindName[kCliReq], stack, val, info())
				continue
			} else if err != nil {
				encRejected++
				continue
			}
			out, ok := h.try(dCliReq, data, info)
			if !ok {
				continue
			}
			c := cmpCtx{h, kindName[kCliReq], "EncodeClientPollRequest->DecodeClientPollRequest", info}
			reason := ""
			switch {
			case offer == "":
				reason = "no-offer"
			case !natAllowed(natv):
				reason = "nat-outside-names"
			case fp != "" && !refFingerprintOK(fp):
				reason = "fingerprint"
			}
			if reason != "" {
				if out.err == nil {
					c.acceptedInvalid(reason)
				}
				continue
			}
			if out.err != nil {
				c.rejectedValid(out.err)
				continue
			}
			c.str("offer", out.offer, offer)
			c.str("nat", out.nat, refNAT(natv))
			c.str("fingerprint", out.fp, refFingerprint(fp))
			if o.V[0] > 8 && len(data) < 300 {
				h.sampleOnce("rt-client-poll-request", func() interface{} {
					return map[string]interface{}{"section": "rt-client-poll-request", "fields": info()}
				})
			}
		}
	}

	// ---- 6. client poll response -------------------------------------------------------------
	h.begin("rt-client-poll-response", "ClientPollResponse.EncodePollResponse -> DecodeClientPollResponse; answer, error over the string alphabet; valid iff not both empty")
	{
		o := en.NewOdometer(len(S), len(S))
		for o.Next() {
			if !r.Mine() {
				continue
			}
			if h.timeUp() {
				break
			}
			h.cur = nil
			answer, es := S[o.V[0]], S[o.V[1]]
			info := func() interface{} { return h.enc(map[string]interface{}{"answer": show(answer), "error": show(es)}) }
			r.Case(fmt.Sprintf("cliresp|%v", o.V), answer != "" || es != "")
			var data []byte
			var err error
			if p, val, stack := en.Try(func() {
				m := &ClientPollResponse{Answer: answer, Error: es}
				data, err = m.EncodePollResponse()
			}); p {
				encPanic(kindName[kCliResp], stack, val, info())
				continue
			} else if err != nil {
				encRejected++
				continue
			}
			out, ok := h.try(dCliResp, data, info)
			if !ok {
				continue
			}
			c := cmpCtx{h, kindName[kCliResp], "EncodePollResponse->DecodeClientPollResponse", info}
			if answer == "" && es == "" {
				if out.err == nil {
					c.acceptedInvalid("neither-answer-nor-error")
				}
				continue
			}
			if out.err != nil {
				c.rejectedValid(out.err)
				continue
			}
			c.str("answer", out.answer, answer)
			c.str("error", out.errField, es)
			if o.V[0] > 8 && len(data) < 300 {
				h.sampleOnce("rt-client-poll-response", func() interface{} {
					return map[string]interface{}{"section": "rt-client-poll-response", "fields": info()}
				})
			}
		}
	}
	if encRejected > 0 {
		// allowed by the statement (no encoded message, nothing to round-trip); not seen with valid UTF-8
		r.Sample(map[string]interface{}{"note": "an encoder returned an error for some field tuples (allowed)", "count_in_shard": encRejected})
	}

	// ---- 7. documented defaults on documents of older protocol versions -----------------------
	h.begin("defaults", "documents written by a reference encoder for protocol versions 1.0-1.3 (optional members absent/empty/present, two member orders): must be accepted and decoded with the documented defaults (missing NAT = unknown, missing fingerprint = default bridge, unrecognised/absent type = unknown, absent relay pattern = unsupported)")
	{
		defFail := func(kind int, field, msg string, doc string) {
			r.Fail("default:"+kindName[kind]+":"+field, msg+" on "+show(doc), map[string]interface{}{"message": kindName[kind], "document": show(doc)})
		}
		// run: must be accepted by dc (unless skip), then fields compared by consistency()
		run := func(kind int, doc string, mustAccept func(dc decoder) bool) {
			key := "def|" + kindName[kind] + "|" + doc
			if !h.mineKey(key) || h.timeUp() {
				return
			}
			r.Case(key, true)
			data := []byte(doc)
			a := analyse(kind, data)
			info := func() interface{} { return map[string]interface{}{"message": kindName[kind], "document": show(doc)} }
			if a.reason != "" {
				r.Fail("harness:defaults-document-invalid", "reference encoder produced a document the reference rejects: "+a.reason, info())
				return
			}
			for _, dc := range decodersOf(kind) {
				o, ok := h.try(dc, data, info)
				if !ok {
					continue
				}
				if o.err != nil {
					if mustAccept(dc) {
						defFail(kind, "rejected", fmt.Sprintf("%s rejected a valid document: %v", dc.name, o.err), doc)
					}
					continue
				}
				for _, m := range consistency(kind, dc, &a, o) {
					defFail(kind, m.field, dc.name+": "+m.msg, doc)
				}
			}
		}
		always := func(decoder) bool { return true }
		orders := func(m []kv, f func(doc string)) {
			f(object(m))
			f(object(reversed(m)))
		}
		sids := []string{"a", `x"y`, "é", "ymbcCMto7KHNGYlp"}
		versions := []string{"1.0", "1.1", "1.2", "1.3"}
		types := []string{absent, "", "standalone", "webext", "badge", "iptproxy", "foo", "Standalone"}
		nats := []string{absent, "", "unknown", "restricted", "unrestricted"}
		clients := []string{"", "0", "8", "24"}
		patterns := []string{absent, "", "a", "snowflake.torproject.net$"}
		o := en.NewOdometer(len(sids), len(versions), len(types), len(nats), len(clients), len(patterns))
		for o.Next() {
			if h.stop {
				break
			}
			pat := patterns[o.V[5]]
			m := []kv{{"Sid", jstr(sids[o.V[0]])}, {"Version", jstr(versions[o.V[1]])}, {"Type", optRaw(types[o.V[2]])}, {"NAT", optRaw(nats[o.V[3]])}, {"Clients", clients[o.V[4]]}, {"AcceptedRelayPattern", optRaw(pat)}}
			orders(m, func(doc string) {
				run(kPPReq, doc, func(dc decoder) bool { return dc.full || optStr(pat) == "" })
			})
		}
		offers := []string{"a", `x"y`, "{\"type\":\"offer\",\"sdp\":\"v=0\\r\\n\"}", "é\n<&>"}
		relays := []string{absent, "", "wss://snowflake.torproject.net/"}
		o = en.NewOdometer(len(offers), len(nats), len(relays))
		for o.Next() {
			if h.stop {
				break
			}
			rel := relays[o.V[2]]
			m := []kv{{"Status", jstr("client match")}, {"Offer", jstr(offers[o.V[0]])}, {"NAT", optRaw(nats[o.V[1]])}, {"RelayURL", optRaw(rel)}}
			orders(m, func(doc string) {
				run(kPPResp, doc, func(dc decoder) bool { return dc.full || optStr(rel) == "" })
			})
		}
		for _, doc := range []string{`{"Status":"no match"}`, `{"Status":"no match","Offer":"","NAT":"","RelayURL":""}`} {
			run(kPPResp, doc, always)
		}
		o = en.NewOdometer(len(versions), len(sids), len(offers))
		for o.Next() {
			if h.stop {
				break
			}
			m := []kv{{"Version", jstr(versions[o.V[0]])}, {"Sid", jstr(sids[o.V[1]])}, {"Answer", jstr(offers[o.V[2]])}}
			orders(m, func(doc string) { run(kAnsReq, doc, always) })
		}
		for _, doc := range []string{`{"Status":"success"}`, `{"Status":"client gone"}`} {
			run(kAnsResp, doc, always)
		}
		fps := []string{absent, "", refDefaultFingerprint, strings.ToLower(refDefaultFingerprint), strings.Repeat("0F", 32)}
		o = en.NewOdometer(len(offers), len(nats), len(fps))
		for o.Next() {
			if h.stop {
				break
			}
			m := []kv{{"offer", jstr(offers[o.V[0]])}, {"nat", optRaw(nats[o.V[1]])}, {"fingerprint", optRaw(fps[o.V[2]])}}
			orders(m, func(doc string) { run(kCliReq, "1.0\n"+doc, always) })
		}
		for _, s := range offers {
			for _, other := range []string{absent, ""} {
				orders([]kv{{"answer", jstr(s)}, {"error", optRaw(other)}}, func(doc string) { run(kCliResp, doc, always) })
				orders([]kv{{"error", jstr(s)}, {"answer", optRaw(other)}}, func(doc string) { run(kCliResp, doc, always) })
			}
		}
	}

	// ---- 8. JSON shape lattice ---------------------------------------------------------------
	shape := []string{"", `null`, `0`, `1`, `true`, `{}`, `[]`, `""`}
	with := func(extra ...string) []string { return append(append([]string{}, shape...), extra...) }
	versionLits := with(`"1.3"`, `"1.0"`, `"1"`, `"1."`, `"2.0"`, `"0.9"`, `"11.0"`, `"01.0"`, `" 1.0"`, `".1"`, `"1x.0"`, `"-1.0"`, `"1.3.1"`, `"１.0"`)
	natLits := with(`"unknown"`, `"restricted"`, `"unrestricted"`, `"foo"`, `"Unknown"`, `"unknown "`)
	clientLits := []string{"", `null`, `0`, `8`, `-1`, `1.5`, `1e2`, `9223372036854775807`, `9223372036854775808`, `true`, `""`, `"8"`, `{}`, `[]`}
	fpLits := with(jstr(refDefaultFingerprint), jstr(strings.ToLower(refDefaultFingerprint)), jstr(strings.Repeat("0f", 32)), jstr(refDefaultFingerprint[:38]), jstr(refDefaultFingerprint+"00"), jstr("G"+refDefaultFingerprint[1:]), jstr(refDefaultFingerprint[:39]), `"foo"`)
	type fieldAlpha struct {
		name string
		lits []string
	}
	lattice := [][]fieldAlpha{
		kPPReq:   {{"Sid", with(`"a"`, `"x\"y"`)}, {"Version", versionLits}, {"Type", with(`"standalone"`, `"foo"`)}, {"NAT", natLits}, {"Clients", clientLits}, {"AcceptedRelayPattern", with(`"a"`)}},
		kPPResp:  {{"Status", with(`"client match"`, `"no match"`, `"foo"`, `"Client match"`)}, {"Offer", with(`"a"`, `"x\"y"`)}, {"NAT", natLits}, {"RelayURL", with(`"wss://a/"`)}},
		kAnsReq:  {{"Version", versionLits}, {"Sid", with(`"a"`, `"x\"y"`)}, {"Answer", with(`"a"`, `"x\"y"`)}},
		kAnsResp: {{"Status", with(`"success"`, `"client gone"`, `"foo"`, `"Success"`)}},
		kCliReq:  {{"offer", with(`"a"`, `"x\"y"`)}, {"nat", natLits}, {"fingerprint", fpLits}},
		kCliResp: {{"answer", with(`"a"`, `"x\"y"`)}, {"error", with(`"a"`, `"x\"y"`)}},
	}
	prefixOf := func(kind int) string {
		if kind == kCliReq {
			return "1.0\n"
		}
		return ""
	}
	var docBuf []byte
	for kind := 0; kind < nKinds && !h.stop; kind++ {
		fa := lattice[kind]
		radix := make([]int, len(fa))
		total := 1
		frag := make([][]string, len(fa)) // "name":literal, or empty for an absent member
		for i := range fa {
			radix[i] = len(fa[i].lits)
			total *= radix[i]
			for _, lit := range fa[i].lits {
				if lit == "" {
					frag[i] = append(frag[i], "")
				} else {
					frag[i] = append(frag[i], jstr(fa[i].name)+":"+lit)
				}
			}
		}
		h.begin("shapes-"+kindName[kind], fmt.Sprintf("every member in {absent, null, 0, 1, true, {}, [], \"\"} + valid/invalid values (versions 1.3 1.0 1 1. 2.0 0.9 11.0 01.0 ' 1.0' .1 1x.0 -1.0 1.3.1 fullwidth; NAT names, foo, Unknown; ...): full product of %d documents; plus top level in {object, array, null, number, string, bool, empty, blank, garbage, doubled, BOM, trailing bytes}", total))
		o := en.NewOdometer(radix...)
		for o.Next() {
			if h.stop {
				break
			}
			docBuf = append(docBuf[:0], prefixOf(kind)...)
			docBuf = append(docBuf, '{')
			first := true
			for i, v := range o.V {
				if frag[i][v] == "" {
					continue
				}
				if !first {
					docBuf = append(docBuf, ',')
				}
				first = false
				docBuf = append(docBuf, frag[i][v]...)
			}
			docBuf = append(docBuf, '}')
			h.checkDoc(kind, docBuf, "shape lattice")
		}
		// top-level shapes around a valid document
		valid := validDocs(kind)[0]
		body := valid[len(prefixOf(kind)):]
		for _, top := range []string{"", " ", "\n", "null", "0", "1", "-1", "1.5", "true", "false", `""`, `"a"`, jstr(body), "[]", "[" + body + "]", "[[]]", "{}", "{{}}", "{", "}", "[", "]", `"`, "garbage", "nul", "\x00", "\xff", "\xef\xbb\xbf" + body, body + body, body + " ", " " + body, "\n" + body + "\n", body + "x", body + "}", body + ",", body + "\x00", `{"a":1}`, `{"":""}`, `{"a":{"Sid":"a","Version":"1.0","offer":"a","answer":"a"}}`, strings.Repeat("[", 100), strings.Repeat("[", 20000), strings.Repeat("{\"a\":", 20000), strings.Repeat("[", 100) + strings.Repeat("]", 100)} {
			h.checkDoc(kind, []byte(prefixOf(kind)+top), "top-level shape")
		}
	}

	// ---- 9. client version line --------------------------------------------------------------
	h.begin("versionline", "client poll request: version line in {1.0, 1.3, 1, 1., 2.0, empty, 0.9, 11.0, 01.0, ' 1.0', '1.0 ', 1.00, 1.0.0, v1.0, fullwidth, 2, 10, -1.0} x separator {LF, none, CRLF, LFLF, blank, CR} x body {valid, {}, empty, valid+LF, not JSON, member version 2.0}")
	{
		vbody := `{"offer":"a","nat":"unknown","fingerprint":"` + refDefaultFingerprint + `"}`
		for _, v := range []string{"1.0", "1.3", "1", "1.", "2.0", "", "0.9", "11.0", "01.0", " 1.0", "1.0 ", "1.00", "1.0.0", "v1.0", "１.0", "2", "10", "-1.0"} {
			for _, sep := range []string{"\n", "", "\r\n", "\n\n", " ", "\r"} {
				for _, body := range []string{vbody, "{}", "", vbody + "\n", "x", `{"version":"2.0","offer":"a"}`, `{"offer":` + "\n" + `"a"}`} {
					h.checkDoc(kCliReq, []byte(v+sep+body), "version line")
				}
			}
		}
	}

	// ---- 9b. encoded messages stay what they are while further messages are encoded ------------
	h.begin("outstanding", "every encoder: message A is encoded, then messages B and C of the same and of other kinds, and only then A's bytes are compared with a copy taken right after A was encoded (an encoder must not hand out memory it reuses for the next message)")
	{
		type encFn struct {
			name string
			f    func(i int) ([]byte, error)
		}
		strs := []string{"a", "bb", "offer-with-a-longer-text-0123456789", "x"}
		encs := []encFn{
			{"EncodeProxyPollRequestWithRelayPrefix", func(i int) ([]byte, error) {
				return EncodeProxyPollRequestWithRelayPrefix("sid"+strs[i%4], "standalone", "unknown", i, strs[(i+1)%4])
			}},
			{"EncodeProxyPollRequest", func(i int) ([]byte, error) { return EncodeProxyPollRequest("sid"+strs[i%4], "webext", "restricted", i) }},
			{"EncodePollResponseWithRelayURL", func(i int) ([]byte, error) {
				return EncodePollResponseWithRelayURL(strs[i%4], true, "unknown", "wss://"+strs[(i+2)%4]+".example/", "")
			}},
			{"EncodePollResponse", func(i int) ([]byte, error) { return EncodePollResponse(strs[i%4], true, "restricted") }},
			{"EncodeAnswerRequest", func(i int) ([]byte, error) { return EncodeAnswerRequest(strs[i%4], "sid"+strs[(i+3)%4]) }},
			{"EncodeAnswerResponse", func(i int) ([]byte, error) { return EncodeAnswerResponse(i%2 == 0) }},
			{"ClientPollRequest.EncodeClientPollRequest", func(i int) ([]byte, error) {
				return (&ClientPollRequest{Offer: strs[i%4], NAT: "unknown", Fingerprint: refDefaultFingerprint}).EncodeClientPollRequest()
			}},
			{"ClientPollResponse.EncodePollResponse", func(i int) ([]byte, error) {
				return (&ClientPollResponse{Answer: strs[i%4], Error: ""}).EncodePollResponse()
			}},
		}
		for ai, a := range encs {
			for bi, b := range encs {
				for i := 0; i < 4; i++ {
					key := fmt.Sprintf("out|%d|%d|%d", ai, bi, i)
					if !h.mineKey(key) {
						continue
					}
					h.r.Case(key, true)
					first, err := a.f(i)
					if err != nil {
						continue
					}
					keep := append([]byte(nil), first...)
					for j := 1; j <= 3; j++ {
						b.f(i + j)
						a.f(i + j)
					}
					if !bytes.Equal(first, keep) {
						h.r.Fail("outstanding:encoded-bytes-changed", fmt.Sprintf("%s returned %s; after three more messages were encoded with %s and %s the same slice reads %s", a.name, showBytes(keep), b.name, a.name, showBytes(first)), map[string]interface{}{"first": a.name, "then": b.name, "i": i})
					}
				}
			}
		}
	}

	// ---- 10. truncations and mutations of valid documents ------------------------------------
	h.begin("truncation", "every proper prefix and every proper suffix of the valid documents of each message (real encoder output and hand-written older versions)")
	for kind := 0; kind < nKinds && !h.stop; kind++ {
		for _, doc := range validDocs(kind) {
			b := []byte(doc)
			for cut := 0; cut < len(b); cut++ {
				h.checkDoc(kind, b[:cut], "prefix of "+doc)
				if cut > 0 {
					h.checkDoc(kind, b[cut:], "suffix of "+doc)
				}
			}
		}
	}
	ins := []byte("{}[]\":,\\ \n01aN.\x00\xff")
	h.begin("mutation", "valid documents of each message with: every byte replaced by each of the 255 other values; every byte deleted; every adjacent pair swapped; each of "+strconv.Itoa(len(ins))+" bytes inserted at every position; thorough: every pair of replacements at structural bytes ({}[]\":,. digits and first letters of values) from a 10-byte alphabet")
	for kind := 0; kind < nKinds && !h.stop; kind++ {
		for di, doc := range validDocs(kind) {
			b := []byte(doc)
			buf := make([]byte, len(b))
			for i := range b {
				if h.stop {
					break
				}
				copy(buf, b)
				for v := 0; v < 256; v++ {
					if byte(v) == b[i] {
						continue
					}
					buf[i] = byte(v)
					h.checkDoc(kind, buf, "replace byte in "+doc)
				}
				del := append(append([]byte{}, b[:i]...), b[i+1:]...)
				h.checkDoc(kind, del, "delete byte in "+doc)
				if i+1 < len(b) && b[i] != b[i+1] {
					copy(buf, b)
					buf[i], buf[i+1] = buf[i+1], buf[i]
					h.checkDoc(kind, buf, "swap bytes in "+doc)
				}
			}
			for i := 0; i <= len(b) && !h.stop; i++ {
				for _, c := range ins {
					m := append(append(append([]byte{}, b[:i]...), c), b[i:]...)
					h.checkDoc(kind, m, "insert byte in "+doc)
				}
			}
			if r.Thorough() && di < 2 {
				var pos []int
				for i, c := range b {
					if strings.IndexByte("{}[]\":,.\n0123456789", c) >= 0 || (i > 0 && b[i-1] == '"') {
						pos = append(pos, i)
					}
				}
				repl := []byte("\"{}:,\\ 2xN")
				for x := 0; x < len(pos) && !h.stop; x++ {
					for y := x + 1; y < len(pos); y++ {
						for _, c1 := range repl {
							for _, c2 := range repl {
								copy(buf, b)
								buf[pos[x]], buf[pos[y]] = c1, c2
								h.checkDoc(kind, buf, "replace two bytes in "+doc)
							}
						}
					}
				}
			}
		}
	}

	// ---- 11. token strings -------------------------------------------------------------------
	maxTok, maxCtx := 5, 3
	if r.Thorough() {
		maxTok, maxCtx = 6, 4
	}
	h.begin("tokens", fmt.Sprintf("all sequences of <=%d tokens over {{ } [ ] : , null 1 \"\" \"a\" + the member names and significant values of the message}, offered alone, and (<=%d tokens) spliced into a valid document before the closing brace and after the opening brace", maxTok, maxCtx))
	tokenSets := [][]string{
		kPPReq:   {`"Sid"`, `"Version"`, `"NAT"`, `"1.0"`, `"2.0"`},
		kPPResp:  {`"Status"`, `"Offer"`, `"NAT"`, `"client match"`},
		kAnsReq:  {`"Sid"`, `"Version"`, `"Answer"`, `"1.0"`, `"2.0"`},
		kAnsResp: {`"Status"`, `"success"`},
		kCliReq:  {`"offer"`, `"nat"`, `"fingerprint"`, `"unknown"`},
		kCliResp: {`"answer"`, `"error"`},
	}
	for kind := 0; kind < nKinds && !h.stop; kind++ {
		toks := append([]string{"{", "}", "[", "]", ":", ",", "null", "1", `""`, `"a"`}, tokenSets[kind]...)
		valid := validDocs(kind)[0]
		pre := prefixOf(kind)
		body := valid[len(pre):]
		inner := body[1 : len(body)-1]
		en.Strings(toks, maxTok, func(t []string) bool {
			s := strings.Join(t, "")
			h.checkDoc(kind, []byte(pre+s), "token string")
			if len(t) >= 1 && len(t) <= maxCtx {
				h.checkDoc(kind, []byte(pre+"{"+inner+","+s+"}"), "tokens appended to the members of a valid document")
				h.checkDoc(kind, []byte(pre+"{"+s+","+inner+"}"), "tokens prepended to the members of a valid document")
			}
			return !h.stop
		})
	}
}

// validDocs: a few valid documents per message; the first one has every member present.
func validDocs(kind int) []string {
	must := func(b []byte, err error) string {
		if err != nil {
			panic(err)
		}
		return string(b)
	}
	switch kind {
	case kPPReq:
		return []string{
			must(EncodeProxyPollRequestWithRelayPrefix("s1", "standalone", "restricted", 8, "snowflake.torproject.net$")),
			`{"Sid":"ymbcCMto7KHNGYlp","Version":"1.0"}`,
			`{"Sid":"a","Version":"1.2","Type":"webext", "NAT":"unknown","Clients":24}`,
		}
	case kPPResp:
		return []string{
			must(EncodePollResponseWithRelayURL(`{"type":"offer","sdp":"v=0\r\n"}`, true, "unrestricted", "wss://a/", "")),
			must(EncodePollResponse("", false, "")),
			`{"Status":"client match","Offer":"fake offer","NAT":"unknown"}`,
		}
	case kAnsReq:
		return []string{
			must(EncodeAnswerRequest(`{"type":"answer","sdp":"v=0\r\n"}`, "s1")),
			`{"Version":"1.0","Sid":"test","Answer":"test"}`,
		}
	case kAnsResp:
		return []string{must(EncodeAnswerResponse(true)), must(EncodeAnswerResponse(false))}
	case kCliReq:
		return []string{
			must((&ClientPollRequest{Offer: `{"type":"offer","sdp":"v=0\r\n"}`, NAT: "restricted", Fingerprint: strings.Repeat("0f", 20)}).EncodeClientPollRequest()),
			"1.0\n{\"offer\":\"fake\"}",
			"1.0\n{\"nat\":\"unknown\",\"offer\":\"fake\",\"fingerprint\":\"" + strings.Repeat("A1", 32) + "\"}",
		}
	case kCliResp:
		return []string{
			must((&ClientPollResponse{Answer: `{"type":"answer","sdp":"v=0\r\n"}`}).EncodePollResponse()),
			must((&ClientPollResponse{Error: "no snowflake proxies currently available"}).EncodePollResponse()),
			`{"answer":"a","error":""}`,
		}
	}
	return nil
}
