//go:build go1.21

package sinkcluster

import "encoding/json"

func jsonUnmarshal(b []byte, v interface{}) error { return json.Unmarshal(b, v) }
