//go:build go1.21

package sinkcluster

// C19 — the distinct-IP journal: only keyed-hash sketches are stored, and the merged estimate over a
// time window matches the distinct addresses recorded in the chunks inside that window.
// The writer's clock (time.Now) is injected: the build overlays writer.go with a copy whose "time"
// import is a small shim with a settable Now (see checks/c19.py).

import (
	"bytes"
	"fmt"
	"strings"
	"testing"
	"time"

	"git.torproject.org/pluggable-transports/snowflake.git/v2/common/ipsetsink"
	"git.torproject.org/pluggable-transports/snowflake.git/v2/verifclock"
	en "git.torproject.org/pluggable-transports/snowflake.git/v2/verifenum"
)

type syncBuf struct {
	bytes.Buffer
	lines  []string
	calls  int
	failAt int // the failAt-th Write fails and writes nothing (0: never)
}

func (s *syncBuf) Sync() error { return nil }

func (s *syncBuf) Write(p []byte) (int, error) {
	s.calls++
	if s.calls == s.failAt {
		return 0, fmt.Errorf("disk full")
	}
	return s.Buffer.Write(p)
}

func addrN(i int) string { return fmt.Sprintf("10.%d.%d.%d", i>>16&255, i>>8&255, i&255) }

func TestVerifEnumC19Journal(t *testing.T) {
	r := en.New()
	defer r.Done()
	epoch := time.Unix(1_600_000_000, 0).UTC()
	const interval = time.Hour

	// a journal is built from a list of chunks; chunk k receives its addresses spread over the k-th
	// interval; the writer flushes a chunk lazily when the first address after the interval arrives
	type chunkSpec struct{ first, n int } // addresses addrN(first..first+n-1)
	failAt := 0                           // which flush of the journal fails (set by the sections below)
	var perEntryTimes []map[string]time.Time
	build := func(chunks []chunkSpec) (journal []byte, entries []SinkEntry, perEntry []map[string]bool, err error) {
		verifclock.Set(epoch)
		var out syncBuf
		out.failAt = failAt
		perEntryTimes = nil
		currentTimes := map[string]time.Time{}
		w := NewClusterWriter(&out, interval, ipsetsink.NewIPSetSink("masking-key"))
		current := map[string]bool{}
		flushWatch := func() {
			// learn which addresses went into which chunk by watching lines arrive at the writer
			for strings.Count(out.String(), "\n") > len(perEntry) {
				perEntry = append(perEntry, current)
				perEntryTimes = append(perEntryTimes, currentTimes)
				current = map[string]bool{}
				currentTimes = map[string]time.Time{}
			}
		}
		for k, c := range chunks {
			for i := 0; i < c.n; i++ {
				// strictly inside the k-th interval (the first add of a new interval triggers the flush)
				verifclock.Set(epoch.Add(time.Duration(k)*(interval+time.Minute) + time.Minute + time.Duration(i)*time.Millisecond))
				before := out.Len()
				a := addrN(c.first + i)
				w.AddIPToSet(a)
				if out.Len() != before {
					flushWatch()
				}
				current[a] = true
				if _, seen := currentTimes[a]; !seen {
					currentTimes[a] = verifclock.Now()
				}
			}
		}
		// a final flush so that the last chunk is on disk as well (twice, in case the first one is the
		// flush that fails)
		verifclock.Set(epoch.Add(time.Duration(len(chunks)) * (interval + time.Minute)))
		w.WriteIPSetToDisk()
		flushWatch()
		if out.failAt != 0 {
			verifclock.Set(epoch.Add(time.Duration(len(chunks))*(interval+time.Minute) + time.Minute))
			w.WriteIPSetToDisk()
			flushWatch()
		}
		journal = out.Bytes()
		for _, line := range bytes.Split(bytes.TrimSpace(journal), []byte("\n")) {
			if len(line) == 0 {
				continue
			}
			var e SinkEntry
			if err := jsonUnmarshal(line, &e); err != nil {
				return journal, nil, nil, err
			}
			entries = append(entries, e)
		}
		return journal, entries, perEntry, nil
	}

	check := func(name string, chunks []chunkSpec, exact bool) {
		journal, entries, perEntry, err := build(chunks)
		if err != nil {
			r.Fail("journal:unreadable-line", err.Error(), name)
			return
		}
		if len(entries) != len(perEntry) {
			r.Fail("journal:harness", fmt.Sprintf("%d entries but %d flushes observed", len(entries), len(perEntry)), name)
			return
		}
		// every chunk covers the moments at which its addresses were recorded (a window can only report
		// addresses seen during it)
		for k, e := range entries {
			for a, at := range perEntryTimes[k] {
				if at.Before(e.RecordingStart) || at.After(e.RecordingEnd) {
					r.Fail("journal:chunk-does-not-cover-its-addresses", fmt.Sprintf("chunk %d claims [%v, %v] but holds address %s recorded at %v", k, e.RecordingStart, e.RecordingEnd, a, at), name)
					return
				}
			}
		}
		// no address text in the file
		for _, c := range chunks {
			for i := 0; i < c.n && i < 50; i++ {
				if bytes.Contains(journal, []byte(addrN(c.first+i))) {
					r.Fail("journal:address-in-clear", "the journal contains the text of address "+addrN(c.first+i), name)
					return
				}
			}
		}
		// all windows whose ends are chunk edges, one nanosecond inside/outside them, or far away
		var edges []time.Time
		edges = append(edges, epoch.Add(-time.Hour), epoch.Add(1000*time.Hour))
		for _, e := range entries {
			for _, d := range []time.Duration{-time.Nanosecond, 0, time.Nanosecond} {
				edges = append(edges, e.RecordingStart.Add(d), e.RecordingEnd.Add(d))
			}
		}
		// the lines of a journal need not be in chronological order (rotated files concatenated, two
		// writers, a clock set back): every order of the same lines must give the same answers
		lines := bytes.Split(bytes.TrimSpace(journal), []byte("\n"))
		orders := [][]int{nil}
		if exact && len(lines) >= 2 && len(lines) <= 4 {
			orders = permutations(len(lines))
		}
		for oi, order := range orders {
			journal := journal
			if order != nil {
				var b bytes.Buffer
				for _, k := range order {
					b.Write(lines[k])
					b.WriteByte('\n')
				}
				journal = b.Bytes()
			}
			for _, from := range edges {
				for _, to := range edges {
					if to.Before(from) {
						continue
					}
					res, err := NewClusterCounter(from, to).Count(bytes.NewReader(journal))
					r.Case(fmt.Sprintf("%s|%d|%d|%d", name, oi, from.UnixNano(), to.UnixNano()), true)
					if order != nil && oi > 0 {
						name = strings.SplitN(name, " [lines in order", 2)[0] + fmt.Sprintf(" [lines in order %v]", order)
					}
					if err != nil {
						r.Fail("journal:count-error", fmt.Sprintf("Count failed on a journal written by ClusterWriter: %v", err), name)
						return
					}
					want := map[string]bool{}
					var inc int64
					for k, e := range entries {
						if !e.RecordingStart.Before(from) && !e.RecordingEnd.After(to) {
							inc++
							for a := range perEntry[k] {
								want[a] = true
							}
						}
					}
					if res.ChunkIncluded != inc {
						r.Fail("journal:wrong-chunks-selected", fmt.Sprintf("window [%v, %v]: %d chunks included, %d lie inside the window", from, to, res.ChunkIncluded, inc), name)
						return
					}
					n := uint64(len(want))
					if exact {
						if res.Sum != n {
							r.Fail("journal:small-set-not-exact", fmt.Sprintf("window over %d chunks: estimate %d for %d distinct addresses", inc, res.Sum, n), name)
							return
						}
					} else {
						lo, hi := float64(n)*0.98, float64(n)*1.02
						if float64(res.Sum) < lo || float64(res.Sum) > hi {
							r.Fail("journal:estimate-outside-2-percent", fmt.Sprintf("window over %d chunks: estimate %d for %d distinct addresses", inc, res.Sum, n), name)
							return
						}
					}
				}
			}
		}
	}

	r.Begin("journal-small", "chunkings of address multisets of size 0..64 into <= 3 chunks (with overlaps between chunks) x all windows whose ends are chunk edges +-1 ns: chunks selected = those inside the window, estimate exact; for journals of 2-4 lines the same for every order of the lines in the file")
	sizes := []int{0, 1, 2, 7, 8, 33, 64}
	for _, a := range sizes {
		if !r.Mine() {
			continue
		}
		check(fmt.Sprintf("1chunk:%d", a), []chunkSpec{{0, a}}, true)
		for _, b := range sizes {
			// second chunk overlaps the first by half
			check(fmt.Sprintf("2chunks:%d,%d", a, b), []chunkSpec{{0, a}, {a / 2, b}}, true)
			for _, c := range []int{0, 1, 8} {
				check(fmt.Sprintf("3chunks:%d,%d,%d", a, b, c), []chunkSpec{{0, a}, {a / 2, b}, {0, c}}, true)
			}
		}
	}
	r.Begin("journal-failed-flush", "the same chunkings with the 1st, 2nd, 3rd or 4th flush of the journal failing once (Write returns an error and writes nothing; the next flush succeeds): every chunk on disk covers the moments at which its addresses were recorded, windows select and count as before")
	for failAt = 1; failAt <= 4; failAt++ {
		for _, a := range []int{1, 2, 8} {
			if !r.Mine() {
				continue
			}
			check(fmt.Sprintf("fail%d:1chunk:%d", failAt, a), []chunkSpec{{0, a}}, true)
			for _, b := range []int{0, 1, 8} {
				check(fmt.Sprintf("fail%d:2chunks:%d,%d", failAt, a, b), []chunkSpec{{0, a}, {a / 2, b}}, true)
				for _, c := range []int{1, 8} {
					check(fmt.Sprintf("fail%d:3chunks:%d,%d,%d", failAt, a, b, c), []chunkSpec{{0, a}, {a / 2, b}, {20, c}}, true)
				}
			}
		}
	}
	failAt = 0
	r.Begin("journal-large", "10^3 and 10^5 addresses (deterministic: fixed key): estimate within 2 %, journal readable")
	if r.Shard0() {
		check("large:1000", []chunkSpec{{0, 1000}}, false)
		r.Sample(map[string]interface{}{"case": "1 chunk of 1000 addresses + windows"})
	}
	if _, n := r.Shard(); n == 1 || func() bool { s, _ := r.Shard(); return s == 1 }() {
		check("large:100000+1000", []chunkSpec{{0, 100000}, {50000, 1000}}, false)
	}
}

// permutations of 0..n-1, the identity first.
func permutations(n int) [][]int {
	var out [][]int
	var rec func(cur []int, used []bool)
	rec = func(cur []int, used []bool) {
		if len(cur) == n {
			out = append(out, append([]int(nil), cur...))
			return
		}
		for i := 0; i < n; i++ {
			if !used[i] {
				used[i] = true
				rec(append(cur, i), used)
				used[i] = false
			}
		}
	}
	rec(nil, make([]bool, n))
	return out
}
