//go:build go1.21

package snowflake_proxy

// C13 through the proxy's real callers: SignalingServer.pollOffer with a scripted transport, and
// remoteIPFromSDP over SDP-like text.  Also the C18 clause about remoteIPFromSDP.

import (
	"bytes"
	"fmt"
	"io"
	"log"
	"net"
	"net/http"
	"net/netip"
	"net/url"
	"strings"
	"testing"

	"git.torproject.org/pluggable-transports/snowflake.git/v2/common/messages"
	en "git.torproject.org/pluggable-transports/snowflake.git/v2/verifenum"
	"github.com/pion/webrtc/v3"
)

type scriptedTransport struct {
	status int
	body   []byte
	reqs   []*http.Request
	bodies [][]byte
}

func (s *scriptedTransport) RoundTrip(req *http.Request) (*http.Response, error) {
	var b []byte
	if req.Body != nil {
		b, _ = io.ReadAll(req.Body)
	}
	s.reqs = append(s.reqs, req)
	s.bodies = append(s.bodies, b)
	return &http.Response{StatusCode: s.status, Body: io.NopCloser(bytes.NewReader(s.body)), Header: http.Header{}}, nil
}

func TestVerifEnumC13Proxy(t *testing.T) {
	log.SetOutput(io.Discard)
	r := en.New()
	defer r.Done()
	tokens = newTokens(0)
	u, _ := url.Parse("http://broker.example/")

	r.Begin("pollOffer", "SignalingServer.pollOffer with a scripted transport returning a client match whose Offer is every hostile description, and hostile poll responses themselves")
	var replies [][]byte
	for _, h := range en.HostileSessionDescriptions() {
		b, _ := messages.EncodePollResponseWithRelayURL(h, true, "unknown", "wss://snowflake.torproject.net/", "")
		replies = append(replies, b)
	}
	for _, raw := range []string{``, `null`, `{}`, `[]`, `{"Status":"client match"}`, `{"Status":"client match","Offer":1}`, `{"Status":"client match","Offer":null}`, `{"Status":"client match","Offer":{"type":"offer"}}`, `{"Status":1}`, `garbage`} {
		replies = append(replies, []byte(raw))
	}
	for i, rep := range replies {
		if !r.Mine() {
			continue
		}
		rep := rep
		r.Case(fmt.Sprintf("poll|%d|%.60s", i, rep), len(rep) > 0)
		s := &SignalingServer{url: u, transport: &scriptedTransport{status: 200, body: rep}}
		shutdown := make(chan struct{})
		var d *webrtc.SessionDescription
		p, val, stack := en.Try(func() {
			d, _ = pollOfferOnce(s, shutdown)
		})
		if p {
			r.Fail("pollOffer:panic@"+en.PanicSite(stack), "pollOffer panicked on a crafted broker reply: "+val+" "+stack, shortP(string(rep)))
			continue
		}
		_ = d
	}
	r.Sample(string(replies[3]))

	r.Begin("remoteIPFromSDP", "remoteIPFromSDP over hostile descriptions' sdp texts, SDP documents with 0-2 candidates from 14 addresses, their truncations, c= line variants and a c= token grammar (7 heads x 15 tails incl. empty address, trailing/doubled blanks, tab, /ttl, junk; media/session level; CRLF/LF): no panic; result = first remote candidate address, else remote c= address, else nil")
	addrs := []string{"10.0.0.1", "192.168.1.1", "127.0.0.1", "0.0.0.0", "::1", "fd00::1", "::ffff:10.0.0.1", "8.8.8.8", "1.2.3.4", "2001:db8::1", "abc.local", "999.1.1.1", "", "100.64.0.1"}
	mk := func(cline string, cands []string) string {
		var sb strings.Builder
		sb.WriteString("v=0\r\no=- 1 2 IN IP4 127.0.0.1\r\ns=-\r\nt=0 0\r\nm=application 9 UDP/DTLS/SCTP webrtc-datachannel\r\n")
		if cline != "" {
			sb.WriteString(cline + "\r\n")
		}
		for i, a := range cands {
			fmt.Fprintf(&sb, "a=candidate:%d 1 udp 2130706431 %s 5000 typ host\r\n", i+1, a)
		}
		sb.WriteString("a=mid:0\r\n")
		return sb.String()
	}
	clines := []string{"c=IN IP4 0.0.0.0", "c=IN IP4 5.6.7.8", "c=IN IP6 2001:db8::2", "c=IN IP4 10.1.1.1", "c=IN IP4", "c=", ""}
	check := func(key, doc string, wantKnown bool, want net.IP) {
		r.Case(key, true)
		var got net.IP
		p, val, stack := en.Try(func() { got = remoteIPFromSDP(doc) })
		if p {
			r.Fail("remoteIPFromSDP:panic@"+en.PanicSite(stack), val+" "+stack, shortP(doc))
			return
		}
		if wantKnown && !got.Equal(want) && !(got == nil && want == nil) {
			r.Fail("remoteIPFromSDP:wrong-address", fmt.Sprintf("got %v, reference says %v", got, want), shortP(doc))
		}
	}
	for _, cl := range clines {
		for _, a := range addrs {
			for _, b := range addrs {
				if !r.Mine() {
					continue
				}
				var cands []string
				if a != "" {
					cands = append(cands, a)
				}
				if b != "" {
					cands = append(cands, b)
				}
				doc := mk(cl, cands)
				// reference: first candidate whose address is a remote IP; else the c= address if remote
				var want net.IP
				for _, c := range cands {
					if refRemote(c) {
						want = net.ParseIP(c)
						break
					}
				}
				if want == nil {
					f := strings.Fields(cl)
					if len(f) == 3 && refRemote(f[2]) {
						want = net.ParseIP(f[2])
					}
				}
				// the address oracle applies to well-formed documents only; a malformed c= line makes the
				// whole description unparseable, for which only totality is required
				wellFormed := cl == "" || len(strings.Fields(cl)) == 3
				check("rip|"+cl+"|"+a+"|"+b, doc, wellFormed, want)
			}
		}
	}
	// c= line token grammar: every combination of a head and a tail (empty address, trailing blanks,
	// doubled blanks, tab, /ttl, /ttl/count, junk), at media level, session level or both, with CRLF or
	// LF line ends, with no candidate / a local one / a remote one: totality only
	heads := []string{"c=IN IP4", "c=IN IP6", "c=IN IP7", "c=IN", "c=", "c=XX IP4", "c=IN  IP4"}
	tails := []string{"", " ", "  ", " 5.6.7.8", " 5.6.7.8 ", "  5.6.7.8", " 5.6.7.8/127", " 5.6.7.8/127/3", " /", " x", "\t5.6.7.8", " 2001:db8::2", " 2001:db8::2/64", " 10.1.1.1", " 0.0.0.0 "}
	for _, h := range heads {
		for _, tl := range tails {
			for place := 0; place < 3; place++ {
				for _, nl := range []string{"\r\n", "\n"} {
					for ci, cands := range [][]string{nil, {"10.0.0.1"}, {"8.8.8.8"}} {
						if !r.Mine() {
							continue
						}
						cl := h + tl
						var sb strings.Builder
						sb.WriteString("v=0" + nl + "o=- 1 2 IN IP4 127.0.0.1" + nl + "s=-" + nl)
						if place != 0 {
							sb.WriteString(cl + nl)
						}
						sb.WriteString("t=0 0" + nl + "m=application 9 UDP/DTLS/SCTP webrtc-datachannel" + nl)
						if place != 1 {
							sb.WriteString(cl + nl)
						}
						for i, a := range cands {
							fmt.Fprintf(&sb, "a=candidate:%d 1 udp 2130706431 %s 5000 typ host%s", i+1, a, nl)
						}
						sb.WriteString("a=mid:0" + nl)
						check(fmt.Sprintf("rip-cgrammar|%q|%d|%q|%d", cl, place, nl, ci), sb.String(), false, nil)
					}
				}
			}
		}
	}
	if r.Shard0() {
		for i, h := range en.HostileSessionDescriptions() {
			check(fmt.Sprintf("rip-hostile|%d", i), h, false, nil)
		}
		base := mk("c=IN IP4 5.6.7.8", []string{"10.0.0.1", "8.8.8.8"})
		for cut := 0; cut <= len(base); cut++ {
			check(fmt.Sprintf("rip-trunc|%d", cut), base[:cut], false, nil)
		}
	}
}

func refRemote(s string) bool {
	a, err := netip.ParseAddr(s)
	if err != nil {
		return false
	}
	a = a.Unmap()
	for _, p := range []string{"10.0.0.0/8", "172.16.0.0/12", "192.168.0.0/16", "100.64.0.0/10", "169.254.0.0/16", "fc00::/7", "127.0.0.0/8", "::1/128", "0.0.0.0/32", "::/128"} {
		if netip.MustParsePrefix(p).Contains(a) {
			return false
		}
	}
	return true
}

// pollOfferOnce runs the real pollOffer; a reply that is "no match" would make it wait on the 5 s
// ticker, so the shutdown channel is closed as soon as the transport has been asked once.
func pollOfferOnce(s *SignalingServer, shutdown chan struct{}) (*webrtc.SessionDescription, string) {
	st := s.transport.(*scriptedTransport)
	s.transport = &closingTransport{inner: st, shutdown: shutdown}
	return s.pollOffer("sid", "standalone", "snowflake.torproject.net$", shutdown)
}

type closingTransport struct {
	inner    *scriptedTransport
	shutdown chan struct{}
	closed   bool
}

func (c *closingTransport) RoundTrip(req *http.Request) (*http.Response, error) {
	if !c.closed {
		c.closed = true
		close(c.shutdown)
	}
	return c.inner.RoundTrip(req)
}

func shortP(s string) string {
	if len(s) > 300 {
		return s[:300] + fmt.Sprintf("...(%d bytes)", len(s))
	}
	return s
}
