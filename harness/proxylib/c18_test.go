//go:build go1.21

package snowflake_proxy

// C18, proxy side — the relay (bridge) is told the right client address or none: sequences of sessions
// through the real datachannelHandler, observing the URL the proxy dials.  (ws:// relay URLs: the
// handler builds the URL the same way for both schemes, and without TLS the upgrade request the proxy
// writes can be read back from a fake connection.)

import (
	"bufio"
	"errors"
	"fmt"
	"io"
	"log"
	"net"
	"net/http"
	"net/url"
	"strings"
	"sync"
	"testing"
	"time"

	en "git.torproject.org/pluggable-transports/snowflake.git/v2/verifenum"
	"github.com/gorilla/websocket"
	"github.com/pion/webrtc/v3"
)

// c18Conn is what the proxy gets from its dialer: it records the request the proxy writes and ends the
// handshake with an error.
type c18Conn struct {
	mu   sync.Mutex
	buf  []byte
	addr string
}

func (c *c18Conn) Write(p []byte) (int, error) {
	c.mu.Lock()
	c.buf = append(c.buf, p...)
	c.mu.Unlock()
	return len(p), nil
}
func (c *c18Conn) Read(p []byte) (int, error)       { return 0, io.EOF }
func (c *c18Conn) Close() error                     { return nil }
func (c *c18Conn) LocalAddr() net.Addr              { return &net.TCPAddr{} }
func (c *c18Conn) RemoteAddr() net.Addr             { return &net.TCPAddr{} }
func (c *c18Conn) SetDeadline(time.Time) error      { return nil }
func (c *c18Conn) SetReadDeadline(time.Time) error  { return nil }
func (c *c18Conn) SetWriteDeadline(time.Time) error { return nil }

type c18Session struct {
	name  string
	offer string // SDP of the client's offer: the address is derived by the real remoteIPFromSDP
	want  string // client_ip the relay must be told ("" = none)
	relay string // relay URL assigned by the broker ("" = the proxy's default)
}

func c18SDP(addrs ...string) string {
	s := "v=0\r\no=- 1 2 IN IP4 0.0.0.0\r\ns=-\r\nt=0 0\r\nm=application 9 UDP/DTLS/SCTP webrtc-datachannel\r\nc=IN IP4 0.0.0.0\r\n"
	for i, a := range addrs {
		s += fmt.Sprintf("a=candidate:%d 1 udp 2130706431 %s 5000 typ host\r\n", i+1, a)
	}
	return s
}

func TestVerifEnumC18ProxyRelayURL(t *testing.T) {
	r := en.New()
	defer r.Done()
	log.SetOutput(io.Discard)
	alphabet := []c18Session{
		{"public-A/default-relay", c18SDP("203.0.113.7"), "203.0.113.7", ""},
		{"no-address/default-relay", c18SDP("192.168.1.5", "10.0.0.9"), "", ""},
		{"public-B/default-relay", c18SDP("10.1.1.1", "198.51.100.9"), "198.51.100.9", ""},
		{"public-v6/assigned-relay", c18SDP("2001:db8::77"), "2001:db8::77", "ws://assigned.snowflake.torproject.net/path?x=1"},
		{"no-address/assigned-relay", c18SDP(), "", "ws://assigned.snowflake.torproject.net/path?x=1"},
		{"public-A/default-relay-spelled-out", c18SDP("203.0.113.7"), "203.0.113.7", "ws://snowflake.torproject.net/"},
	}
	maxLen := 3
	if r.Thorough() {
		maxLen = 4
	}
	r.Begin("proxy-relay-url", fmt.Sprintf("all sequences of 1..%d sessions over %d kinds (client with a public address / without any, relay assigned by the broker or the proxy's default) through one proxy's real datachannelHandler, the client address taken from the offer by the real remoteIPFromSDP; the URL the proxy dials is read from the request it writes: host and path of the right relay, client_ip = this session's address or absent, nothing of an earlier session", maxLen, len(alphabet)))
	var mu sync.Mutex
	var dialled []*c18Conn
	saved := websocket.DefaultDialer
	defer func() { websocket.DefaultDialer = saved }()
	websocket.DefaultDialer = &websocket.Dialer{
		NetDial: func(network, addr string) (net.Conn, error) {
			c := &c18Conn{addr: addr}
			mu.Lock()
			dialled = append(dialled, c)
			mu.Unlock()
			return c, nil
		},
		HandshakeTimeout: 5 * time.Second,
	}
	newPC := func() (*webrtc.PeerConnection, error) { return webrtc.NewPeerConnection(webrtc.Configuration{}) }
	var seqs [][]int
	var gen func(prefix []int)
	gen = func(prefix []int) {
		if len(prefix) > 0 {
			seqs = append(seqs, append([]int(nil), prefix...))
		}
		if len(prefix) == maxLen {
			return
		}
		for i := range alphabet {
			gen(append(prefix, i))
		}
	}
	gen(nil)
	for _, seq := range seqs {
		if !r.Mine() {
			continue
		}
		var names []string
		for _, i := range seq {
			names = append(names, alphabet[i].name)
		}
		desc := strings.Join(names, " ; ")
		r.Case("relayurl|"+desc, true)
		sf := &SnowflakeProxy{Capacity: 4, RelayURL: "ws://snowflake.torproject.net/", shutdown: make(chan struct{})}
		tokens = newTokens(4)
		for k, i := range seq {
			s := alphabet[i]
			pc, err := newPC()
			if err != nil {
				r.Incomplete("cannot make a PeerConnection: " + err.Error())
				return
			}
			var remote net.Addr
			if ip := remoteIPFromSDP(s.offer); ip != nil {
				remote = &net.IPAddr{IP: ip}
			}
			mu.Lock()
			dialled = nil
			mu.Unlock()
			tokens.get()
			conn := &webRTCConn{pc: pc, bytesLogger: bytesNullLogger{}}
			p, val, stack := en.Try(func() { sf.datachannelHandler(conn, remote, s.relay) })
			if p {
				r.Fail("relayurl:panic@"+en.PanicSite(stack), val+" "+stack, desc)
				break
			}
			mu.Lock()
			ds := append([]*c18Conn(nil), dialled...)
			mu.Unlock()
			if len(ds) != 1 {
				r.Fail("relayurl:dial-count", fmt.Sprintf("session %d (%s): the proxy dialled %d times, want 1", k+1, s.name, len(ds)), desc)
				break
			}
			req, err := http.ReadRequest(bufio.NewReader(strings.NewReader(string(ds[0].buf))))
			if err != nil {
				r.Fail("relayurl:unreadable-request", fmt.Sprintf("session %d (%s): the proxy's upgrade request does not parse: %v", k+1, s.name, err), desc)
				break
			}
			wantRelay := s.relay
			if wantRelay == "" {
				wantRelay = sf.RelayURL
			}
			wu, _ := url.Parse(wantRelay)
			if req.Host != wu.Host || req.URL.Path != wu.Path {
				r.Fail("relayurl:wrong-relay", fmt.Sprintf("session %d (%s): the proxy asked host %q path %q, the session's relay is %s", k+1, s.name, req.Host, req.URL.Path, wantRelay), desc)
			}
			q := req.URL.Query()
			got, present := q["client_ip"]
			switch {
			case s.want == "" && present:
				r.Fail("relayurl:address-of-another-session", fmt.Sprintf("session %d (%s) has no client address, yet the relay is told client_ip=%q", k+1, s.name, got), desc)
			case s.want != "" && (len(got) != 1 || got[0] != s.want):
				r.Fail("relayurl:wrong-client-address", fmt.Sprintf("session %d (%s): the relay is told client_ip=%q, want %q", k+1, s.name, got, s.want), desc)
			}
			for key, vals := range wu.Query() {
				if g := q[key]; len(g) != len(vals) || (len(g) > 0 && g[0] != vals[0]) {
					r.Fail("relayurl:relay-query-lost", fmt.Sprintf("session %d (%s): parameter %q of the assigned relay URL became %q", k+1, s.name, key, g), desc)
				}
			}
			for key := range q {
				if _, ok := wu.Query()[key]; !ok && key != "client_ip" {
					r.Fail("relayurl:foreign-parameter", fmt.Sprintf("session %d (%s): the relay is sent an extra parameter %q", k+1, s.name, key), desc)
				}
			}
			if tokens.count() != 0 {
				r.Fail("relayurl:slot-kept", fmt.Sprintf("session %d (%s): %d slots in use after the handler returned", k+1, s.name, tokens.count()), desc)
				break
			}
		}
	}
	_ = errors.New
}
