//go:build go1.21

package namematcher

// C06 (i) — a pattern judged a superset of another accepts every hostname the other accepts.

import (
	"fmt"
	"testing"

	en "git.torproject.org/pluggable-transports/snowflake.git/v2/verifenum"
)

func allStrings(alpha []string, maxLen int) []string {
	var out []string
	en.Strings(alpha, maxLen, func(t []string) bool {
		s := ""
		for _, x := range t {
			s += x
		}
		out = append(out, s)
		return true
	})
	return out
}

func TestVerifEnumC06(t *testing.T) {
	r := en.New()
	defer r.Done()
	patterns := allStrings([]string{"^", "$", "a", "b", "."}, 5)
	hosts := allStrings([]string{"a", "b", "."}, 5)
	words := (len(hosts) + 63) / 64
	member := make([][]uint64, len(patterns))
	matchers := make([]NameMatcher, len(patterns))
	for i, p := range patterns {
		matchers[i] = NewNameMatcher(p)
		member[i] = make([]uint64, words)
		for j, h := range hosts {
			if matchers[i].IsMember(h) {
				member[i][j/64] |= 1 << (j % 64)
			}
		}
	}
	r.Begin("superset-law", fmt.Sprintf("all ordered pairs of %d patterns (strings of length <=5 over {^,$,a,b,.}) x %d hostnames (length <=5 over {a,b,.}): A.IsSupersetOf(B) implies members(B) subset of members(A)", len(patterns), len(hosts)))
	var pairs, supers int64
	for i := range patterns {
		if !r.Mine() {
			continue
		}
		for j := range patterns {
			pairs++
			if !matchers[i].IsSupersetOf(matchers[j]) {
				continue
			}
			supers++
			for w := 0; w < words; w++ {
				if bad := member[j][w] &^ member[i][w]; bad != 0 {
					for b := 0; b < 64; b++ {
						if bad&(1<<b) != 0 {
							r.Fail("superset-law:member-not-accepted", fmt.Sprintf("pattern %q is judged a superset of %q but rejects hostname %q which %q accepts", patterns[i], patterns[j], hosts[w*64+b], patterns[j]),
								map[string]string{"A": patterns[i], "B": patterns[j], "host": hosts[w*64+b]})
							break
						}
					}
					break
				}
			}
		}
	}
	r.CaseN(pairs)
	if r.Shard0() {
		sa, sb := NewNameMatcher("a.b$"), NewNameMatcher("^a.b$")
		r.Sample(map[string]interface{}{"A": "a.b$", "B": "^a.b$", "A_superset_of_B": sa.IsSupersetOf(sb), "B_superset_of_A": sb.IsSupersetOf(sa), "pairs_judged_superset_in_shard_0": supers})
	}

	// realistic patterns from the documentation and tests, crossed with realistic hostnames
	r.Begin("realistic", "patterns from the docs/tests crossed with each other and with 14 hostnames")
	if r.Shard0() {
		rp := []string{"snowflake.torproject.net$", "^snowflake.torproject.net$", "torproject.net$", ".torproject.net$", "$", "", "^", "^$", "snowflake.torproject.net", "^snowflake.torproject.net", "net$", "testing-snowflake.torproject.net$", "^testing-snowflake.torproject.net$", "example.com$"}
		rh := []string{"snowflake.torproject.net", "01.snowflake.torproject.net", "imaginary-01-snowflake.torproject.net", "evilsnowflake.torproject.net", "snowflake.torproject.net.evil.example", "faketorproject.net", "torproject.net", "", "net", "example.com", "SNOWFLAKE.TORPROJECT.NET", "snowflake.torproject.net.", "testing-snowflake.torproject.net", "a"}
		for _, a := range rp {
			for _, b := range rp {
				ma, mb := NewNameMatcher(a), NewNameMatcher(b)
				r.Case("real|"+a+"|"+b, true)
				if !ma.IsSupersetOf(mb) {
					continue
				}
				for _, h := range rh {
					if mb.IsMember(h) && !ma.IsMember(h) {
						r.Fail("superset-law:member-not-accepted", fmt.Sprintf("pattern %q is judged a superset of %q but rejects %q", a, b, h), map[string]string{"A": a, "B": b, "host": h})
					}
				}
			}
		}
	}
}
