//go:build go1.21

package snowflake_client

// C01 tier 2 — the end-to-end byte stream on the REAL stacks: the client's newSession (the real
// dialContext closure, RedialPacketConn, encapsulationPacketConn, kcp-go, smux), real WebRTCPeer
// objects whose data channel is replaced by an in-memory transport (build-time retype of three
// fields, see checks/client_t2_common.py), a relay standing in for the proxy (data channel message ->
// WebSocket message and back, as proxy/lib's copyLoop does), and the real server listener
// (Transport.Listen: ServeHTTP, turbotunnelMode, QueuePacketConn, kcp-go, smux).  Faults are injected
// in the relay at chosen message indices.  Real time is involved, therefore: safety oracles compare
// bytes only; missing progress is believed only if it repeats in three more runs; loopback trouble
// marks the run incomplete.  The exhaustive exploration of interleavings and fault points is tier 1
// (checks/c01.py, scheduler, virtual time).

import (
	"bytes"
	"errors"
	"fmt"
	"io"
	"log"
	"net"
	"os"
	"runtime"
	"strings"
	"sync"
	"testing"
	"time"

	"git.torproject.org/pluggable-transports/snowflake.git/v2/common/event"
	"git.torproject.org/pluggable-transports/snowflake.git/v2/common/websocketconn"
	sf "git.torproject.org/pluggable-transports/snowflake.git/v2/server/lib"
	en "git.torproject.org/pluggable-transports/snowflake.git/v2/verifenum"
	"github.com/gorilla/websocket"
)

const t2LiveWait = 60 * time.Second

// ---- bridge side -----------------------------------------------------------------------------------

type t2Bridge struct {
	ln   *sf.SnowflakeListener
	port int
	mu   sync.Mutex
	// per accepted connection
	conns []*t2BridgeConn
	down  []byte // what the bridge writes on every connection it accepts
	// closeAfterWrite: the bridge closes the connection as soon as it has written everything (as
	// server.go's proxy() does when tor closes first)
	closeAfterWrite bool
}

type t2BridgeConn struct {
	remote string
	recv   []byte
	sent   int
}

var t2NextPort = 24000

type t2SyncBuf struct {
	mu sync.Mutex
	b  bytes.Buffer
}

func (w *t2SyncBuf) Write(p []byte) (int, error) {
	w.mu.Lock()
	defer w.mu.Unlock()
	if w.b.Len() > 1<<20 {
		w.b.Reset()
	}
	return w.b.Write(p)
}
func (w *t2SyncBuf) String() string { w.mu.Lock(); defer w.mu.Unlock(); return w.b.String() }

var t2Log = &t2SyncBuf{}

func startT2Bridge(down []byte) (*t2Bridge, error) {
	var lastErr error
	for try := 0; try < 20; try++ {
		port := t2NextPort
		t2NextPort++
		addr := &net.TCPAddr{IP: net.IPv4(127, 0, 0, 1), Port: port}
		probe, err := net.Listen("tcp", addr.String())
		if err != nil {
			lastErr = err
			continue
		}
		probe.Close()
		ln, err := sf.NewSnowflakeServer(nil).Listen(addr)
		if err != nil {
			lastErr = err
			continue
		}
		ok := false
		for i := 0; i < 100; i++ {
			c, err := net.DialTimeout("tcp", addr.String(), time.Second)
			if err == nil {
				c.Close()
				ok = true
				break
			}
			time.Sleep(20 * time.Millisecond)
		}
		if !ok || strings.Contains(t2Log.String(), fmt.Sprintf("error in ListenAndServe: listen tcp 127.0.0.1:%d", port)) {
			ln.Close()
			lastErr = fmt.Errorf("port %d: bind failed or no answer", port)
			continue
		}
		b := &t2Bridge{ln: ln, port: port, down: down}
		go b.acceptLoop()
		return b, nil
	}
	return nil, lastErr
}

// The bridge (tor) behind the server: reads everything the client sends and, independently, writes
// its own byte sequence.
func (b *t2Bridge) acceptLoop() {
	for {
		c, err := b.ln.Accept()
		if err != nil {
			return
		}
		bc := &t2BridgeConn{}
		if ra := c.RemoteAddr(); ra != nil {
			bc.remote = ra.String()
		}
		b.mu.Lock()
		b.conns = append(b.conns, bc)
		b.mu.Unlock()
		go func() {
			buf := make([]byte, 32768)
			for {
				n, err := c.Read(buf)
				if n > 0 {
					b.mu.Lock()
					bc.recv = append(bc.recv, buf[:n]...)
					b.mu.Unlock()
				}
				if err != nil {
					return
				}
			}
		}()
		go func() {
			for off := 0; off < len(b.down); {
				end := off + 8192
				if end > len(b.down) {
					end = len(b.down)
				}
				n, err := c.Write(b.down[off:end])
				off += n
				b.mu.Lock()
				bc.sent = off
				b.mu.Unlock()
				if err != nil {
					return
				}
			}
			if b.closeAfterWrite {
				c.Close()
			}
		}()
	}
}

func (b *t2Bridge) snapshot() []t2BridgeConn {
	b.mu.Lock()
	defer b.mu.Unlock()
	out := make([]t2BridgeConn, len(b.conns))
	for i, c := range b.conns {
		out[i] = t2BridgeConn{remote: c.remote, recv: append([]byte(nil), c.recv...), sent: c.sent}
	}
	return out
}

// ---- proxy stand-in: one carrier = one peer + one WebSocket to the server ---------------------------

const (
	t2None      = iota
	t2CutClean  // the proxy closes its WebSocket properly and the data channel closes
	t2CutAbrupt // the proxy dies: TCP connection to the server torn without a close frame
	t2CutHalf   // as abrupt, after half of the message has been forwarded
	t2DeadOnUse // the peer is already dead when the client first writes to it
	t2Freeze    // the proxy stops forwarding in both directions and keeps everything open
	t2PopDelay  // no standby proxy for 2 s: the replacement arrives late
	t2Blackhole // the proxy swallows everything from this message on and dies a second later
	t2nFaultKind
)

var t2FaultName = []string{"none", "cut-clean", "cut-abrupt", "cut-inside-message", "dead-on-first-use", "freeze", "late-replacement", "blackhole-1s-then-cut"}

type t2Fault struct {
	kind int
	up   bool // direction of the message that triggers it
	idx  int  // 1-based index of that message on its carrier
}

func (f t2Fault) String() string {
	if f.kind == t2None {
		return "none"
	}
	if f.kind == t2PopDelay && f.idx > 0 {
		return fmt.Sprintf("%s(%ds)", t2FaultName[f.kind], f.idx)
	}
	if f.kind == t2DeadOnUse || f.kind == t2PopDelay {
		return t2FaultName[f.kind]
	}
	d := "down"
	if f.up {
		d = "up"
	}
	return fmt.Sprintf("%s@%s#%d", t2FaultName[f.kind], d, f.idx)
}

type t2Carrier struct {
	idx    int
	fault  t2Fault
	ws     *websocket.Conn
	wc     *websocketconn.Conn
	peer   *WebRTCPeer
	mu     sync.Mutex
	nUp    int
	nDown  int
	frozen bool
	dead   chan struct{}
	once   sync.Once
	// frozen carriers: the client's side ends first (clientGone), the server's side at the end of the scenario
	clientGone    sync.Once
	releaseFrozen bool
}

// kill ends the carrier: the WebSocket to the server goes away (cleanly or torn) and the data channel
// closes, which in production makes pion call OnClose -> WebRTCPeer.Close.
func (c *t2Carrier) kill(abrupt bool) {
	c.once.Do(func() {
		c.clientGone.Do(func() { close(c.dead) })
		if abrupt {
			c.ws.UnderlyingConn().Close()
		} else {
			c.wc.Close()
		}
		go c.peer.Close()
	})
}

// Send is the data channel's Send: one message from the client.
func (c *t2Carrier) Send(b []byte) error {
	select {
	case <-c.dead:
		return errors.New("data channel closed")
	default:
	}
	c.mu.Lock()
	c.nUp++
	n := c.nUp
	frozen := c.frozen
	hit := c.fault.kind != t2None && c.fault.up && c.fault.idx == n
	if hit && (c.fault.kind == t2Freeze || c.fault.kind == t2Blackhole) {
		c.frozen = true
		frozen = true
		if c.fault.kind == t2Blackhole {
			time.AfterFunc(time.Second, func() { c.kill(true) })
		}
	}
	c.mu.Unlock()
	if frozen {
		return nil
	}
	if hit {
		switch c.fault.kind {
		case t2CutClean:
			c.kill(false)
			return errors.New("data channel closed")
		case t2CutAbrupt:
			c.kill(true)
			return errors.New("data channel closed")
		case t2CutHalf:
			c.wc.Write(b[:len(b)/2])
			time.Sleep(20 * time.Millisecond) // let the bytes leave before the connection is torn
			c.kill(true)
			return nil
		}
	}
	if _, err := c.wc.Write(b); err != nil {
		c.kill(true)
		return err
	}
	return nil
}

// Close is the data channel's Close, called by WebRTCPeer.cleanup.  A frozen proxy (a stopped process)
// does not notice that the client has given it up: its connection to the server stays open until the
// scenario is over; only the client's side of the carrier ends.
func (c *t2Carrier) Close() error {
	c.mu.Lock()
	frozen := c.frozen && c.fault.kind == t2Freeze
	c.mu.Unlock()
	if frozen && !c.releaseFrozen {
		c.clientGone.Do(func() { close(c.dead) })
		return nil
	}
	c.kill(false)
	return nil
}

// pump forwards the server's bytes to the peer, as the proxy's copy loop and pion's OnMessage do.
func (c *t2Carrier) pump() {
	buf := make([]byte, 16384)
	for {
		n, err := c.wc.Read(buf)
		if n > 0 {
			c.mu.Lock()
			c.nDown++
			k := c.nDown
			hit := c.fault.kind != t2None && !c.fault.up && c.fault.idx == k
			if hit && (c.fault.kind == t2Freeze || c.fault.kind == t2Blackhole) {
				c.frozen = true
				if c.fault.kind == t2Blackhole {
					time.AfterFunc(time.Second, func() { c.kill(true) })
				}
			}
			frozen := c.frozen
			c.mu.Unlock()
			if !frozen {
				part := buf[:n]
				if hit && c.fault.kind == t2CutHalf {
					part = buf[:n/2]
				}
				if hit && (c.fault.kind == t2CutClean || c.fault.kind == t2CutAbrupt) {
					c.kill(c.fault.kind == t2CutAbrupt)
					return
				}
				if _, werr := c.peer.writePipe.Write(part); werr != nil {
					c.kill(false)
					return
				}
				c.peer.mu.Lock()
				c.peer.lastReceive = time.Now()
				c.peer.mu.Unlock()
				if hit && c.fault.kind == t2CutHalf {
					c.kill(true)
					return
				}
			}
		}
		if err != nil {
			c.kill(false)
			return
		}
	}
}

// ---- collector handing out carriers -----------------------------------------------------------------

type t2Collector struct {
	bridge  *t2Bridge
	faults  []t2Fault // fault of the i-th carrier handed out; later carriers work
	mu      sync.Mutex
	handed  []*t2Carrier
	melt    chan struct{}
	once    sync.Once
	infra   error
	maxPeer int
}

func (tc *t2Collector) Collect() (*WebRTCPeer, error) { return nil, errors.New("not used") }
func (tc *t2Collector) Melted() <-chan struct{}       { return tc.melt }
func (tc *t2Collector) End()                          { tc.once.Do(func() { close(tc.melt) }) }

func (tc *t2Collector) Pop() *WebRTCPeer {
	select {
	case <-tc.melt:
		return nil
	default:
	}
	tc.mu.Lock()
	i := len(tc.handed)
	tc.mu.Unlock()
	if i >= tc.maxPeer {
		<-tc.melt // no more proxies: block like Peers.Pop until the collection ends
		return nil
	}
	var f t2Fault
	if i < len(tc.faults) {
		f = tc.faults[i]
	}
	if f.kind == t2PopDelay {
		d := 2 * time.Second
		if f.idx > 0 {
			d = time.Duration(f.idx) * time.Second
		}
		select {
		case <-time.After(d):
		case <-tc.melt:
			return nil
		}
		f = t2Fault{}
	}
	u := fmt.Sprintf("ws://127.0.0.1:%d/?client_ip=10.7.0.%d", tc.bridge.port, i+1)
	d := websocket.Dialer{HandshakeTimeout: 20 * time.Second}
	ws, _, err := d.Dial(u, nil)
	if err != nil {
		tc.mu.Lock()
		tc.infra = err
		tc.mu.Unlock()
		tc.End()
		return nil
	}
	c := &t2Carrier{idx: i, fault: f, ws: ws, wc: websocketconn.New(ws), dead: make(chan struct{})}
	pr, pw := io.Pipe()
	c.peer = &WebRTCPeer{closed: make(chan struct{}), transport: c, recvPipe: pr, writePipe: pw, bytesLogger: &bytesNullLogger{}, eventsLogger: event.NewSnowflakeEventDispatcher()}
	c.peer.id = fmt.Sprintf("t2-%d", i)
	go c.peer.checkForStaleness(SnowflakeTimeout) // as connect() does once the data channel is open
	go c.pump()
	if f.kind == t2DeadOnUse {
		c.kill(true)
		time.Sleep(10 * time.Millisecond)
	}
	tc.mu.Lock()
	tc.handed = append(tc.handed, c)
	tc.mu.Unlock()
	return c.peer
}

// ---- one end-to-end run -----------------------------------------------------------------------------

type t2Result struct {
	infra    error
	timedOut bool
	sig, msg string
	carriers int
}

func t2Payload(seed uint32, n int) []byte {
	b := make([]byte, n)
	x := seed
	for i := range b {
		x = x*1664525 + 1013904223
		b[i] = byte(x >> 24)
	}
	return b
}

func firstDiffT2(a, b []byte) int {
	i := 0
	for i < len(a) && i < len(b) && a[i] == b[i] {
		i++
	}
	return i
}

// t2WaitFor: the liveness bound of a scenario: t2LiveWait on top of the time during which it offers no proxy.
func t2WaitFor(faults []t2Fault) time.Duration {
	d := t2LiveWait
	for _, f := range faults {
		if f.kind == t2PopDelay && f.idx > 2 {
			d += time.Duration(f.idx) * time.Second
		}
		if f.kind == t2Freeze {
			// the client notices a frozen proxy after its 20 s staleness timeout: each freeze costs that long
			d += 25 * time.Second
		}
	}
	return d
}

func t2Run(faults []t2Fault, upSize, downSize int, extraCarriers int, bridgeCloses bool) *t2Result {
	res := &t2Result{}
	up, down := t2Payload(1, upSize), t2Payload(2, downSize)
	bridge, err := startT2Bridge(down)
	if err != nil {
		res.infra = err
		return res
	}
	defer bridge.ln.Close()
	bridge.closeAfterWrite = bridgeCloses
	tc := &t2Collector{bridge: bridge, faults: faults, melt: make(chan struct{}), maxPeer: len(faults) + extraCarriers}
	pconn, sess, err := newSession(tc)
	if err != nil {
		res.infra = err
		return res
	}
	defer func() {
		tc.End()
		pconn.Close()
		sess.Close()
		tc.mu.Lock()
		for _, c := range tc.handed {
			c.kill(false)
		}
		res.carriers = len(tc.handed)
		tc.mu.Unlock()
	}()
	stream, err := sess.OpenStream()
	if err != nil {
		res.infra = err
		return res
	}
	// (the harness tears the session down before the stream: Stream.Close waits for its FIN frame to be
	// written, which blocks while nothing can be sent)
	got := make([]byte, 0, downSize)
	var rerr, werr error
	var gotMu sync.Mutex
	done := make(chan struct{})
	go func() {
		defer close(done)
		wdone := make(chan struct{})
		go func() {
			defer close(wdone)
			for off := 0; off < len(up); {
				end := off + 4096
				if end > len(up) {
					end = len(up)
				}
				n, err := stream.Write(up[off:end])
				off += n
				if err != nil {
					werr = err
					return
				}
			}
		}()
		buf := make([]byte, 32768)
		for len(got) < downSize {
			n, err := stream.Read(buf)
			gotMu.Lock()
			got = append(got, buf[:n]...)
			gotMu.Unlock()
			if err != nil {
				rerr = err
				break
			}
		}
		<-wdone
	}()
	// the client has everything; wait until the bridge has everything too
	deadline := time.After(t2WaitFor(faults))
	complete := false
	select {
	case <-done:
		for !complete {
			snap := bridge.snapshot()
			if len(snap) > 0 && len(snap[0].recv) >= upSize {
				complete = true
				break
			}
			if werr != nil || rerr != nil {
				break
			}
			select {
			case <-deadline:
				res.timedOut = true
				complete = true
			case <-time.After(20 * time.Millisecond):
			}
		}
	case <-deadline:
		res.timedOut = true
	}
	// safety: whatever arrived is a prefix of what was sent, on both sides, and there is one connection
	gotMu.Lock()
	g := append([]byte(nil), got...)
	gotMu.Unlock()
	if !bytes.HasPrefix(down, g) {
		res.sig, res.msg = "stream:client-read-wrong-bytes", fmt.Sprintf("the application read %d bytes that are not a prefix of what the bridge wrote; first difference at offset %d", len(g), firstDiffT2(g, down))
		return res
	}
	snap := bridge.snapshot()
	if len(snap) > 1 {
		res.sig, res.msg = "stream:several-bridge-connections", fmt.Sprintf("one client stream surfaced as %d connections at the bridge", len(snap))
		return res
	}
	if len(snap) == 1 && !bytes.HasPrefix(up, snap[0].recv) {
		res.sig, res.msg = "stream:bridge-read-wrong-bytes", fmt.Sprintf("the bridge read %d bytes that are not a prefix of what the application wrote; first difference at offset %d", len(snap[0].recv), firstDiffT2(snap[0].recv, up))
		return res
	}
	if res.timedOut {
		return res
	}
	tc.mu.Lock()
	infra := tc.infra
	tc.mu.Unlock()
	if infra != nil {
		res.infra = infra
		return res
	}
	if werr != nil || rerr != nil {
		res.sig, res.msg = "stream:ended-although-a-proxy-was-available", fmt.Sprintf("the stream ended (write error %v, read error %v) after %d of %d bytes down although working proxies were left", werr, rerr, len(g), downSize)
		return res
	}
	if len(snap) != 1 || len(snap[0].recv) != upSize || len(g) != downSize {
		res.sig, res.msg = "stream:incomplete", fmt.Sprintf("bridge connections %d, bridge read %d of %d, application read %d of %d", len(snap), func() int {
			if len(snap) > 0 {
				return len(snap[0].recv)
			}
			return 0
		}(), upSize, len(g), downSize)
	}
	return res
}

// ---- the test ---------------------------------------------------------------------------------------

func TestVerifEnumC01T2(t *testing.T) {
	r := en.New()
	defer r.Done()
	runtime.GOMAXPROCS(4)
	log.SetOutput(t2Log)
	shard, _ := r.Shard()
	t2NextPort = 24000 + 500*shard
	thorough := r.Thorough()
	logf := func(format string, a ...interface{}) { fmt.Fprintf(os.Stderr, "[c01t2] "+format+"\n", a...) }

	type scenario struct {
		faults       []t2Fault
		up, down     int
		bridgeCloses bool
	}
	var scen []scenario
	sizes := [][2]int{{2000, 3000}, {300000, 200000}}
	if thorough {
		sizes = append(sizes, [2]int{3000000, 2000000}, [2]int{1, 1})
	}
	idxs := []int{1, 3, 10}
	if thorough {
		idxs = []int{1, 2, 3, 5, 10, 40}
	}
	var singles []t2Fault
	singles = append(singles, t2Fault{})
	for _, k := range []int{t2CutClean, t2CutAbrupt, t2CutHalf} {
		for _, up := range []bool{true, false} {
			for _, i := range idxs {
				singles = append(singles, t2Fault{k, up, i})
			}
		}
	}
	singles = append(singles, t2Fault{kind: t2DeadOnUse}, t2Fault{kind: t2PopDelay})
	for _, f := range singles {
		for _, sz := range sizes {
			scen = append(scen, scenario{[]t2Fault{f}, sz[0], sz[1], false})
		}
	}
	// the staleness path costs 20 s of real time per fault: two scenarios (more in thorough)
	scen = append(scen, scenario{[]t2Fault{{t2Freeze, true, 3}}, 300000, 200000, false}, scenario{[]t2Fault{{t2Freeze, false, 3}}, 300000, 200000, false})
	// two proxies in a row freeze (and stay frozen, their connections to the server open) before a working one comes
	scen = append(scen, scenario{[]t2Fault{{t2Freeze, true, 3}, {t2Freeze, false, 3}}, 300000, 200000, false})
	if thorough {
		scen = append(scen, scenario{[]t2Fault{{t2Freeze, true, 1}}, 2000, 3000, false}, scenario{[]t2Fault{{t2Freeze, false, 10}, {t2CutAbrupt, true, 3}}, 300000, 200000, false},
			scenario{[]t2Fault{{t2Freeze, true, 3}, {t2Freeze, true, 3}, {t2Freeze, false, 3}}, 300000, 200000, false})
	}
	// the bridge writes and closes at once (tor closed first): what it wrote must still arrive although the
	// proxy carrying the tail swallows it and dies
	for k := 1; k <= 6; k++ {
		scen = append(scen, scenario{[]t2Fault{{t2Blackhole, false, k}}, 0, 3000, true}, scenario{[]t2Fault{{t2CutAbrupt, false, k}}, 0, 3000, true})
	}
	for _, k := range []int{1, 10, 40} {
		scen = append(scen, scenario{[]t2Fault{{t2Blackhole, false, k}}, 0, 200000, true}, scenario{[]t2Fault{{t2Blackhole, true, k}}, 0, 200000, true})
	}
	// a bulk transfer whose carrier dies while about a megabyte is outstanding and whose replacement comes
	// five seconds later: KCP's retransmissions meet full send queues in the meantime
	scen = append(scen, scenario{[]t2Fault{{t2CutAbrupt, true, 600}, {kind: t2PopDelay, idx: 5}}, 8 << 20, 8 << 20, false}, scenario{[]t2Fault{{t2CutAbrupt, false, 600}, {kind: t2PopDelay, idx: 5}}, 8 << 20, 8 << 20, false})
	// an outage of more than two minutes (no proxy at all), then a working one: both ends must still hold the
	// session (their keep-alive windows are 10 minutes) and the stream resumes
	// (the cut comes at the 40th message: by then both ends have acknowledged traffic of the session)
	scen = append(scen, scenario{[]t2Fault{{t2CutAbrupt, true, 40}, {kind: t2PopDelay, idx: 125}}, 300000, 200000, false})
	if thorough {
		scen = append(scen, scenario{[]t2Fault{{t2CutClean, false, 40}, {kind: t2PopDelay, idx: 125}}, 300000, 200000, false}, scenario{[]t2Fault{{t2CutAbrupt, true, 3}, {kind: t2PopDelay, idx: 125}}, 300000, 200000, false}, scenario{[]t2Fault{{t2CutAbrupt, true, 40}, {kind: t2PopDelay, idx: 70}}, 300000, 200000, false})
	}
	scen = append(scen, scenario{[]t2Fault{{}}, 0, 200000, true}, scenario{[]t2Fault{{t2Blackhole, false, 3}}, 300000, 200000, false}, scenario{[]t2Fault{{t2Blackhole, true, 10}}, 300000, 200000, false})
	pairs := []t2Fault{{t2CutClean, true, 3}, {t2CutAbrupt, false, 3}, {t2CutHalf, true, 3}, {kind: t2DeadOnUse}, {t2CutHalf, false, 1}}
	for _, a := range pairs {
		for _, b := range pairs {
			scen = append(scen, scenario{[]t2Fault{a, b}, 300000, 200000, false})
		}
	}
	if thorough {
		for _, a := range pairs {
			for _, b := range pairs {
				for _, c := range pairs[:3] {
					scen = append(scen, scenario{[]t2Fault{a, b, c}, 300000, 200000, false})
				}
			}
		}
	}
	r.Begin("end-to-end", fmt.Sprintf("real client session (newSession: dialContext, RedialPacketConn, kcp-go, smux) <-> relay <-> real server listener over loopback WebSockets; %d scenarios: fault of the first carrier(s) in {clean cut, abrupt cut, cut inside a message} x {up, down} x message index %v, peer dead on first use, replacement 2 s late, frozen carrier (staleness timeout), a carrier that swallows everything and dies a second later, the bridge closing right after its last write, ordered pairs of faults on consecutive carriers; payload sizes up/down %v; a working carrier always follows; oracle: the bridge reads exactly the application's bytes and the application exactly the bridge's, as one connection, and the stream completes", len(scen), idxs, sizes))
	for _, sc := range scen {
		if !r.Mine() {
			continue
		}
		if r.TimeUp() {
			break
		}
		if os.Getenv("VERIF_T2_SKIP_LONG") != "" && t2WaitFor(sc.faults) > 2*t2LiveWait {
			continue // the race pass leaves out the minutes-long outages
		}
		var names []string
		for _, f := range sc.faults {
			names = append(names, f.String())
		}
		desc := fmt.Sprintf("faults [%s] up %d B down %d B", strings.Join(names, ", "), sc.up, sc.down)
		if sc.bridgeCloses {
			desc += ", the bridge closes after writing"
		}
		if only := os.Getenv("VERIF_T2_ONLY"); only != "" && !strings.Contains(desc, only) {
			continue
		}
		r.Case("e2e|"+desc, true)
		t0 := time.Now()
		res := t2Run(sc.faults, sc.up, sc.down, 2, sc.bridgeCloses)
		logf("%s: %v, %d carriers", desc, time.Since(t0).Round(time.Millisecond), res.carriers)
		if res.infra != nil {
			r.Incomplete("loopback trouble: " + res.infra.Error())
			continue
		}
		if res.sig != "" {
			r.Fail(res.sig, res.msg, desc)
			continue
		}
		if res.timedOut {
			rep := 0
			for i := 0; i < 3; i++ {
				r2 := t2Run(sc.faults, sc.up, sc.down, 2, sc.bridgeCloses)
				if r2.sig != "" {
					r.Fail(r2.sig, r2.msg, desc)
					break
				}
				if r2.timedOut {
					rep++
				}
			}
			if rep == 3 {
				r.Fail("stream:no-progress", fmt.Sprintf("the stream did not complete within %v in any of 4 runs although working proxies were available", t2WaitFor(sc.faults)), desc)
			} else {
				logf("%s: timed out once, completed on re-run", desc)
			}
		}
	}

	// no working proxy: the stream stalls or ends; it never delivers wrong bytes (checked inside t2Run)
	r.Begin("no-proxy-left", "the same session when every carrier is faulted and none follows: the stream may stall or end; whatever was delivered is a prefix (10 s observation per scenario)")
	for _, f := range []t2Fault{{t2CutAbrupt, true, 5}, {t2CutHalf, false, 2}, {t2CutClean, false, 10}} {
		if !r.Mine() {
			continue
		}
		if r.TimeUp() {
			break
		}
		desc := "only carrier: " + f.String()
		r.Case("stall|"+desc, true)
		res := t2RunStall([]t2Fault{f}, 300000, 200000)
		if res.infra != nil {
			r.Incomplete("loopback trouble: " + res.infra.Error())
		} else if res.sig != "" {
			r.Fail(res.sig, res.msg, desc)
		}
	}
}

// t2RunStall: no replacement carrier; observe for a while and judge only the bytes.
func t2RunStall(faults []t2Fault, upSize, downSize int) *t2Result {
	return t2RunWith(faults, upSize, downSize, 0, 10*time.Second)
}

func t2RunWith(faults []t2Fault, upSize, downSize, extra int, wait time.Duration) *t2Result {
	res := &t2Result{}
	up, down := t2Payload(1, upSize), t2Payload(2, downSize)
	bridge, err := startT2Bridge(down)
	if err != nil {
		res.infra = err
		return res
	}
	defer bridge.ln.Close()
	tc := &t2Collector{bridge: bridge, faults: faults, melt: make(chan struct{}), maxPeer: len(faults) + extra}
	pconn, sess, err := newSession(tc)
	if err != nil {
		res.infra = err
		return res
	}
	stream, err := sess.OpenStream()
	if err != nil {
		res.infra = err
		return res
	}
	var gotMu sync.Mutex
	var got []byte
	go func() {
		for off := 0; off < len(up); {
			end := off + 4096
			if end > len(up) {
				end = len(up)
			}
			n, err := stream.Write(up[off:end])
			off += n
			if err != nil {
				return
			}
		}
	}()
	go func() {
		buf := make([]byte, 32768)
		for {
			n, err := stream.Read(buf)
			gotMu.Lock()
			got = append(got, buf[:n]...)
			gotMu.Unlock()
			if err != nil {
				return
			}
		}
	}()
	time.Sleep(wait)
	gotMu.Lock()
	g := append([]byte(nil), got...)
	gotMu.Unlock()
	snap := bridge.snapshot()
	tc.End()
	pconn.Close()
	sess.Close()
	stream.Close()
	tc.mu.Lock()
	for _, c := range tc.handed {
		c.kill(false)
	}
	tc.mu.Unlock()
	if !bytes.HasPrefix(down, g) {
		res.sig, res.msg = "stream:client-read-wrong-bytes", fmt.Sprintf("the application read %d bytes that are not a prefix of what the bridge wrote; first difference at offset %d", len(g), firstDiffT2(g, down))
	} else if len(snap) > 1 {
		res.sig, res.msg = "stream:several-bridge-connections", fmt.Sprintf("one client stream surfaced as %d connections at the bridge", len(snap))
	} else if len(snap) == 1 && !bytes.HasPrefix(up, snap[0].recv) {
		res.sig, res.msg = "stream:bridge-read-wrong-bytes", fmt.Sprintf("the bridge read %d bytes that are not a prefix of what the application wrote; first difference at offset %d", len(snap[0].recv), firstDiffT2(snap[0].recv, up))
	}
	return res
}
