//go:build go1.21

package turbotunnel

// C17 (c) — clientMapInner with an explicit clock: explicit-state search to a fixpoint.

import (
	"fmt"
	"net"
	"sort"
	"strings"
	"testing"
	"time"

	en "git.torproject.org/pluggable-transports/snowflake.git/v2/verifenum"
)

type cmAddr string

func (a cmAddr) Network() string { return "t" }
func (a cmAddr) String() string  { return string(a) }

type cmOp struct {
	kind int // 0 SendQueue(addr), 1 removeExpired, 2 clock step
	addr int
	step time.Duration
}

func (o cmOp) String() string {
	switch o.kind {
	case 0:
		return fmt.Sprintf("SendQueue(%c)", 'a'+o.addr)
	case 1:
		return "removeExpired"
	}
	return fmt.Sprintf("clock+%v", o.step)
}

type cmRef struct {
	lastSeen map[int]time.Time
	queue    map[int]chan []byte
	dead     []chan []byte // queues of discarded records: must be closed
}

func TestVerifEnumC17c(t *testing.T) {
	r := en.New()
	defer r.Done()
	const T = 4 * time.Second
	addrs := []net.Addr{cmAddr("a"), cmAddr("b"), cmAddr("c")}
	var ops []cmOp
	for i := range addrs {
		ops = append(ops, cmOp{kind: 0, addr: i})
	}
	ops = append(ops, cmOp{kind: 1})
	for _, d := range []time.Duration{T / 8, T / 2, T - 1, T} {
		ops = append(ops, cmOp{kind: 2, step: d})
	}
	r.Begin("clientMapInner", "explicit clock; ops SendQueue(a|b|c, now), removeExpired(now, T), clock steps {T/8, T/2, T-1ns, T}; breadth-first over operation sequences on the real object until no new canonical state (heap order of addresses + idle times capped at T) appears; invariants and reference checked after every operation")
	if !r.Shard0() {
		return
	}
	epoch := time.Unix(1_600_000_000, 0)
	type world struct {
		inner *clientMapInner
		ref   *cmRef
		now   time.Time
	}
	build := func(seq []cmOp) (*world, string) {
		w := &world{inner: &clientMapInner{byAge: make([]*clientRecord, 0), byAddr: make(map[net.Addr]int)}, ref: &cmRef{lastSeen: map[int]time.Time{}, queue: map[int]chan []byte{}}, now: epoch}
		for step, o := range seq {
			switch o.kind {
			case 0:
				q := w.inner.SendQueue(addrs[o.addr], w.now)
				if old, ok := w.ref.queue[o.addr]; ok {
					if q != old {
						return w, fmt.Sprintf("queue-identity-changed|step %d: SendQueue(%c) returned a new queue although the record was never discarded", step, 'a'+o.addr)
					}
				} else {
					w.ref.queue[o.addr] = q
					select {
					case q <- []byte{byte('a' + o.addr)}:
					default:
					}
				}
				w.ref.lastSeen[o.addr] = w.now
			case 1:
				w.inner.removeExpired(w.now, T)
				for a, ls := range w.ref.lastSeen {
					if w.now.Sub(ls) >= T {
						w.ref.dead = append(w.ref.dead, w.ref.queue[a])
						delete(w.ref.lastSeen, a)
						delete(w.ref.queue, a)
					}
				}
			case 2:
				w.now = w.now.Add(o.step)
			}
			// invariants
			in := w.inner
			if len(in.byAge) != len(in.byAddr) {
				return w, fmt.Sprintf("inconsistent-sizes|byAge %d vs byAddr %d", len(in.byAge), len(in.byAddr))
			}
			for i, rec := range in.byAge {
				if j, ok := in.byAddr[rec.Addr]; !ok || j != i {
					return w, fmt.Sprintf("index-map-wrong|byAddr[%v]=%d,%v but the record is at %d", rec.Addr, j, ok, i)
				}
				if i > 0 && rec.LastSeen.Before(in.byAge[(i-1)/2].LastSeen) {
					return w, fmt.Sprintf("heap-order-broken|record %d older than its parent", i)
				}
			}
			// reference: same set, same last-seen, same queue, contents kept
			if len(in.byAge) != len(w.ref.lastSeen) {
				kind := "discarded-too-early-or-kept-too-long"
				return w, fmt.Sprintf("%s|%d records, reference has %d", kind, len(in.byAge), len(w.ref.lastSeen))
			}
			for a, ls := range w.ref.lastSeen {
				i, ok := in.byAddr[addrs[a]]
				if !ok {
					return w, fmt.Sprintf("discarded-too-early|record %c idle for %v < T is gone", 'a'+a, w.now.Sub(ls))
				}
				rec := in.byAge[i]
				if !rec.LastSeen.Equal(ls) {
					return w, fmt.Sprintf("last-seen-wrong|record %c", 'a'+a)
				}
				if rec.SendQueue != w.ref.queue[a] || len(rec.SendQueue) != 1 {
					return w, fmt.Sprintf("queue-or-contents-lost|record %c holds %d packets", 'a'+a, len(rec.SendQueue))
				}
			}
			for _, q := range w.ref.dead {
				closed := false
				for !closed {
					select {
					case _, ok := <-q:
						if !ok {
							closed = true
						}
					default:
						return w, "discarded-queue-not-closed|"
					}
				}
			}
		}
		return w, ""
	}
	canon := func(w *world) string {
		var order []string
		for _, rec := range w.inner.byAge {
			idle := w.now.Sub(rec.LastSeen)
			if idle > T {
				idle = T
			}
			order = append(order, fmt.Sprintf("%v:%d", rec.Addr, idle))
		}
		// pending-expiry information that removeExpired has not acted on yet is in the idle times
		var present []string
		for a := range w.inner.byAddr {
			present = append(present, a.String())
		}
		sort.Strings(present)
		return strings.Join(order, ",") + "|" + strings.Join(present, "")
	}
	seen := map[string]bool{}
	w0, _ := build(nil)
	seen[canon(w0)] = true
	frontier := [][]cmOp{nil}
	states, transitions, depth := 1, 0, 0
	for len(frontier) > 0 && depth < 40 {
		var next [][]cmOp
		for _, hist := range frontier {
			for _, o := range ops {
				seq := append(append([]cmOp{}, hist...), o)
				transitions++
				var w *world
				var bad string
				p, val, stack := en.Try(func() { w, bad = build(seq) })
				r.Case(fmt.Sprint(seq), true)
				if p {
					r.Fail("clientmap:panic@"+en.PanicSite(stack), val+" "+stack, fmt.Sprint(seq))
					continue
				}
				if bad != "" {
					i := strings.IndexByte(bad, '|')
					r.Fail("clientmap:"+bad[:i], bad[i+1:], fmt.Sprint(seq))
					continue
				}
				k := canon(w)
				if !seen[k] {
					seen[k] = true
					states++
					next = append(next, seq)
				}
			}
		}
		frontier = next
		if len(next) > 0 {
			depth++
		}
	}
	if len(frontier) > 0 {
		r.Incomplete("no fixpoint by depth 40")
	}
	r.Sample(map[string]interface{}{"reachable_states": states, "transitions": transitions, "fixpoint_depth": depth, "T": T.String()})
}
