//go:build go1.21

package websocketconn

// C09 — the stream that feeds encapsulation.ReadData at the server is a WebSocket connection wrapped by
// websocketconn: a sequence of chunks and paddings must read back exactly however the peer groups the
// bytes into WebSocket messages (one chunk per message, many chunks in one message, a chunk spread over
// messages; message sizes on both sides of every power of two up to 128 KiB).  Real gorilla
// connections over loopback; a raw gorilla client writes the messages (it does not go through this
// package's writeLoop, which caps messages at 2048 bytes).

import (
	"bytes"
	"fmt"
	"io"
	"net/http"
	"net/http/httptest"
	"strings"
	"testing"
	"time"

	"git.torproject.org/pluggable-transports/snowflake.git/v2/common/encapsulation"
	en "git.torproject.org/pluggable-transports/snowflake.git/v2/verifenum"
	"github.com/gorilla/websocket"
)

func TestVerifEnumC09WS(t *testing.T) {
	r := en.New()
	defer r.Done()
	r.Begin("websocket-messages", "an encapsulated stream (data chunks of several sizes and paddings, > 300 kB in all) sent through a real WebSocket as messages of fixed size m for m in {1, 2, 3, 2047, 2048, 2049, 4095..4097, 16383..16385, 32767..32769, 65535..65537, 100000, 131071..131073} and as one message per chunk for chunk sizes up to 200000 B; read at the server side through websocketconn.Conn with encapsulation.ReadData: exactly the chunks written")
	fill := make([]byte, 300000)
	for i := range fill {
		fill[i] = byte(i*31 + i>>9)
	}
	// the stream
	type item struct {
		data bool
		n    int
	}
	items := []item{{true, 1}, {false, 3}, {true, 1400}, {true, 63}, {true, 64}, {false, 100}, {true, 16383}, {true, 16384}, {true, 32766}, {true, 32767}, {true, 32768}, {false, 40000}, {true, 65536}, {true, 100000}, {true, 2}}
	var stream bytes.Buffer
	var want [][]byte
	var perChunk [][]byte // the encoding of each item on its own
	for i, it := range items {
		before := stream.Len()
		if it.data {
			d := fill[i*7 : i*7+it.n]
			if _, err := encapsulation.WriteData(&stream, d); err != nil {
				t.Fatal(err)
			}
			want = append(want, d)
		} else if _, err := encapsulation.WritePadding(&stream, it.n); err != nil {
			t.Fatal(err)
		}
		perChunk = append(perChunk, append([]byte(nil), stream.Bytes()[before:]...))
	}
	all := stream.Bytes()

	run := func(name string, messages [][]byte) {
		r.Case("ws|"+name, true)
		got := make(chan [][]byte, 1)
		errc := make(chan error, 1)
		srv := httptest.NewServer(http.HandlerFunc(func(w http.ResponseWriter, req *http.Request) {
			up := websocket.Upgrader{CheckOrigin: func(*http.Request) bool { return true }}
			ws, err := up.Upgrade(w, req, nil)
			if err != nil {
				errc <- err
				return
			}
			conn := New(ws)
			defer conn.Close()
			var chunks [][]byte
			for {
				p, err := encapsulation.ReadData(conn)
				if err != nil {
					if err != io.EOF {
						errc <- err
						return
					}
					break
				}
				chunks = append(chunks, p)
			}
			got <- chunks
		}))
		defer srv.Close()
		ws, _, err := websocket.DefaultDialer.Dial("ws"+strings.TrimPrefix(srv.URL, "http"), nil)
		if err != nil {
			r.Incomplete("loopback trouble: " + err.Error())
			return
		}
		for _, m := range messages {
			if err := ws.WriteMessage(websocket.BinaryMessage, m); err != nil {
				r.Incomplete("loopback trouble: " + err.Error())
				ws.Close()
				return
			}
		}
		ws.WriteControl(websocket.CloseMessage, websocket.FormatCloseMessage(websocket.CloseNormalClosure, ""), time.Now().Add(5*time.Second))
		defer ws.Close()
		select {
		case chunks := <-got:
			if len(chunks) != len(want) {
				r.Fail("websocket:wrong-chunks", fmt.Sprintf("%d chunks read, %d written", len(chunks), len(want)), name)
				return
			}
			for i := range chunks {
				if !bytes.Equal(chunks[i], want[i]) {
					r.Fail("websocket:wrong-chunks", fmt.Sprintf("chunk %d (%d bytes) differs from what was written (%d bytes)", i, len(chunks[i]), len(want[i])), name)
					return
				}
			}
		case err := <-errc:
			r.Fail("websocket:decode-error", "ReadData over the WebSocket stream failed: "+err.Error(), name)
		case <-time.After(60 * time.Second):
			r.Fail("websocket:stalled", "the stream was not read to its end within 60 s", name)
		}
	}
	var sizes []int
	for _, c := range []int{2048, 4096, 16384, 32768, 65536, 131072} {
		sizes = append(sizes, c-1, c, c+1)
	}
	sizes = append(sizes, 1, 2, 3, 100000, len(all))
	for _, m := range sizes {
		if !r.Mine() {
			continue
		}
		if m < 100 && len(all) > 50000 {
			// tiny messages over a prefix of the stream only (first six items)
			n := 0
			for _, pc := range perChunk[:6] {
				n += len(pc)
			}
			sub := all[:n]
			saved := want
			want = want[:4]
			var msgs [][]byte
			for off := 0; off < len(sub); off += m {
				end := off + m
				if end > len(sub) {
					end = len(sub)
				}
				msgs = append(msgs, sub[off:end])
			}
			run(fmt.Sprintf("fixed message size %d (stream prefix)", m), msgs)
			want = saved
			continue
		}
		var msgs [][]byte
		for off := 0; off < len(all); off += m {
			end := off + m
			if end > len(all) {
				end = len(all)
			}
			msgs = append(msgs, all[off:end])
		}
		run(fmt.Sprintf("fixed message size %d", m), msgs)
	}
	if r.Mine() {
		run("one message per chunk or padding", perChunk)
	}
	if r.Mine() {
		// every chunk split in two messages in the middle
		var msgs [][]byte
		for _, pc := range perChunk {
			msgs = append(msgs, pc[:len(pc)/2], pc[len(pc)/2:])
		}
		run("every chunk in two messages", msgs)
	}
}
