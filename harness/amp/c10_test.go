//go:build go1.21

package amp

// C10 — AMP armor round-trips and survives cache-style rewriting (DESIGN.md §3 C10).
//
// Everything the oracles know about the format is written down here independently of
// armor_encoder.go / armor_decoder.go: the boilerplate is copied from the example in doc.go, the
// structural limits (words <= 32 bytes, <= 32 KiB of text per pre element) from the property
// statement, the decoding algorithm ("scan for pre elements, split text on ASCII whitespace,
// concatenate, strip the version byte '0', base64-decode") from doc.go.

import (
	"bytes"
	"encoding/base64"
	"errors"
	"fmt"
	"io"
	"os"
	"runtime"
	"sort"
	"strings"
	"sync/atomic"
	"testing"
	"time"

	en "git.torproject.org/pluggable-transports/snowflake.git/v2/verifenum"
)

// ---- reference format ---------------------------------------------------------------------------

const refHead = `<!doctype html>
<html amp>
<head>
<meta charset="utf-8">
<script async src="https://cdn.ampproject.org/v0.js"></script>
<link rel="canonical" href="#">
<meta name="viewport" content="width=device-width">
<style amp-boilerplate>body{-webkit-animation:-amp-start 8s steps(1,end) 0s 1 normal both;-moz-animation:-amp-start 8s steps(1,end) 0s 1 normal both;-ms-animation:-amp-start 8s steps(1,end) 0s 1 normal both;animation:-amp-start 8s steps(1,end) 0s 1 normal both}@-webkit-keyframes -amp-start{from{visibility:hidden}to{visibility:visible}}@-moz-keyframes -amp-start{from{visibility:hidden}to{visibility:visible}}@-ms-keyframes -amp-start{from{visibility:hidden}to{visibility:visible}}@-o-keyframes -amp-start{from{visibility:hidden}to{visibility:visible}}@keyframes -amp-start{from{visibility:hidden}to{visibility:visible}}</style><noscript><style amp-boilerplate>body{-webkit-animation:none;-moz-animation:none;-ms-animation:none;animation:none}</style></noscript>
</head>
<body>
`

const refTail = `</body>
</html>`

const (
	refWordLimit    = 32        // bytes per word (property statement)
	refElementLimit = 32 * 1024 // bytes of text per pre element (property statement)
	// A rewriting that grows an element (doubled separators, CRLF) must still decode while every
	// element stays within the limit minus this slack; above that an "oversized element" error is
	// an allowed answer (the statement does not fix the decoder's exact limit).
	refGrowSlack = 16
	// Generous bound on what a decoder may consume from an endless source before it answers, and
	// on its live heap growth / read request size ("no unbounded buffering"): element limit plus
	// tokenizer blocks is < 100 KiB for the real code.
	boundedBytes = 1 << 20
	heapSlack    = 4 << 20
)

var wsBytes = []byte{' ', '\t', '\n', '\f', '\r'}

func isWS(b byte) bool {
	return b == ' ' || b == '\t' || b == '\n' || b == '\f' || b == '\r'
}

func wsName(b []byte) string { return fmt.Sprintf("%q", b) }

// span locates one pre element of an armored document.
type span struct {
	open      int // offset of "<pre>"
	textStart int // first byte of the element's text
	textEnd   int // offset of "</pre>"
	close     int // first byte after "</pre>"
}

// parseArmor is the structural oracle: fixed boilerplate + pre elements (separated by nothing but
// ASCII whitespace) whose text is whitespace-separated words of <= 32 bytes, <= 32 KiB per
// element.  It returns the element spans and the concatenation of all words; a broken size limit
// is reported (first one only) but does not stop the scan.
func parseArmor(doc []byte) (spans []span, words []byte, sig string, msg string) {
	if !bytes.HasPrefix(doc, []byte(refHead)) {
		return nil, nil, "structure:boilerplate-head", "document does not start with the AMP boilerplate of doc.go"
	}
	body := doc[len(refHead):]
	tail := refTail
	switch {
	case bytes.HasSuffix(body, []byte(tail)):
	case bytes.HasSuffix(body, []byte(tail+"\n")):
		tail += "\n"
	default:
		return nil, nil, "structure:boilerplate-tail", fmt.Sprintf("document does not end with the AMP boilerplate trailer; last bytes %q", lastBytes(doc, 40))
	}
	end := len(doc) - len(tail)
	i := len(refHead)
	for {
		for i < end && isWS(doc[i]) {
			i++
		}
		if i == end {
			break
		}
		if !bytes.HasPrefix(doc[i:end], []byte("<pre>")) {
			return nil, nil, "structure:body-not-pre-elements", fmt.Sprintf("at offset %d expected <pre>, found %q", i, firstBytes(doc[i:end], 40))
		}
		s := span{open: i, textStart: i + 5}
		j := bytes.IndexByte(doc[s.textStart:end], '<')
		if j < 0 || !bytes.HasPrefix(doc[s.textStart+j:end], []byte("</pre>")) {
			return nil, nil, "structure:body-not-pre-elements", fmt.Sprintf("pre element at offset %d is not closed by </pre> right after its text", i)
		}
		s.textEnd = s.textStart + j
		s.close = s.textEnd + 6
		text := doc[s.textStart:s.textEnd]
		if len(text) > refElementLimit && sig == "" {
			sig, msg = "structure:element-too-large", fmt.Sprintf("pre element #%d holds %d bytes of text (limit %d)", len(spans), len(text), refElementLimit)
		}
		for k := 0; k < len(text); {
			if isWS(text[k]) {
				k++
				continue
			}
			w := k
			for k < len(text) && !isWS(text[k]) {
				k++
			}
			if k-w > refWordLimit && sig == "" {
				sig, msg = "structure:word-too-long", fmt.Sprintf("pre element #%d has a word of %d bytes (limit %d): %q", len(spans), k-w, refWordLimit, firstBytes(text[w:k], 48))
			}
			if bytes.IndexByte(text[w:k], '&') >= 0 && sig == "" {
				sig, msg = "structure:markup-in-text", fmt.Sprintf("pre element #%d has a character reference in its text: %q", len(spans), text[w:k])
			}
			words = append(words, text[w:k]...)
		}
		spans = append(spans, s)
		i = s.close
	}
	return spans, words, sig, msg
}

func firstBytes(b []byte, n int) []byte {
	if len(b) > n {
		return b[:n]
	}
	return b
}

func lastBytes(b []byte, n int) []byte {
	if len(b) > n {
		return b[len(b)-n:]
	}
	return b
}

// ---- payloads -----------------------------------------------------------------------------------

type payload struct {
	n    int
	kind int // 0 zeros, 1 0xff, 2 counter
}

var kindName = []string{"zeros", "ff", "counter"}

func (p payload) String() string { return fmt.Sprintf("%s(%d)", kindName[p.kind], p.n) }

func (p payload) bytes() []byte {
	b := make([]byte, p.n)
	switch p.kind {
	case 1:
		for i := range b {
			b[i] = 0xff
		}
	case 2:
		for i := range b {
			b[i] = byte(i)
		}
	}
	return b
}

func rng(a, b int) []int {
	var l []int
	for i := a; i <= b; i++ {
		l = append(l, i)
	}
	return l
}

// Element boundaries: an element holds 992 words of 32 bytes = 31744 characters, the first of
// which is the version byte; 4*ceil(n/3)+1 characters exceed one element from n = 23806 and two
// elements from n = 47614 (three from n = 71422).
func payloadLengths(thorough bool) []int {
	var l []int
	if thorough {
		l = append(l, rng(0, 200)...)
		l = append(l, rng(23796, 23816)...)
		l = append(l, rng(47604, 47624)...)
		l = append(l, rng(71416, 71428)...)
		l = append(l, 30000, 65535, 65536, 99999, 100000, 120000, 250000)
	} else {
		l = append(l, rng(0, 50)...)
		l = append(l, rng(23800, 23812)...)
		l = append(l, rng(47608, 47620)...)
		l = append(l, 99999, 100000, 120000)
	}
	return l
}

// ---- driving the real encoder -------------------------------------------------------------------

// encode runs the real encoder; next returns the size of the next Write given the number of
// remaining bytes (0 means a zero-length Write).  A nil next means a single Write.
func encode(data []byte, next func(rem int) int) (doc []byte, err error) {
	var buf bytes.Buffer
	var e io.WriteCloser
	p, val, stack := en.Try(func() {
		e, err = NewArmorEncoder(&buf)
		if err != nil {
			return
		}
		rest := data
		if next == nil {
			var n int
			n, err = e.Write(rest)
			if err == nil && n != len(rest) {
				err = fmt.Errorf("Write of %d bytes returned %d, nil", len(rest), n)
			}
			rest = nil
		}
		zeros := 0
		for len(rest) > 0 && err == nil {
			k := next(len(rest))
			if k > len(rest) {
				k = len(rest)
			}
			if k == 0 {
				zeros++
				if zeros > 4 {
					k = len(rest)
				}
			}
			var n int
			n, err = e.Write(rest[:k])
			if err == nil && n != k {
				err = fmt.Errorf("Write of %d bytes returned %d, nil", k, n)
			}
			rest = rest[k:]
		}
		if err == nil {
			err = e.Close()
		}
	})
	if p {
		return nil, fmt.Errorf("panic@%s: %s %s", en.PanicSite(stack), val, stack)
	}
	return buf.Bytes(), err
}

// judgeChunked judges an armored document that differs from the single-Write document of the same
// payload.  The statement does not require the encoder's output to be independent of the Write
// pattern, only that it has the armor structure and decodes to the payload; a different but valid
// document is counted, not flagged.
func judgeChunked(r *en.R, doc, data []byte, desc func() interface{}) {
	_, _, sig, msg := parseArmor(doc)
	if sig != "" {
		r.Fail("chunking:"+sig, msg, desc())
		return
	}
	var out []byte
	var err error
	p, val, stack := en.Try(func() {
		var d io.Reader
		d, err = NewArmorDecoder(bytes.NewReader(doc))
		if err == nil {
			out, err = io.ReadAll(d)
		}
	})
	switch {
	case p:
		r.Fail("chunking:decode-panic@"+en.PanicSite(stack), fmt.Sprint(val), desc())
	case err != nil:
		r.Fail("chunking:decode-error", "the armor written with this Write pattern does not decode: "+err.Error(), desc())
	case !bytes.Equal(out, data):
		r.Fail("chunking:wrong-data", fmt.Sprintf("the armor written with this Write pattern decodes to %d bytes that differ from the %d-byte payload at offset %d", len(out), len(data), firstDiff(out, data)), desc())
	default:
		r.Case("ch|valid-but-different", true)
	}
}

func fixed(k int) func(int) int { return func(int) int { return k } }

// ---- driving the real decoder -------------------------------------------------------------------

// srcReader feeds a document to the decoder with a chosen read pattern.
type srcReader struct {
	data      []byte
	pos       int
	chunk     int  // at most this many bytes per Read
	eofAttach bool // return io.EOF together with the last bytes
	zeroFirst bool // a (0, nil) before every delivering Read
	lastZero  bool
	tape      *en.Tape     // when set: per Read {chunk, 1 byte, (0,nil), 7 bytes}; at the end {EOF later, EOF attached}
	frozen    *atomic.Bool // set once the case has been judged: a decoder goroutine still reading must not touch the tape
}

func (s *srcReader) Read(p []byte) (int, error) {
	if len(p) == 0 {
		return 0, nil
	}
	rem := len(s.data) - s.pos
	if rem == 0 {
		return 0, io.EOF
	}
	n := s.chunk
	attach := s.eofAttach
	tape := s.tape
	if tape != nil && s.frozen.Load() {
		tape = nil
	}
	if tape != nil {
		switch tape.Choose(4) {
		case 1:
			n = 1
		case 2:
			if !s.lastZero {
				s.lastZero = true
				return 0, nil
			}
		case 3:
			n = 7
		}
	} else if s.zeroFirst && !s.lastZero {
		s.lastZero = true
		return 0, nil
	}
	s.lastZero = false
	if n > len(p) {
		n = len(p)
	}
	if n > rem {
		n = rem
	}
	copy(p, s.data[s.pos:s.pos+n])
	s.pos += n
	if s.pos == len(s.data) {
		if tape != nil {
			attach = tape.Choose(2) == 1
		}
		if attach {
			return n, io.EOF
		}
	}
	return n, nil
}

type srcMode struct {
	name      string
	chunk     int
	eofAttach bool
	zeroFirst bool
}

var srcSizes = []srcMode{{"1", 1, false, false}, {"3", 3, false, false}, {"4", 4, false, false}, {"7", 7, false, false}, {"4096", 4096, false, false}}
var srcExtra = []srcMode{{"4096+eof-attached", 4096, true, false}, {"1+eof-attached", 1, true, false}, {"4096+zero-read-before-every-read", 4096, false, true}}

func (m srcMode) reader(doc []byte) io.Reader {
	return &srcReader{data: doc, chunk: m.chunk, eofAttach: m.eofAttach, zeroFirst: m.zeroFirst}
}

var dstSizes = []int{0, 1, 3, 4, 7, 4096} // 0: io.ReadAll

var errNoProgress = errors.New("harness: decoder returned (0, nil) 1000 times in a row")

func readOut(d io.Reader, chunk int, limit int) ([]byte, error) {
	if chunk == 0 && limit == 0 {
		return io.ReadAll(d)
	}
	if chunk == 0 {
		chunk = 4096
	}
	var out []byte
	buf := make([]byte, chunk)
	zero := 0
	for {
		n, err := d.Read(buf)
		out = append(out, buf[:n]...)
		if err == io.EOF {
			return out, nil
		}
		if err != nil {
			return out, err
		}
		if limit > 0 && len(out) >= limit {
			return out, nil
		}
		if n == 0 {
			zero++
			if zero >= 1000 {
				return out, errNoProgress
			}
		} else {
			zero = 0
		}
	}
}

// result of one decoder run
type result struct {
	data     []byte
	err      error
	atNew    bool // err came from NewArmorDecoder
	panicked bool
	pval     string
	stack    string
	alt      *result        // totality: the same input with one-byte source reads
	src      *endlessReader // endless: the measuring source
	nread    int            // endless: bytes returned by the decoder (not kept)
}

func (o *result) errString() string {
	if o.err == nil {
		return "nil"
	}
	if o.atNew {
		return "NewArmorDecoder: " + o.err.Error()
	}
	return "Read: " + o.err.Error()
}

// decode runs the real decoder (exported API) on what mk returns.
func decode(mk func() io.Reader, dst int, limit int) *result {
	o := &result{}
	o.panicked, o.pval, o.stack = en.Try(func() {
		d, err := NewArmorDecoder(mk())
		if err != nil {
			o.err, o.atNew = err, true
			return
		}
		o.data, o.err = readOut(d, dst, limit)
	})
	return o
}

// decodeCount is decode without keeping the output (for endless sources): nread counts the bytes
// returned; reading stops after limit bytes if limit > 0.
func decodeCount(mk func() io.Reader, limit int) *result {
	o := &result{}
	o.panicked, o.pval, o.stack = en.Try(func() {
		d, err := NewArmorDecoder(mk())
		if err != nil {
			o.err, o.atNew = err, true
			return
		}
		buf := make([]byte, 4096)
		zero := 0
		for {
			n, err := d.Read(buf)
			o.nread += n
			if err == io.EOF {
				return
			}
			if err != nil {
				o.err = err
				return
			}
			if limit > 0 && o.nread >= limit {
				return
			}
			if n == 0 {
				zero++
				if zero >= 1000 {
					o.err = errNoProgress
					return
				}
			} else {
				zero = 0
			}
		}
	})
	return o
}

// ---- watchdog -----------------------------------------------------------------------------------

type harness struct {
	r         *en.R
	watchdog  time.Duration
	rerun     time.Duration
	hung      map[string]bool // sections aborted after a confirmed hang
	slowCases int
}

// guard runs f under the watchdog.  A case that does not finish within the limit is re-run alone
// three times with a longer limit; only if all re-runs fail to finish is it reported as a hang.
func (h *harness) guard(section string, input func() interface{}, f func() *result) *result {
	try := func(limit time.Duration) *result {
		ch := make(chan *result, 1)
		go func() { ch <- f() }()
		t := time.NewTimer(limit)
		defer t.Stop()
		select {
		case o := <-ch:
			return o
		case <-t.C:
			return nil
		}
	}
	if o := try(h.watchdog); o != nil {
		return o
	}
	for i := 0; i < 3; i++ {
		if o := try(h.rerun); o != nil {
			h.slowCases++
			return o
		}
	}
	h.r.Fail(section+":hang", fmt.Sprintf("the case did not finish within %v and, re-run alone three times, not within %v either", h.watchdog, h.rerun), input())
	h.hung[section] = true
	h.r.Incomplete("hang confirmed in section " + section + "; the section was aborted")
	return nil
}

// expectPayload is the round-trip oracle: the decoder must return exactly want and no error.
func (h *harness) expectPayload(section string, mk func() io.Reader, dst int, want []byte, input func() interface{}) {
	o := h.guard(section, input, func() *result { return decode(mk, dst, 0) })
	if o == nil {
		return
	}
	h.judge(section, o, want, true, input)
}

// judge compares a result with the payload.  mustDecode=false accepts an error instead (used where
// the statement allows "oversized element"), but never wrong data without an error.
func (h *harness) judge(section string, o *result, want []byte, mustDecode bool, input func() interface{}) (accepted bool) {
	switch {
	case o.panicked:
		h.r.Fail(section+":panic@"+en.PanicSite(o.stack), "decoder panicked: "+o.pval+" "+o.stack, input())
	case o.err != nil && mustDecode:
		kind := ":decode-error"
		if errors.Is(o.err, io.ErrUnexpectedEOF) || isBase64Err(o.err) {
			kind = ":decode-error-base64"
		} else if strings.Contains(o.err.Error(), "max buffer exceeded") {
			kind = ":decode-error-oversized"
		}
		h.r.Fail(section+kind, fmt.Sprintf("decoder returned %d bytes and error %s; want the %d-byte payload", len(o.data), o.errString(), len(want)), input())
	case o.err != nil:
		return true
	case !bytes.Equal(o.data, want):
		kind := ":wrong-data"
		if len(o.data) < len(want) && bytes.Equal(o.data, want[:len(o.data)]) {
			kind = ":lost-data"
		}
		h.r.Fail(section+kind, fmt.Sprintf("decoder returned %d bytes without error, want %d bytes; first difference at %d", len(o.data), len(want), firstDiff(o.data, want)), input())
	default:
		return true
	}
	return false
}

func isBase64Err(err error) bool {
	var c base64.CorruptInputError
	return errors.As(err, &c)
}

func firstDiff(a, b []byte) int {
	for i := 0; i < len(a) && i < len(b); i++ {
		if a[i] != b[i] {
			return i
		}
	}
	if len(a) < len(b) {
		return len(a)
	}
	return len(b)
}

// ---- cache-style rewriting ----------------------------------------------------------------------

// sep is one whitespace byte inside the text of a pre element.
type sep struct {
	off  int  // offset in the document
	el   int  // element index
	edge bool // before the first / after the last word of its element (not *between* words)
}

func separators(doc []byte, spans []span) []sep {
	var out []sep
	for el, s := range spans {
		first, last := -1, -1
		for i := s.textStart; i < s.textEnd; i++ {
			if !isWS(doc[i]) {
				if first < 0 {
					first = i
				}
				last = i
			}
		}
		for i := s.textStart; i < s.textEnd; i++ {
			if isWS(doc[i]) {
				out = append(out, sep{off: i, el: el, edge: first < 0 || i < first || i > last})
			}
		}
	}
	return out
}

// rewrite replaces every separator byte by repl(i, s) and returns the new document and the text
// size of its largest element.
func rewrite(doc []byte, spans []span, seps []sep, repl func(i int, s sep) []byte) ([]byte, int) {
	out := make([]byte, 0, len(doc)+len(seps)+8)
	size := make([]int, len(spans))
	for i, s := range spans {
		size[i] = s.textEnd - s.textStart
	}
	prev := 0
	for i, s := range seps {
		out = append(out, doc[prev:s.off]...)
		w := repl(i, s)
		out = append(out, w...)
		size[s.el] += len(w) - 1
		prev = s.off + 1
	}
	out = append(out, doc[prev:]...)
	max := 0
	for _, n := range size {
		if n > max {
			max = n
		}
	}
	return out, max
}

var markups = []string{"<div>x</div>", "<!-- c -->", "<p>QUJD</p>", "<span>0QUJD</span>"}

var rawTextElements = map[string]bool{"script": true, "style": true, "noscript": true, "title": true, "textarea": true, "xmp": true, "iframe": true, "noembed": true, "noframes": true, "plaintext": true}

// outsidePositions lists the offsets of an armored document at which added markup is "outside the
// pre elements": not within a pre element (from the '<' of <pre> to the '>' of </pre>) and not
// inside a tag, declaration or comment of the surrounding document.  Positions inside the content
// of raw-text elements (script, style, noscript) are returned separately.
func outsidePositions(doc []byte, spans []span) (normal, raw []int) {
	inTag := false
	tagStart := 0
	rawName := ""
	k := 0
	for i := 0; i <= len(doc); i++ {
		if k < len(spans) && i == spans[k].open && !inTag {
			// position right before <pre> is outside; everything up to the end of </pre> is not
			if rawName == "" {
				normal = append(normal, i)
			}
			i = spans[k].close - 1
			k++
			continue
		}
		if !inTag {
			if rawName == "" {
				normal = append(normal, i)
			} else {
				raw = append(raw, i)
			}
		}
		if i == len(doc) {
			break
		}
		switch {
		case !inTag && doc[i] == '<':
			inTag, tagStart = true, i
		case inTag && doc[i] == '>':
			inTag = false
			name := strings.ToLower(string(doc[tagStart+1 : i]))
			end := strings.HasPrefix(name, "/")
			name = strings.TrimPrefix(name, "/")
			if j := strings.IndexAny(name, " \t\n\f\r/"); j >= 0 {
				name = name[:j]
			}
			if rawName != "" {
				if end && name == rawName {
					rawName = ""
				}
			} else if !end && rawTextElements[name] {
				rawName = name
			}
		}
	}
	return normal, raw
}

func insertAt(doc []byte, pos int, m string) []byte {
	out := make([]byte, 0, len(doc)+len(m))
	out = append(out, doc[:pos]...)
	out = append(out, m...)
	return append(out, doc[pos:]...)
}

// ---- totality -----------------------------------------------------------------------------------

var tokens = []string{"<pre>", "</pre>", "0", "1", "QUJD", "Q", "=", " ", "\n", "<b>", "</b>", "<", "&amp;", "\x00", "<pre", "<!--"}

// Tokens whose meaning in HTML does not depend on their neighbours: complete tags, base64-ish text
// and whitespace.  Strings over these can be judged by a token-level reference.
var plainTokens = map[string]bool{"<pre>": true, "</pre>": true, "0": true, "1": true, "QUJD": true, "Q": true, "=": true, " ": true, "\n": true, "<b>": true, "</b>": true}

const (
	vOpen    = iota // nothing in the statement decides the outcome (e.g. no pre text at all)
	vMustErr        // contains a malformation the statement lists as an error
	vValid          // well-formed armor body
)

// refTokens judges a string over plainTokens: doc.go's decoding algorithm plus the error classes of
// the statement (stray, nested or unterminated pre, unknown version, bad base64).
func refTokens(toks []string) (verdict int, reason string, data []byte) {
	active := false
	var text []byte
	for _, t := range toks {
		switch t {
		case "<pre>":
			if active {
				return vMustErr, "nested-pre", nil
			}
			active = true
		case "</pre>":
			if !active {
				return vMustErr, "stray-end-tag", nil
			}
			active = false
		case "<b>", "</b>", " ", "\n":
		default:
			if active {
				text = append(text, t...)
			}
		}
	}
	if active {
		return vMustErr, "unterminated-pre", nil
	}
	if len(text) == 0 {
		return vOpen, "", nil
	}
	if text[0] != '0' {
		return vMustErr, "unknown-version", nil
	}
	d, err := base64.StdEncoding.DecodeString(string(text[1:]))
	if err != nil {
		return vMustErr, "bad-base64", nil
	}
	return vValid, "", d
}

type sink struct{ n int }

func (s *sink) Write(p []byte) (int, error) { s.n += len(p); return len(p), nil }

// totalityRun feeds one input to the decoder three ways: decodeToWriter directly (so that a panic
// in the decoding goroutine is caught here instead of killing the process), then through the
// exported API with whole and with one-byte source reads.
func totalityRun(in []byte) *result {
	var o result
	o.panicked, o.pval, o.stack = en.Try(func() {
		decodeToWriter(&sink{}, &srcReader{data: in, chunk: 4096})
		decodeToWriter(&sink{}, &srcReader{data: in, chunk: 1})
	})
	if o.panicked {
		return &o
	}
	w := decode(func() io.Reader { return &srcReader{data: in, chunk: 4096} }, 0, 0)
	if w.panicked {
		return w
	}
	w.alt = decode(func() io.Reader { return &srcReader{data: in, chunk: 1, eofAttach: true} }, 0, 0)
	return w
}

func errClass(err error) string {
	var uv ErrUnknownVersion
	switch {
	case err == nil:
		return "data"
	case errors.As(err, &uv):
		return "unknown-version"
	case err.Error() == "missing </pre> tag":
		return "unterminated-pre"
	case strings.HasPrefix(err.Error(), "unexpected "):
		return "stray-or-nested-pre"
	case strings.Contains(err.Error(), "max buffer exceeded"):
		return "oversized"
	case isBase64Err(err) || errors.Is(err, io.ErrUnexpectedEOF):
		return "bad-base64"
	case err == io.EOF:
		return "no-data(EOF)"
	}
	return "other:" + err.Error()
}

// ---- endless sources ----------------------------------------------------------------------------

// endlessReader delivers prefix followed by filler repeated forever (up to limit bytes, then EOF)
// and measures what the decoder does with it.
type endlessReader struct {
	prefix   []byte
	filler   []byte
	limit    int64
	consumed int64
	maxReq   int
	baseHeap uint64
	growth   int64
	nextGC   int64
}

func (e *endlessReader) Read(p []byte) (int, error) {
	if len(p) > e.maxReq {
		e.maxReq = len(p)
	}
	if e.consumed >= e.limit {
		return 0, io.EOF
	}
	if e.consumed >= e.nextGC {
		e.probe()
		e.nextGC = e.consumed + 2<<20
	}
	n := len(p)
	if n > 1<<16 {
		n = 1 << 16
	}
	if int64(n) > e.limit-e.consumed {
		n = int(e.limit - e.consumed)
	}
	for i := 0; i < n; i++ {
		c := e.consumed + int64(i)
		if c < int64(len(e.prefix)) {
			p[i] = e.prefix[c]
		} else {
			p[i] = e.filler[(c-int64(len(e.prefix)))%int64(len(e.filler))]
		}
	}
	e.consumed += int64(n)
	return n, nil
}

func liveHeap() uint64 {
	var m runtime.MemStats
	runtime.GC()
	runtime.ReadMemStats(&m)
	return m.HeapAlloc
}

func (e *endlessReader) probe() {
	if g := int64(liveHeap()) - int64(e.baseHeap); g > e.growth {
		e.growth = g
	}
}

type endlessCase struct {
	prefix, filler string
	class          int
	dataPerFiller  int // ecData: payload bytes carried by one repetition of filler
}

const (
	ecOversized = iota // one endless piece of text inside a pre element: must answer with an error after a bounded amount
	ecToken            // one endless token elsewhere: buffering must stay bounded (the real code also stops early; reported, not required)
	ecStream           // endless sequence of small tokens: nothing to buffer; only bounded buffering is required
	ecData             // endless valid data: reading 1 MiB of output must not consume unboundedly more input
)

var endlessClassName = []string{"oversized-element", "endless-token", "endless-small-tokens", "endless-data"}

// ---- the check ----------------------------------------------------------------------------------

func TestVerifEnum(t *testing.T) {
	r := en.New()
	defer r.Done()
	// One P per shard: the decoder hands every word through an io.Pipe to the reading goroutine; with a
	// single P that is a run-queue switch instead of a cross-thread wake-up (16 shards already use
	// all cores).  The watchdog still works: timers and asynchronous preemption do not need a second P.
	runtime.GOMAXPROCS(1)
	thorough := r.Thorough()
	h := &harness{r: r, watchdog: 60 * time.Second, rerun: 120 * time.Second, hung: map[string]bool{}}
	if thorough {
		h.rerun = 300 * time.Second
	}

	t0 := time.Now()
	begin := func(name, note string) {
		fmt.Fprintf(os.Stderr, "[c10] %6.1fs begin %s\n", time.Since(t0).Seconds(), name)
		r.Begin(name, note)
	}
	defer func() { fmt.Fprintf(os.Stderr, "[c10] %6.1fs end\n", time.Since(t0).Seconds()) }()

	var payloads []payload
	for _, n := range payloadLengths(thorough) {
		for k := 0; k < 3; k++ {
			payloads = append(payloads, payload{n, k})
		}
	}

	// canonical armored document (one Write) of a payload; nil if the encoder fails or the
	// document has no recognisable structure (reported by the structure section)
	type canonDoc struct {
		data  []byte
		doc   []byte
		spans []span
	}
	cache := map[payload]*canonDoc{}
	canon := func(p payload) *canonDoc {
		if c, ok := cache[p]; ok {
			return c
		}
		c := &canonDoc{data: p.bytes()}
		doc, err := encode(c.data, nil)
		if err == nil {
			c.doc = doc
			c.spans, _, _, _ = parseArmor(doc)
		}
		if len(cache) > 64 {
			for k := range cache {
				delete(cache, k)
			}
		}
		cache[p] = c
		return c
	}

	// 1. structure -------------------------------------------------------------------------------
	begin("structure", "armor (one Write) of payloads of lengths "+lengthsNote(thorough)+" x {zeros, 0xff, counter}: output = boilerplate of doc.go + pre elements separated by whitespace, words <= 32 B, text <= 32 KiB per element, concatenated words = '0' + std base64 of the payload")
	for _, p := range payloads {
		if !r.Mine() {
			continue
		}
		if r.TimeUp() {
			break
		}
		data := p.bytes()
		r.Case("st|"+p.String(), true)
		doc, err := encode(data, nil)
		if err != nil {
			r.Fail("structure:encode-error", "encoder failed on a bytes.Buffer: "+err.Error(), p.String())
			continue
		}
		spans, words, sig, msg := parseArmor(doc)
		if sig != "" {
			r.Fail(sig, msg, p.String())
		}
		if spans == nil && sig != "" {
			continue
		}
		if want := "0" + base64.StdEncoding.EncodeToString(data); string(words) != want {
			r.Fail("structure:content", fmt.Sprintf("concatenated words (%d bytes) are not '0' + base64 of the payload (%d bytes); first difference at %d", len(words), len(want), firstDiff(words, []byte(want))), p.String())
		}
		if (p.n == 24 || p.n == 23806 || p.n == 120000) && p.kind == 2 {
			r.Sample(map[string]interface{}{"payload": p.String(), "armored_len": len(doc), "pre_elements": len(spans)})
		}
	}

	// 2. write chunking --------------------------------------------------------------------------
	smallMax := 50
	base1Max := 26
	compMax := 12
	if thorough {
		smallMax, base1Max, compMax = 100, 50, 16
	}
	fixedSizes := []int{1, 2, 3, 4, 5, 7, 31, 32, 33, 1000, 4096}
	begin("chunking", fmt.Sprintf("armor written under a Write pattern has the armor structure and decodes to the payload (a document identical to the single-Write one is accepted directly): every payload x fixed Write sizes %v (1 B only up to 30 kB) + zero-length Writes interleaved; payloads <= %d B: all scripts with <= 2 deviations from {3 B, rest} (alternatives 1 B, 2 B, 3 B, rest, 0 B), <= %d B also from 1 B; all compositions of payloads <= %d B", fixedSizes, smallMax, base1Max, compMax))
	for _, p := range payloads {
		if !r.Mine() {
			continue
		}
		if r.TimeUp() {
			break
		}
		c := canon(p)
		if c.doc == nil {
			continue
		}
		check := func(desc func() interface{}, key string, nontrivial bool, next func(int) int) {
			r.Case("ch|"+p.String()+"|"+key, nontrivial)
			doc, err := encode(c.data, next)
			switch {
			case err != nil && strings.HasPrefix(err.Error(), "Write of"):
				r.Fail("chunking:write-count", err.Error(), desc())
			case err != nil:
				r.Fail("chunking:encode-error", err.Error(), desc())
			case !bytes.Equal(doc, c.doc):
				judgeChunked(r, doc, c.data, desc)
			}
		}
		for _, k := range fixedSizes {
			k := k
			if k == 1 && p.n > 30000 {
				continue
			}
			check(func() interface{} {
				return map[string]interface{}{"payload": p.String(), "write_size": k}
			}, fmt.Sprintf("fixed%d", k), k < p.n, fixed(k))
		}
		flip := false
		check(func() interface{} {
			return map[string]interface{}{"payload": p.String(), "writes": "alternating 0 B and 5 B"}
		}, "zero-interleaved", p.n > 0, func(int) int {
			flip = !flip
			if flip {
				return 0
			}
			return 5
		})
		if p.n <= smallMax {
			type base struct {
				name string
				opts []int // -1: rest
			}
			bases := []base{{"rest", []int{-1, 1, 2, 3, 0}}, {"3", []int{3, 1, 2, -1, 0}}}
			if p.n <= base1Max {
				bases = append(bases, base{"1", []int{1, 2, 3, -1, 0}})
			}
			for _, b := range bases {
				b := b
				en.ExploreTape(2, func(tp *en.Tape) {
					var script []int
					lastZero := false
					next := func(rem int) int {
						k := b.opts[tp.Choose(len(b.opts))]
						if k == 0 && lastZero {
							k = b.opts[0]
						}
						lastZero = k == 0
						if k < 0 || k > rem {
							k = rem
						}
						script = append(script, k)
						return k
					}
					doc, err := encode(c.data, next)
					r.Case(fmt.Sprintf("ch|%s|%v", p.String(), script), p.n > 0)
					switch {
					case err != nil && strings.HasPrefix(err.Error(), "Write of"):
						r.Fail("chunking:write-count", err.Error(), map[string]interface{}{"payload": p.String(), "write_sizes": script})
					case err != nil:
						r.Fail("chunking:encode-error", err.Error(), map[string]interface{}{"payload": p.String(), "write_sizes": script})
					case !bytes.Equal(doc, c.doc):
						judgeChunked(r, doc, c.data, func() interface{} {
							return map[string]interface{}{"payload": p.String(), "write_sizes": script}
						})
					}
				})
			}
		}
		if p.n >= 2 && p.n <= compMax {
			for mask := 1; mask < 1<<(p.n-1); mask++ {
				// bit i set: a Write ends after byte i+1
				var script []int
				last := 0
				for i := 0; i < p.n-1; i++ {
					if mask&(1<<i) != 0 {
						script = append(script, i+1-last)
						last = i + 1
					}
				}
				script = append(script, p.n-last)
				idx := 0
				sc := script
				check(func() interface{} {
					return map[string]interface{}{"payload": p.String(), "write_sizes": sc}
				}, fmt.Sprintf("comp%d", mask), true, func(int) int { k := sc[idx]; idx++; return k })
			}
		}
	}

	// 2b. write scripts over size classes ---------------------------------------------------------
	// The stream encoders underneath have their own thresholds (3-byte groups, 24-byte words, the
	// 768/1024-byte staging buffer of encoding/base64, element limits), and a Write may be handled
	// differently depending on what earlier Writes left behind: all sequences of up to L Writes over
	// a boundary alphabet, followed by the rest in one Write.
	{
		sizes := []int{0, 1, 2, 3, 4, 23, 24, 25, 767, 768, 769, 1023, 1024, 1025, 3072, 4097}
		L := 4
		if thorough {
			L = 5
		}
		begin("chunking-sizeclass", fmt.Sprintf("payload of 26000 position-dependent bytes: every sequence of <= %d Writes with sizes from %v followed by the rest in one Write (%d scripts); oracle: armor structure + real decoder returns the payload", L, sizes, func() int {
			t, p := 0, 1
			for i := 1; i <= L; i++ {
				p *= len(sizes)
				t += p
			}
			return t
		}()))
		data := make([]byte, 26000)
		for i := range data {
			data[i] = byte(i*131 + i>>8*29 + 7)
		}
		ref, rerr := encode(data, nil)
		if rerr != nil {
			r.Fail("chunking:encode-error", rerr.Error(), "size-class payload, single Write")
		}
		for l := 1; l <= L && rerr == nil; l++ {
			radix := make([]int, l)
			for i := range radix {
				radix[i] = len(sizes)
			}
			od := en.NewOdometer(radix...)
			for od.Next() {
				if !r.Mine() {
					continue
				}
				if r.TimeUp() {
					break
				}
				script := make([]int, l)
				for i, d := range od.V {
					script[i] = sizes[d]
				}
				idx := 0
				next := func(rem int) int {
					if idx < len(script) {
						k := script[idx]
						idx++
						return k
					}
					return rem
				}
				doc, err := encode(data, next)
				r.CaseN(1)
				desc := func() interface{} {
					return map[string]interface{}{"payload": "pos(26000)", "write_sizes_then_rest": script}
				}
				switch {
				case err != nil && strings.HasPrefix(err.Error(), "Write of"):
					r.Fail("chunking:write-count", err.Error(), desc())
				case err != nil:
					r.Fail("chunking:encode-error", err.Error(), desc())
				case !bytes.Equal(doc, ref):
					judgeChunked(r, doc, data, desc)
				}
			}
		}
	}

	// 3. round trip under read patterns ----------------------------------------------------------
	modes := append(append([]srcMode{}, srcSizes...), srcExtra...)
	begin("roundtrip", "decode(armor(p)) = p for every payload x source read pattern {1,3,4,7,4096 B per Read; 4096 and 1 with EOF attached to the last bytes; a (0,nil) before every Read} x consumer read size {ReadAll,1,3,4,7,4096}; payloads <= 50 B: all source scripts with <= 2 deviations from 512 B reads (1 B, (0,nil), 7 B, EOF attached)")
	for _, p := range payloads {
		for _, m := range modes {
			if !r.Mine() {
				continue
			}
			if r.TimeUp() {
				break
			}
			c := canon(p)
			if c.doc == nil {
				continue
			}
			m := m
			for _, dst := range dstSizes {
				dst := dst
				r.Case(fmt.Sprintf("rt|%s|%s|%d", p, m.name, dst), true)
				h.expectPayload("roundtrip", func() io.Reader { return m.reader(c.doc) }, dst, c.data, func() interface{} {
					return map[string]interface{}{"payload": p.String(), "source_read": m.name, "consumer_read": dst}
				})
			}
		}
		if p.n <= 50 {
			if !r.Mine() || h.hung["roundtrip"] {
				continue
			}
			c := canon(p)
			if c.doc == nil {
				continue
			}
			en.ExploreTape(2, func(tp *en.Tape) {
				// the tape is consumed inside the decoder's goroutine; the run is sequential because
				// expectPayload waits for the result
				var frozen atomic.Bool
				defer frozen.Store(true)
				h.expectPayload("roundtrip", func() io.Reader { return &srcReader{data: c.doc, chunk: 512, tape: tp, frozen: &frozen} }, 0, c.data, func() interface{} {
					return map[string]interface{}{"payload": p.String(), "source_script": tp.Choices(), "legend": "per Read: 0 = 512 B, 1 = 1 B, 2 = (0,nil), 3 = 7 B; at the last byte: 1 = EOF attached"}
				})
				r.Case(fmt.Sprintf("rt|%s|tape%v", p, tp.Choices()), true)
			})
		}
	}

	// 4. whitespace re-separation ----------------------------------------------------------------
	perSep := [][]byte{{'\n'}, {' '}, {'\t'}, {'\f'}, {'\r'}, {'\n', '\n'}, {'\r', '\n'}}
	mediumList := []int{100, 200, 500}
	if thorough {
		mediumList = []int{100, 200, 500, 1000}
	}
	mediumLens := map[int]bool{}
	for _, n := range mediumList {
		mediumLens[n] = true
	}
	var wsPayloads []payload
	wsPayloads = append(wsPayloads, payloads...)
	for _, n := range mediumList {
		have := false
		for _, p := range payloads {
			have = have || p.n == n
		}
		if !have {
			for k := 0; k < 3; k++ {
				wsPayloads = append(wsPayloads, payload{n, k})
			}
		}
	}
	sort.SliceStable(wsPayloads, func(i, j int) bool { return wsPayloads[i].n < wsPayloads[j].n })
	acceptedOversize := 0
	begin("whitespace", "every whitespace byte inside the pre elements of armor(p) rewritten: all -> each of {space,\\t,\\n,\\f,\\r}; only between words -> each; all -> each of the 25 two-byte pairs (doubled separators, CRLF); rotating through the five; every 100th doubled; x source reads {1,3,4,7,4096}. Payloads with <= 5 separators: every assignment of {\\n,space,\\t,\\f,\\r,\\n\\n,\\r\\n} per separator; payloads of 100, 200, 500 B (thorough: and 1000 B): all assignments with <= 2 separators changed. A rewriting that grows an element beyond 32 KiB - 16 may answer with an error instead (oversized element)")
	for group := 0; group < 4; group++ {
		for _, p := range wsPayloads {
			// quick tier: for payloads above 1000 B only the counter content (the content does not
			// interact with the separators) and, for the 25 pairs, two source read sizes
			if !thorough && p.n > 1000 && p.kind != 2 {
				continue
			}
			if !r.Mine() {
				continue
			}
			if r.TimeUp() || h.hung["whitespace"] {
				break
			}
			c := canon(p)
			if c.spans == nil {
				continue
			}
			seps := separators(c.doc, c.spans)
			type variant struct {
				name string
				repl func(i int, s sep) []byte
			}
			var vs []variant
			switch group {
			case 0:
				for _, w := range wsBytes {
					w := []byte{w}
					if w[0] != '\n' {
						vs = append(vs, variant{"all=" + wsName(w), func(int, sep) []byte { return w }})
						vs = append(vs, variant{"between=" + wsName(w), func(_ int, s sep) []byte {
							if s.edge {
								return []byte{'\n'}
							}
							return w
						}})
					}
				}
				for k := 0; k < 5; k++ {
					k := k
					vs = append(vs, variant{fmt.Sprintf("rotate+%d", k), func(i int, _ sep) []byte { return wsBytes[(i+k)%5 : (i+k)%5+1] }})
				}
			case 1:
				for _, a := range wsBytes {
					for _, b := range wsBytes {
						w := []byte{a, b}
						vs = append(vs, variant{"all=" + wsName(w), func(int, sep) []byte { return w }})
					}
				}
			case 2:
				vs = append(vs, variant{"every-100th-doubled", func(i int, _ sep) []byte {
					if i%100 == 0 {
						return []byte{'\n', '\n'}
					}
					return []byte{'\n'}
				}})
				vs = append(vs, variant{"every-100th-crlf", func(i int, _ sep) []byte {
					if i%100 == 50 {
						return []byte{'\r', '\n'}
					}
					return []byte{'\n'}
				}})
			}
			for _, v := range vs {
				doc, maxText := rewrite(c.doc, c.spans, seps, v.repl)
				must := maxText <= refElementLimit-refGrowSlack
				readers := srcSizes
				if !thorough && p.n > 1000 && group == 1 {
					readers = []srcMode{srcSizes[4], srcSizes[1]}
				}
				for _, m := range readers {
					m, v := m, v
					input := func() interface{} {
						return map[string]interface{}{"payload": p.String(), "separators": v.name, "source_read": m.name, "largest_element_text": maxText}
					}
					r.Case(fmt.Sprintf("ws|%s|%s|%s", p, v.name, m.name), len(seps) > 0)
					o := h.guard("whitespace", input, func() *result { return decode(func() io.Reader { return m.reader(doc) }, 0, 0) })
					if o == nil {
						break
					}
					if h.judge("whitespace", o, c.data, must, input) && o.err != nil {
						acceptedOversize++
					}
				}
			}
			if group != 3 {
				continue
			}
			// per-separator choices
			run := func(choice []int) {
				doc, maxText := rewrite(c.doc, c.spans, seps, func(i int, _ sep) []byte { return perSep[choice[i]] })
				for _, m := range []srcMode{srcSizes[4], srcSizes[1]} {
					m := m
					ch := append([]int(nil), choice...)
					input := func() interface{} {
						return map[string]interface{}{"payload": p.String(), "separator_choices": ch, "legend": "per separator: 0 \\n, 1 space, 2 \\t, 3 \\f, 4 \\r, 5 \\n\\n, 6 \\r\\n", "source_read": m.name}
					}
					r.Case(fmt.Sprintf("ws|%s|%v|%s", p, choice, m.name), true)
					o := h.guard("whitespace", input, func() *result { return decode(func() io.Reader { return m.reader(doc) }, 0, 0) })
					if o == nil {
						return
					}
					h.judge("whitespace", o, c.data, maxText <= refElementLimit-refGrowSlack, input)
				}
			}
			switch {
			case len(seps) <= 5:
				radix := make([]int, len(seps))
				for i := range radix {
					radix[i] = len(perSep)
				}
				od := en.NewOdometer(radix...)
				for od.Next() && !h.hung["whitespace"] {
					run(od.V)
				}
			case mediumLens[p.n]:
				en.ExploreTape(2, func(tp *en.Tape) {
					choice := make([]int, len(seps))
					for i := range choice {
						choice[i] = tp.Choose(len(perSep))
					}
					if !h.hung["whitespace"] {
						run(choice)
					}
				})
			}
		}
	}
	if r.Shard0() {
		r.Sample(map[string]interface{}{"whitespace_cases_answered_with_an_error_because_the_rewriting_made_an_element_oversized(shard 0)": acceptedOversize})
	}

	// 5. markup outside the pre elements ---------------------------------------------------------
	var mkPayloads []payload
	for _, p := range payloads {
		small := p.n <= 5 || (p.n >= 22 && p.n <= 26) || (p.n >= 46 && p.n <= 50)
		big := p.kind == 2 && (p.n == 23805 || p.n == 23806 || p.n == 47614 || p.n == 120000)
		if small || big || (thorough && (p.n <= 200 && p.n%10 == 0 || p.n == 250000 && p.kind == 2)) {
			mkPayloads = append(mkPayloads, p)
		}
	}
	begin("markup", fmt.Sprintf("each of %q inserted at every offset of armor(p) that is outside the pre elements and not inside a tag/declaration (about 1000 offsets; offsets inside script/style/noscript content included), and at all of them at once; payload lengths {0..5,22..26,46..50} x 3 contents and 23805, 23806, 47614, 120000 (counter); source reads {4096, 7}", markups))
	for mi, mk := range markups {
		for _, p := range mkPayloads {
			if r.TimeUp() || h.hung["markup"] {
				break
			}
			// every shard computes the offsets (cheap); the unit of work is a block of 64 offsets
			c := canon(p)
			if c.spans == nil {
				continue
			}
			normal, raw := outsidePositions(c.doc, c.spans)
			readers := []srcMode{srcSizes[4], srcSizes[3]}
			if len(c.doc) > 8192 {
				readers = readers[:1]
			}
			try := func(doc []byte, where string, pos int) {
				for _, m := range readers {
					m := m
					r.Case(fmt.Sprintf("mk|%s|%d|%s%d|%s", p, mi, where, pos, m.name), true)
					h.expectPayload("markup", func() io.Reader { return m.reader(doc) }, 0, c.data, func() interface{} {
						ctx := ""
						if pos >= 0 {
							ctx = string(c.doc[maxInt(0, pos-24):pos]) + "[HERE]" + string(c.doc[pos:minInt(len(c.doc), pos+24)])
						}
						return map[string]interface{}{"payload": p.String(), "markup": mk, "where": where, "offset": pos, "context": ctx, "source_read": m.name}
					})
				}
			}
			mine := false
			for i, pos := range normal {
				if i%64 == 0 {
					mine = r.Mine()
				}
				if mine && !h.hung["markup"] {
					try(insertAt(c.doc, pos, mk), "text-offset", pos)
				}
			}
			for i, pos := range raw {
				if i%64 == 0 {
					mine = r.Mine()
				}
				if mine && !h.hung["markup"] {
					try(insertAt(c.doc, pos, mk), "rawtext-offset", pos)
				}
			}
			if !r.Mine() {
				continue
			}
			// everywhere at once (outside raw text)
			var all []byte
			prev := 0
			for _, pos := range normal {
				all = append(all, c.doc[prev:pos]...)
				all = append(all, mk...)
				prev = pos
			}
			all = append(all, c.doc[prev:]...)
			try(all, "every-text-offset-at-once", -1)
			if mi == 0 && p.n == 0 && p.kind == 0 {
				r.Sample(map[string]interface{}{"payload": p.String(), "document_len": len(c.doc), "markup_offsets_between_tags": len(normal), "markup_offsets_inside_raw_text_elements": len(raw)})
			}
		}
	}

	// 5b. large markup outside the pre elements --------------------------------------------------
	{
		bigSizes := []int{1023, 1024, 2047, 2048, 4095, 4096, 4097, 8192, 16384, 30000}
		kinds := []struct {
			name string
			mk   func(n int) string
		}{
			{"comment", func(n int) string { return "<!--" + strings.Repeat("c", n) + "-->" }},
			{"style-body", func(n int) string { return "<style>" + strings.Repeat("a{} ", n/4) + "</style>" }},
			{"text-in-div", func(n int) string { return "<div>" + strings.Repeat("t", n) + "</div>" }},
			{"long-attribute", func(n int) string { return "<div data-x=\"" + strings.Repeat("v", n) + "\"></div>" }},
			{"many-small-tags", func(n int) string { return strings.Repeat("<b>x</b>", n/8) }},
		}
		begin("markup-large", fmt.Sprintf("one piece of markup of %v bytes (below the 32 KiB token limit) of kinds comment / style body / text / tag with a long attribute / many small tags, inserted before the first pre element, between two pre elements and after the last one; payloads of 50, 30000 and 120000 bytes: decoding unchanged", bigSizes))
		for _, p := range []payload{{50, 2}, {30000, 2}, {120000, 2}} {
			c := canon(p)
			if c.spans == nil {
				continue
			}
			normal, _ := outsidePositions(c.doc, c.spans)
			if len(normal) == 0 {
				continue
			}
			// positions: the last offset before the first pre, one between pre elements (if any), the last one
			first := normal[0]
			for _, pos := range normal {
				if pos <= c.spans[0].open {
					first = pos
				}
			}
			poss := []int{first, normal[len(normal)-1]}
			if len(c.spans) > 1 {
				for _, pos := range normal {
					if pos >= c.spans[0].close && pos <= c.spans[1].open {
						poss = append(poss, pos)
						break
					}
				}
			}
			for _, k := range kinds {
				for _, n := range bigSizes {
					for _, pos := range poss {
						if !r.Mine() {
							continue
						}
						if r.TimeUp() || h.hung["markup-large"] {
							break
						}
						mk := k.mk(n)
						doc := insertAt(c.doc, pos, mk)
						pos, n, k := pos, n, k
						r.Case(fmt.Sprintf("mkl|%s|%s|%d|%d", p, k.name, n, pos), true)
						h.expectPayload("markup-large", func() io.Reader { return srcSizes[4].reader(doc) }, 0, c.data, func() interface{} {
							return map[string]interface{}{"payload": p.String(), "markup_kind": k.name, "markup_bytes": n, "offset": pos}
						})
					}
				}
			}
		}
	}

	// 6. truncation ------------------------------------------------------------------------------
	begin("truncation", "armor(p) cut at every offset (p of 0, 3, 24, 50 B x 3 contents; 23806 and 47614 B: offsets within 64 B of a tag and every 509th): data or error, no panic; a cut inside the text of a pre element (unterminated pre) must give an error; source reads {4096, 1}")
	for _, p := range payloads {
		if !(p.n == 0 || p.n == 3 || p.n == 24 || p.n == 50 || (p.kind == 2 && (p.n == 23806 || p.n == 47614))) {
			continue
		}
		if !r.Mine() {
			continue
		}
		if r.TimeUp() || h.hung["truncation"] {
			break
		}
		c := canon(p)
		if c.spans == nil {
			continue
		}
		for cut := 0; cut < len(c.doc) && !h.hung["truncation"]; cut++ {
			inText := false
			near := len(c.doc) < 8192
			for _, s := range c.spans {
				inText = inText || (cut >= s.textStart && cut <= s.textEnd)
				near = near || absInt(cut-s.open) <= 64 || absInt(cut-s.textEnd) <= 64
			}
			if !near && cut%509 != 0 {
				continue
			}
			part := c.doc[:cut]
			for _, m := range []srcMode{srcSizes[4], srcSizes[0]} {
				m := m
				input := func() interface{} {
					return map[string]interface{}{"payload": p.String(), "cut_at": cut, "of": len(c.doc), "inside_pre_text": inText, "source_read": m.name}
				}
				r.Case(fmt.Sprintf("tr|%s|%d|%s", p, cut, m.name), true)
				o := h.guard("truncation", input, func() *result {
					var d result
					d.panicked, d.pval, d.stack = en.Try(func() { decodeToWriter(&sink{}, m.reader(part)) })
					if d.panicked {
						return &d
					}
					return decode(func() io.Reader { return m.reader(part) }, 0, 0)
				})
				if o == nil {
					break
				}
				if o.panicked {
					r.Fail("truncation:panic@"+en.PanicSite(o.stack), "decoder panicked: "+o.pval+" "+o.stack, input())
				} else if inText && o.err == nil {
					r.Fail("truncation:unterminated-pre-accepted", fmt.Sprintf("document cut inside a pre element decoded to %d bytes without error", len(o.data)), input())
				}
			}
		}
	}

	// 6b. every byte value at several places of a valid document ------------------------------------
	begin("bytes", "a valid two-element document (3 kB payload) with each of the 256 byte values, and each ordered pair of 12 special bytes, inserted right after the version byte, inside the base64 text, at the end of a pre element's text, between two pre elements and before the first: data or error, no panic, no hang (watchdog)")
	{
		pl := make([]byte, 3000)
		for i := range pl {
			pl[i] = byte(i*31 + 7)
		}
		doc, err := encode(pl, nil)
		spans, _, sig, _ := parseArmor(doc)
		if err != nil || sig != "" || len(spans) < 1 {
			r.Incomplete("bytes: cannot build the base document")
		} else {
			first := spans[0]
			places := []struct {
				name string
				pos  int
			}{{"after-version-byte", first.textStart + 1}, {"inside-base64", first.textStart + (first.textEnd-first.textStart)/2}, {"end-of-pre-text", first.textEnd}, {"after-the-pre-element", first.close}, {"before-first-pre", first.open}}
			special := []byte{0x00, 0x09, 0x0a, 0x0b, 0x0c, 0x0d, 0x20, 0x85, 0xa0, '<', '&', '='}
			var inserts [][]byte
			for b := 0; b < 256; b++ {
				inserts = append(inserts, []byte{byte(b)})
			}
			for _, a := range special {
				for _, b := range special {
					inserts = append(inserts, []byte{a, b})
				}
			}
			for _, pc := range places {
				for _, ins := range inserts {
					if !r.Mine() || h.hung["bytes"] {
						continue
					}
					in := append(append(append([]byte{}, doc[:pc.pos]...), ins...), doc[pc.pos:]...)
					pc, ins := pc, ins
					input := func() interface{} {
						return map[string]interface{}{"place": pc.name, "inserted": fmt.Sprintf("%q", ins)}
					}
					r.Case(fmt.Sprintf("by|%s|%x", pc.name, ins), true)
					o := h.guard("bytes", input, func() *result { return totalityRun(in) })
					if o == nil {
						continue
					}
					if o.panicked {
						r.Fail("bytes:panic@"+en.PanicSite(o.stack), "decoder panicked: "+o.pval+" "+o.stack, input())
					} else if o.alt != nil && o.alt.panicked {
						r.Fail("bytes:panic@"+en.PanicSite(o.alt.stack), "decoder panicked (one-byte reads): "+o.alt.pval+" "+o.alt.stack, input())
					}
				}
			}
		}
	}

	// 7. totality on token strings ---------------------------------------------------------------
	maxTok := 5
	if thorough {
		maxTok = 6
	}
	begin("totality", fmt.Sprintf("every string of <= %d tokens over %q fed to decodeToWriter and to NewArmorDecoder+ReadAll (source reads 4096 and 1+EOF attached): data or error, no panic, no hang (watchdog 60 s, re-run alone 3 times); strings over complete tags/text/whitespace only are also judged by a token-level reference: stray, nested or unterminated pre, unknown version and bad base64 must give an error", maxTok, tokens))
	classes := map[string]int{}
	refCount := map[string]int{}
	chunkDependent := 0
	validMismatch := 0
	n := 0
	unit := 0
	shard, nshards := r.Shard()
	en.Strings(tokens, maxTok, func(toks []string) bool {
		// round robin in blocks of 7 strings: with 16 tokens and 16 shards plain round robin would give
		// every shard the strings ending in one fixed token
		unit++
		if (unit/7)%nshards != shard {
			return true
		}
		n++
		if h.hung["totality"] || (n%2048 == 0 && r.TimeUp()) {
			return false
		}
		s := strings.Join(toks, "")
		in := []byte(s)
		input := func() interface{} {
			return map[string]interface{}{"input": s, "tokens": append([]string(nil), toks...)}
		}
		r.Case("to|"+s, len(toks) > 0)
		o := h.guard("totality", input, func() *result { return totalityRun(in) })
		if o == nil {
			return false
		}
		if o.panicked {
			r.Fail("totality:panic@"+en.PanicSite(o.stack), "decoder panicked: "+o.pval+" "+o.stack, input())
			return true
		}
		if o.alt.panicked {
			r.Fail("totality:panic@"+en.PanicSite(o.alt.stack), "decoder panicked (one-byte reads): "+o.alt.pval+" "+o.alt.stack, input())
			return true
		}
		classes[errClass(o.err)]++
		if (o.err == nil) != (o.alt.err == nil) || !bytes.Equal(o.data, o.alt.data) {
			chunkDependent++
		}
		plain := true
		for _, t := range toks {
			plain = plain && plainTokens[t]
		}
		if !plain {
			return true
		}
		verdict, reason, data := refTokens(toks)
		switch verdict {
		case vMustErr:
			refCount["must-error:"+reason]++
			for _, x := range []*result{o, o.alt} {
				if x.err == nil {
					r.Fail("totality:accepted-"+reason, fmt.Sprintf("input with %s decoded to %q without error", reason, x.data), input())
					break
				}
			}
		case vValid:
			refCount["valid"]++
			if o.err != nil || !bytes.Equal(o.data, data) {
				validMismatch++ // not a finding: the statement promises round trips of encoder output, not of hand-made documents
			}
		default:
			refCount["open"]++
		}
		return true
	})
	if r.Shard0() {
		r.Sample(map[string]interface{}{"totality_outcomes(shard 0)": classes, "reference_verdicts(shard 0)": refCount, "results_depending_on_source_read_size": chunkDependent, "well_formed_strings_not_decoded_as_the_reference": validMismatch})
	}

	// 8. endless sources -------------------------------------------------------------------------
	var cases []endlessCase
	for _, pre := range []string{"<pre>", "<pre>0", "<pre>\n0QUJD\n", refHead + "<pre>\n0", "<pre>0QUJD</pre>\n<pre>"} {
		for _, f := range []string{"A", "QUJD", "=", "\n", " \t\n\f\r", "&amp;", "\x00", "&", "<", "QUJDQUJDQUJDQUJDQUJDQUJDQUJDQUJD\n"} {
			cases = append(cases, endlessCase{prefix: pre, filler: f, class: ecOversized})
		}
	}
	for _, pre := range []string{"", "<pre>0QUJD</pre>", "<b ", "<b x=\"", "<!--", "<!doctype ", "<script>", "<pre>0<b ", "</", "<pre"} {
		for _, f := range []string{"A", "\n", " ", "a=b ", "&amp;", "\x00", "<", "-"} {
			cases = append(cases, endlessCase{prefix: pre, filler: f, class: ecToken})
		}
	}
	for _, pre := range []string{"", refHead, "<pre>", "<pre>0", "<pre>0QUJD</pre>"} {
		for _, f := range []string{"<b></b>", "<b>x</b> ", "<!-- c -->", " <br/>\n", "<p>QUJD</p>", "<b x=y>", "</b>"} {
			cases = append(cases, endlessCase{prefix: pre, filler: f, class: ecStream})
		}
	}
	words := strings.Repeat("QUJDQUJDQUJDQUJDQUJDQUJDQUJDQUJD\n", 900)
	cases = append(cases, endlessCase{"<pre>\n0\n</pre>\n", "<pre>\n" + words + "</pre>\n", ecData, 900 * 24}, endlessCase{refHead + "<pre>0</pre>", "<pre>QUJD</pre>", ecData, 3})
	// one pre element that never ends, its text cut into small tokens by other tags (the decoder
	// accepts markup inside pre): dense data, so that whatever is kept per word adds up quickly
	word32 := "QUJDQUJDQUJDQUJDQUJDQUJDQUJDQUJD"
	for _, f := range []string{word32 + "<i></i>", word32 + "\n<b>\n</b>", "QUJD<br/>"} {
		cases = append(cases, endlessCase{prefix: "<pre>0", filler: f, class: ecStream}, endlessCase{prefix: refHead + "<pre>\n0\n", filler: f, class: ecStream})
	}
	cases = append(cases, endlessCase{"<pre>0", word32 + "<i></i>", ecData, 24}, endlessCase{refHead + "<pre>\n0\n", word32 + "\n<b>\n</b>", ecData, 24})
	streamLimit := int64(8 << 20)
	if thorough {
		streamLimit = 64 << 20
	}
	begin("endless", fmt.Sprintf("prefix + filler repeated for ever (the source ends after %d MiB): one endless text inside pre must be answered with an error after <= 1 MiB consumed; any endless token / endless sequence of small tokens: largest Read request <= 1 MiB and live heap growth <= 4 MiB (bounded buffering), data or error, no panic; endless valid data: reading 1 MiB of output consumes <= 1 MiB more than the input that carries it", streamLimit>>20))
	type measure struct {
		Class    string `json:"class"`
		Prefix   string `json:"prefix"`
		Filler   string `json:"filler"`
		Consumed int64  `json:"consumed"`
		MaxReq   int    `json:"largest_read_request"`
		Outcome  string `json:"outcome"`
	}
	var measures []measure
	var maxTokenConsumed, maxOversizedConsumed int64
	unboundedStreams := 0
	for _, ec := range cases {
		if !r.Mine() {
			continue
		}
		if r.TimeUp() || h.hung["endless"] {
			break
		}
		ec := ec
		input := func() interface{} {
			return map[string]interface{}{"class": endlessClassName[ec.class], "prefix": shorten(ec.prefix), "filler_repeated_for_ever": shorten(ec.filler)}
		}
		r.Case(fmt.Sprintf("el|%d|%s|%s", ec.class, ec.prefix, ec.filler), true)
		o := h.guard("endless", input, func() *result {
			src := &endlessReader{prefix: []byte(ec.prefix), filler: []byte(ec.filler), limit: streamLimit, baseHeap: liveHeap()}
			src.nextGC = 2 << 20
			lim := 0
			if ec.class == ecData {
				lim = 1 << 20
			}
			res := decodeCount(func() io.Reader { return src }, lim)
			src.probe()
			res.src = src
			return res
		})
		if o == nil {
			continue
		}
		src := o.src
		if o.panicked {
			r.Fail("endless:panic@"+en.PanicSite(o.stack), "decoder panicked: "+o.pval+" "+o.stack, input())
			continue
		}
		detail := fmt.Sprintf("consumed %d bytes, largest Read request %d, live heap growth %d, outcome %d bytes + %s", src.consumed, src.maxReq, src.growth, o.nread, o.errString())
		if src.maxReq > boundedBytes || src.growth > heapSlack {
			r.Fail("endless:unbounded-buffering", detail, input())
		}
		switch ec.class {
		case ecOversized:
			if src.consumed > boundedBytes {
				r.Fail("endless:oversized-element-not-cut-off", detail, input())
			} else if o.err == nil {
				r.Fail("endless:oversized-element-accepted", detail, input())
			}
			if src.consumed > maxOversizedConsumed {
				maxOversizedConsumed = src.consumed
			}
		case ecToken:
			if src.consumed > maxTokenConsumed {
				maxTokenConsumed = src.consumed
			}
		case ecStream:
			if src.consumed >= streamLimit {
				unboundedStreams++
			}
		case ecData:
			if o.nread < 1<<20 || o.err != nil {
				r.Fail("endless:data-stream-broken", detail, input())
			} else if needed := int64(len(ec.prefix)) + int64(o.nread/ec.dataPerFiller+1)*int64(len(ec.filler)); src.consumed > needed+boundedBytes {
				r.Fail("endless:unbounded-read-ahead", detail+fmt.Sprintf("; the returned data is carried by the first %d bytes of the source", needed), input())
			}
		}
		if len(measures) < 4 {
			measures = append(measures, measure{endlessClassName[ec.class], shorten(ec.prefix), shorten(ec.filler), src.consumed, src.maxReq, o.errString()})
		}
	}
	if r.Shard0() {
		r.Sample(map[string]interface{}{"endless(shard 0)": measures, "max_consumed_oversized_element": maxOversizedConsumed, "max_consumed_endless_token": maxTokenConsumed, "small_token_streams_read_to_the_end_of_the_source": unboundedStreams, "goroutines_left_behind": runtime.NumGoroutine(), "cases_slower_than_the_watchdog_but_finishing_on_rerun": h.slowCases})
	}
}

func shorten(s string) string {
	if len(s) > 48 {
		return fmt.Sprintf("%s...(%d bytes)", s[:40], len(s))
	}
	return s
}

func lengthsNote(thorough bool) string {
	if thorough {
		return "{0..200, 23796..23816, 47604..47624, 71416..71428 (element boundaries at 23806, 47614, 71422), 30000, 65535, 65536, 99999, 100000, 120000, 250000}"
	}
	return "{0..50, 23800..23812, 47608..47620 (element boundaries at 23806 and 47614), 99999, 100000, 120000}"
}

func maxInt(a, b int) int {
	if a > b {
		return a
	}
	return b
}

func minInt(a, b int) int {
	if a < b {
		return a
	}
	return b
}

func absInt(a int) int {
	if a < 0 {
		return -a
	}
	return a
}
