//go:build go1.21

package amp

// C11 — rendezvous requests are faithfully encoded, fronted and bounded (DESIGN.md §3 C11).
// This file covers the two clauses that live in common/amp:
//   (a) EncodePath/DecodePath: a poll decodes to the same bytes whatever padding precedes it;
//   (b) CacheURL: path and query kept under the cache's /c[/s]/host/ prefix, domain prefix as the AMP
//       specification prescribes (basic algorithm, else SHA-256/base32 fallback), one dot-free label
//       of at most 63 bytes.
// The references below are written from the format description in doc.go and from the AMP
// specification steps quoted in the comments of cache.go; golang.org/x/net/idna is the trusted
// punycode primitive (applied per label).

import (
	"bytes"
	"crypto/rand"
	"crypto/sha256"
	"fmt"
	"net/url"
	"sort"
	"strings"
	"testing"

	en "git.torproject.org/pluggable-transports/snowflake.git/v2/verifenum"
	"golang.org/x/net/idna"
)

// ---- reference: base64url without padding, path format -----------------------------------------

const c11B64URL = "ABCDEFGHIJKLMNOPQRSTUVWXYZabcdefghijklmnopqrstuvwxyz0123456789-_"

func c11RefB64(data []byte) string {
	var sb strings.Builder
	acc, bits := uint(0), 0
	for _, b := range data {
		acc = acc<<8 | uint(b)
		bits += 8
		for bits >= 6 {
			bits -= 6
			sb.WriteByte(c11B64URL[(acc>>uint(bits))&63])
		}
	}
	if bits > 0 {
		sb.WriteByte(c11B64URL[(acc<<uint(6-bits))&63])
	}
	return sb.String()
}

type verdict int

const (
	vOK   verdict = iota // must decode to the returned bytes
	vBad                 // must be rejected
	vOpen                // the statement/format leaves it open (only "no panic" is asked)
)

// c11RefUnB64 decodes unpadded base64url.  Open: CR/LF inside the text (Go's decoders skip them) and
// non-zero trailing bits (RFC 4648 §3.5 lets decoders choose).
func c11RefUnB64(s string) ([]byte, verdict) {
	if strings.ContainsAny(s, "\r\n") {
		return nil, vOpen
	}
	var out []byte
	acc, bits := uint(0), 0
	for i := 0; i < len(s); i++ {
		v := strings.IndexByte(c11B64URL, s[i])
		if v < 0 {
			return nil, vBad
		}
		acc = (acc<<6 | uint(v)) & 0xffff
		bits += 6
		if bits >= 8 {
			bits -= 8
			out = append(out, byte(acc>>uint(bits)))
		}
	}
	if len(s)%4 == 1 {
		return nil, vBad
	}
	if bits > 0 && acc&(1<<uint(bits)-1) != 0 {
		return nil, vOpen
	}
	return out, vOK
}

// c11RefDecodePath: doc.go — "0", any bytes including slashes, a final slash, base64url of the data.
func c11RefDecodePath(p string) ([]byte, verdict) {
	if p == "" || p[0] != '0' {
		return nil, vBad
	}
	rest := p[1:]
	last := -1
	for i := 0; i < len(rest); i++ {
		if rest[i] == '/' {
			last = i
		}
	}
	if last < 0 {
		return nil, vBad
	}
	return c11RefUnB64(rest[last+1:])
}

var c11Polls = [][]byte{
	[]byte("1.0\n{\"offer\":\"{\\\"type\\\":\\\"offer\\\",\\\"sdp\\\":\\\"v=0\\\\r\\\\no=- 4358805017720277108 2 IN IP4 0.0.0.0\\\\r\\\\ns=-\\\\r\\\\nt=0 0\\\\r\\\\n\\\"}\",\"nat\":\"unknown\",\"fingerprint\":\"2B280B23E1107BB62ABFC40DDCC8824814F80A72\"}"),
	[]byte("1.0\n{\"offer\":\"fake\",\"nat\":\"restricted\",\"fingerprint\":\"\"}"),
	[]byte("1.0\n{\"offer\":\"\\u003e\\u003f~~~???>>>\",\"nat\":\"unrestricted\"}"),
	[]byte("{\"offer\":\"legacy\"}"),
}

func c11DataSet() [][]byte {
	var out [][]byte
	alpha := []byte{0x00, 0x3e, 0x3f, 0xfb, 0xff, 0x2f}
	for n := 0; n <= 3; n++ {
		radix := make([]int, n)
		for i := range radix {
			radix[i] = len(alpha)
		}
		if n == 0 {
			out = append(out, []byte{})
			continue
		}
		o := en.NewOdometer(radix...)
		for o.Next() {
			d := make([]byte, n)
			for i, v := range o.V {
				d[i] = alpha[v]
			}
			out = append(out, d)
		}
	}
	return append(out, c11Polls...)
}

// ---- pinned crypto/rand ------------------------------------------------------------------------

type c11Pattern struct {
	name    string
	f       func(i int) byte
	oneByte bool
}

type c11PatReader struct {
	p c11Pattern
	i int
}

func (r *c11PatReader) Read(b []byte) (int, error) {
	n := len(b)
	if r.p.oneByte && n > 1 {
		n = 1
	}
	for j := 0; j < n; j++ {
		b[j] = r.p.f(r.i)
		r.i++
	}
	return n, nil
}

func c11Patterns() []c11Pattern {
	base := []c11Pattern{
		{"all-00", func(i int) byte { return 0 }, false},
		{"all-ff", func(i int) byte { return 0xff }, false},
		{"counter", func(i int) byte { return byte(i) }, false},
		{"counter-from-f8", func(i int) byte { return byte(0xf8 + i) }, false},
		{"fb-ff-fe", func(i int) byte { return []byte{0xfb, 0xff, 0xfe}[i%3] }, false},
		{"all-3f", func(i int) byte { return 0x3f }, false},
		{"all-2f", func(i int) byte { return 0x2f }, false},
	}
	out := append([]c11Pattern{}, base...)
	for _, p := range base {
		out = append(out, c11Pattern{p.name + "/1-byte-reads", p.f, true})
	}
	return out
}

// ---- reference: AMP cache URL ------------------------------------------------------------------

func c11IsASCII(s string) bool {
	for i := 0; i < len(s); i++ {
		if s[i] >= 0x80 {
			return false
		}
	}
	return true
}

// c11RefBasic runs the five steps of the basic algorithm.  It returns every result the wording
// allows: "positions 3 and 4" counted in bytes or in characters; an "xn--" label that is not valid
// punycode either aborts the basic algorithm (ok=false) or is kept as it is.
func c11RefBasic(domain string) (results []string, mayFail bool) {
	labels := strings.Split(domain, ".")
	for _, keepUndecodable := range []bool{false, true} {
		failed := false
		var parts []string
		for _, l := range labels {
			// 1. punycode-decode
			u, err := idna.Punycode.ToUnicode(l)
			if err != nil {
				if !keepUndecodable {
					failed = true
					break
				}
				u = l
			}
			// 2. "-" becomes "--"
			var sb strings.Builder
			for _, c := range u {
				if c == '-' {
					sb.WriteString("--")
				} else {
					sb.WriteRune(c)
				}
			}
			parts = append(parts, sb.String())
		}
		if failed {
			mayFail = true
			continue
		}
		// 3. "." becomes "-"
		s := strings.Join(parts, "-")
		// 4. hyphens at positions 3 and 4 (1-based)
		var cands []string
		byBytes := len(s) >= 4 && s[2] == '-' && s[3] == '-'
		rs := []rune(s)
		byRunes := len(rs) >= 4 && rs[2] == '-' && rs[3] == '-'
		for _, wrap := range []bool{byBytes, byRunes} {
			if wrap {
				cands = append(cands, "0-"+s+"-0")
			} else {
				cands = append(cands, s)
			}
		}
		// 5. punycode-encode
		for _, c := range cands {
			if c11IsASCII(c) {
				results = append(results, c)
				continue
			}
			a, err := idna.Punycode.ToASCII(c)
			if err != nil {
				mayFail = true
				continue
			}
			results = append(results, a)
		}
	}
	return
}

func c11Base32Lower(b []byte) string {
	const alpha = "abcdefghijklmnopqrstuvwxyz234567"
	var sb strings.Builder
	acc, bits := uint(0), 0
	for _, x := range b {
		acc = (acc<<8 | uint(x)) & 0xffff
		bits += 8
		for bits >= 5 {
			bits -= 5
			sb.WriteByte(alpha[(acc>>uint(bits))&31])
		}
	}
	if bits > 0 {
		sb.WriteByte(alpha[(acc<<uint(5-bits))&31])
	}
	return sb.String()
}

// c11RefFallback: base32 (lower case, no padding) of SHA-256 of the domain.  The fallback has no
// decoding step (unlike the basic algorithm, whose first step is "Punycode Decode"): the domain is hashed
// as it stands in the URL.  The A-label form of a domain written with U-labels is accepted as well (it is
// what a URL parser that normalises host names hands to the algorithm, and what the cache sees); the
// Unicode form of a domain written with A-labels is not: no step of the specification produces it.
func c11RefFallback(domain string) []string {
	forms := []string{domain}
	if a, err := idna.Punycode.ToASCII(domain); err == nil && a != domain {
		forms = append(forms, a)
	}
	var out []string
	for _, f := range forms {
		h := sha256.Sum256([]byte(f))
		out = append(out, c11Base32Lower(h[:]))
	}
	return out
}

// c11StrictLabel: letters, digits, hyphens, 1..63 bytes, no hyphen at either end, hyphens at positions
// 3 and 4 only in an xn-- label.
func c11StrictLabel(s string) bool {
	if len(s) == 0 || len(s) > 63 || s[0] == '-' || s[len(s)-1] == '-' {
		return false
	}
	for i := 0; i < len(s); i++ {
		c := s[i]
		if !(c >= 'a' && c <= 'z' || c >= 'A' && c <= 'Z' || c >= '0' && c <= '9' || c == '-') {
			return false
		}
	}
	if len(s) >= 4 && s[2] == '-' && s[3] == '-' && !strings.EqualFold(s[:2], "xn") {
		return false
	}
	return true
}

// c11AcceptablePrefixes lists the domain prefixes the specification allows for domain.
// mustBasic says that only the basic result is acceptable (it is a valid label by any reading).
var c11PrefixMemo = map[string][2]interface{}{}

func c11AcceptablePrefixes(domain string) ([]string, string) {
	if m, ok := c11PrefixMemo[domain]; ok {
		return m[0].([]string), m[1].(string)
	}
	acc, how := c11AcceptablePrefixesUncached(domain)
	c11PrefixMemo[domain] = [2]interface{}{acc, how}
	return acc, how
}

func c11AcceptablePrefixesUncached(domain string) (acc []string, how string) {
	basic, mayFail := c11RefBasic(domain)
	anyWithin, allStrict := false, len(basic) > 0 && !mayFail
	for _, b := range basic {
		if len(b) <= 63 {
			anyWithin = true
			acc = append(acc, b)
		}
		if !c11StrictLabel(b) {
			allStrict = false
		}
	}
	if allStrict && anyWithin {
		return acc, "basic"
	}
	acc = append(acc, c11RefFallback(domain)...)
	if anyWithin {
		return acc, "basic-or-fallback"
	}
	return c11RefFallback(domain), "fallback"
}

func c11SegmentsNonEmpty(escapedPath string) []string {
	var out []string
	for _, s := range strings.Split(escapedPath, "/") {
		if s != "" {
			out = append(out, s)
		}
	}
	return out
}

type c11Pub struct {
	scheme, userinfo, host, port, path, query, fragment string
}

func (p c11Pub) String() string {
	return p.scheme + "://" + p.userinfo + p.host + p.port + p.path + p.query + p.fragment
}

type c11Cache struct {
	raw      string
	scheme   string
	hostport string
	path     string
	hasQuery bool
}

var c11Caches = []c11Cache{
	{"https://cdn.ampproject.org/", "https", "cdn.ampproject.org", "/", false},
	{"https://cdn.ampproject.org/prefix/v1/", "https", "cdn.ampproject.org", "/prefix/v1/", false},
	{"https://amp.cache.example:8443/", "https", "amp.cache.example:8443", "/", false},
	{"https://cdn.ampproject.org/?x=1", "https", "cdn.ampproject.org", "/", true},
	{"http://cdn.ampproject.org", "http", "cdn.ampproject.org", "", false},
}

func c11DefaultPort(scheme, port string) bool {
	return port == "" || (scheme == "http" && port == ":80") || (scheme == "https" && port == ":443")
}

// c11CheckCacheURL evaluates one CacheURL case; returns a short class for statistics.
func c11CheckCacheURL(r *en.R, pub c11Pub, cache c11Cache, ct string) string {
	pubStr := pub.String()
	input := map[string]interface{}{"publisher": pubStr, "cache": cache.raw, "content_type": ct}
	pubURL, err := url.Parse(pubStr)
	if err != nil {
		return "unparseable"
	}
	cacheURL, err := url.Parse(cache.raw)
	if err != nil {
		r.Fail("engine:cache-url-unparseable", err.Error(), input)
		return "unparseable"
	}
	var got *url.URL
	p, val, stack := en.Try(func() { got, err = CacheURL(pubURL, cacheURL, ct) })
	if p {
		r.Fail("cacheurl:panic@"+en.PanicSite(stack), "CacheURL panicked: "+val+" "+stack, input)
		return "panic"
	}
	wellFormed := (pub.scheme == "http" || pub.scheme == "https") && pub.userinfo == "" && c11DefaultPort(pub.scheme, pub.port) &&
		pub.host != "" && ct != "" && !cache.hasQuery
	if pub.host != "" && strings.Trim(pub.host, ".") == "" {
		// "." and ".." have no label at all: not a domain in the sense of the statement (and, as path
		// components, they are consumed by the path clean-up).  Only "no panic" is asked.
		return "host-without-label"
	}
	if err != nil {
		if wellFormed {
			r.Fail("cacheurl:unexpected-error", fmt.Sprintf("CacheURL returned error %q for a publisher URL with http(s) scheme, no userinfo, default port, non-empty host", err), input)
		}
		return "error"
	}
	if got == nil {
		r.Fail("cacheurl:nil-without-error", "CacheURL returned (nil, nil)", input)
		return "error"
	}
	if !wellFormed {
		// The code documents these as errors and the statement says nothing about them.  One thing is
		// checked when a URL is produced anyway: a non-default port must not silently disappear.
		if pub.host != "" && !c11DefaultPort(pub.scheme, pub.port) && !strings.Contains(got.EscapedPath(), pub.port) {
			r.Fail("cacheurl:port-dropped", fmt.Sprintf("publisher port %s does not appear in %q", pub.port, got.String()), input)
		}
		return "outside-contract"
	}
	// The client uses the textual form (http.NewRequest(url.String())): judge that.
	text := got.String()
	input["result"] = text
	re, err := url.Parse(text)
	if err != nil {
		r.Fail("cacheurl:result-unparseable", fmt.Sprintf("result %q does not parse: %v", text, err), input)
		return "bad"
	}
	if re.Scheme != cache.scheme {
		r.Fail("cacheurl:wrong-scheme", fmt.Sprintf("scheme %q, cache has %q", re.Scheme, cache.scheme), input)
	}
	// host = <prefix> "." <cache host[:port]>
	suffix := "." + cache.hostport
	if !strings.HasSuffix(re.Host, suffix) {
		r.Fail("cacheurl:wrong-cache-host", fmt.Sprintf("host %q does not end in %q", re.Host, suffix), input)
		return "bad"
	}
	prefix := strings.TrimSuffix(re.Host, suffix)
	class := "ok"
	if strings.Contains(prefix, ".") {
		r.Fail("cacheurl:prefix-has-dot", fmt.Sprintf("domain prefix %q contains a dot", prefix), input)
		class = "bad"
	}
	if len(prefix) > 63 || len(prefix) == 0 {
		r.Fail("cacheurl:prefix-length", fmt.Sprintf("domain prefix %q has %d bytes", prefix, len(prefix)), input)
		class = "bad"
	}
	acc, how := c11AcceptablePrefixes(pub.host)
	found := false
	for _, a := range acc {
		if a == prefix || (c11IsASCII(a) && strings.EqualFold(a, prefix)) {
			found = true
		}
	}
	if !found {
		r.Fail("cacheurl:wrong-domain-prefix:"+how, fmt.Sprintf("domain prefix %q for %q; the specification gives %q (%s)", prefix, pub.host, acc, how), input)
		class = "bad"
	}
	// path: cache path, content type, "s" for https, host, publisher path — compared segment by
	// segment after unescaping each segment; empty segments (duplicate or trailing slashes) are not
	// compared (see the report: path.Join semantics are left open by the statement).
	want := c11SegmentsNonEmpty(cache.path)
	want = append(want, ct)
	if pub.scheme == "https" {
		want = append(want, "s")
	}
	want = append(want, pub.host)
	nprefix := len(want)
	want = append(want, c11SegmentsNonEmpty(pub.path)...)
	gotSegs := c11SegmentsNonEmpty(re.EscapedPath())
	if pub.port != "" && len(gotSegs) >= nprefix {
		// an explicit default port may be kept or omitted in the host component (the code documents
		// omitting it; the statement only says "host")
		if g, err := url.PathUnescape(gotSegs[nprefix-1]); err == nil && g == pub.host+pub.port {
			want[nprefix-1] = pub.host + pub.port
		}
	}
	okPath := len(gotSegs) == len(want)
	if okPath {
		for i := range want {
			g, err1 := url.PathUnescape(gotSegs[i])
			w, err2 := url.PathUnescape(want[i])
			if err2 != nil {
				w = want[i]
			}
			if err1 != nil || g != w {
				okPath = false
			}
		}
	}
	if !okPath {
		sig := "cacheurl:path-not-kept"
		if len(gotSegs) >= nprefix {
			same := true
			for i := 0; i < nprefix; i++ {
				g, _ := url.PathUnescape(gotSegs[i])
				if g != want[i] {
					same = false
				}
			}
			if !same {
				sig = "cacheurl:wrong-path-prefix"
			}
		} else {
			sig = "cacheurl:wrong-path-prefix"
		}
		r.Fail(sig, fmt.Sprintf("path segments %q, want %q", gotSegs, want), input)
		class = "bad"
	}
	if !strings.HasPrefix(re.EscapedPath(), "/") {
		r.Fail("cacheurl:relative-path", fmt.Sprintf("result %q has no absolute path", text), input)
		class = "bad"
	}
	if "?"+re.RawQuery != pub.query && !(pub.query == "" && re.RawQuery == "") {
		r.Fail("cacheurl:query-not-kept", fmt.Sprintf("query %q, publisher has %q", re.RawQuery, pub.query), input)
		class = "bad"
	}
	if class == "ok" {
		// statistics only: was the path kept byte for byte, or only up to slash normalisation?
		strict := strings.TrimRight(cache.path, "/") + "/" + ct
		if pub.scheme == "https" {
			strict += "/s"
		}
		strict += "/" + url.PathEscape(pub.host) + pub.path
		if re.EscapedPath() != strict {
			return "ok-slashes-normalised:" + how
		}
		return "ok:" + how
	}
	return class
}

type c11Vector struct{ domain, prefix string }

// Domain-prefix examples published in the AMP cache URL specification (basic algorithm) and values
// obtained from the specification's reference widget (fallback), as listed in cache_test.go.
var c11PrefixVectors = []c11Vector{
	{"example.com", "example-com"},
	{"foo.example.com", "foo-example-com"},
	{"foo-example.com", "foo--example-com"},
	{"xn--57hw060o.com", "xn---com-p33b41770a"},
	{"⚡\U0001f60a.com", "xn---com-p33b41770a"},
	{"en-us.example.com", "0-en--us-example-com-0"},
	{"000000000000000000000000000000000000000000000000000000000000.com", "stejanx4hsijaoj4secyecy4nvqodk56kw72whwcmvdbtucibf5a"},
	{"00000000000000000000000000000000000000000000000000000000000a.com", "jdcvbsorpnc3hcjrhst56nfm6ymdpovlawdbm2efyxpvlt4cpbya"},
	{"00000000000000000000000000000000000000000000000000000000000λ.com", "qhzqeumjkfpcpuic3vqruyjswcr7y7gcm3crqyhhywvn3xrhchfa"},
}

// Pure fallback values (used to validate the reference itself).
var c11FallbackVectors = []c11Vector{
	{"", "4oymiquy7qobjgx36tejs35zeqt24qpemsnzgtfeswmrw6csxbkq"},
	{"example.com", "un42n5xov642kxrxrqiyanhcoupgql5lt4wtbkyt2ijflbwodfdq"},
}

var c11URLVectors = []struct{ pub, cache, ct, want string }{
	{"https://example.com/amp_document.html", "https://cdn.ampproject.org/", "c", "https://example-com.cdn.ampproject.org/c/s/example.com/amp_document.html"},
	{"http://example.com/logo.png", "https://cdn.ampproject.org/", "i", "https://example-com.cdn.ampproject.org/i/example.com/logo.png"},
	{"https://example.com/g?value=Hello%20World", "https://cdn.ampproject.org/", "c", "https://example-com.cdn.ampproject.org/c/s/example.com/g?value=Hello%20World"},
}

func TestVerifEnumC11(t *testing.T) {
	r := en.New()
	defer r.Done()
	data := c11DataSet()

	// ---- (a1) padding independence ---------------------------------------------------------------
	padTokens := []string{"", "a", "/", "//", "0", "=", "%2F", "ä"}
	padLen := 3
	if r.Thorough() {
		padTokens = append(padTokens, "?", "\n", "A/", "_-")
		padLen = 4
	}
	r.Begin("path-padding", fmt.Sprintf("data: all byte strings of length <=3 over {00,3e,3f,fb,ff,2f} + %d client poll messages; padding: all strings of <=%d tokens over %q; DecodePath(\"0\"+padding+\"/\"+base64url(data)) == data (base64url by an independent encoder)", len(c11Polls), padLen, padTokens))
	var pads []string
	seenPad := map[string]bool{}
	en.Strings(padTokens, padLen, func(tok []string) bool {
		p := strings.Join(tok, "")
		if !seenPad[p] {
			seenPad[p] = true
			pads = append(pads, p)
		}
		return true
	})
	for di, d := range data {
		if !r.Mine() {
			continue
		}
		if r.TimeUp() {
			break
		}
		b64 := c11RefB64(d)
		for _, pad := range pads {
			path := "0" + pad + "/" + b64
			var got []byte
			var err error
			p, val, stack := en.Try(func() { got, err = DecodePath(path) })
			r.Case("pp|"+path, len(d) > 0 || pad != "")
			if p {
				r.Fail("path:panic@"+en.PanicSite(stack), "DecodePath panicked: "+val+" "+stack, path)
				continue
			}
			if err != nil {
				r.Fail("path:padding-breaks-decoding", fmt.Sprintf("DecodePath(%q) = error %v; data %x", path, err, d), map[string]interface{}{"path": path, "data_hex": fmt.Sprintf("%x", d), "padding": pad})
			} else if !bytes.Equal(got, d) {
				r.Fail("path:padding-changes-data", fmt.Sprintf("DecodePath(%q) = %x, want %x", path, got, d), map[string]interface{}{"path": path, "data_hex": fmt.Sprintf("%x", d), "padding": pad})
			}
		}
		if di%97 == 0 {
			r.Sample(map[string]interface{}{"section": "path-padding", "data_hex": fmt.Sprintf("%x", d), "paddings": len(pads)})
		}
	}

	// ---- (a2) EncodePath with pinned randomness ---------------------------------------------------
	if r.Shard0() {
		pats := c11Patterns()
		r.Begin("path-encode", fmt.Sprintf("EncodePath(data) for the same data set with crypto/rand.Reader replaced by %d patterns (00.., ff.., counter, counter from f8, fb ff fe, 3f.., 2f.., each also delivered one byte per Read) and once with the real reader: DecodePath(EncodePath(data)) == data, and the output re-padded with every single-token padding still decodes to data", len(pats)))
		saved := rand.Reader
		for pi := -1; pi < len(pats); pi++ {
			name := "crypto/rand"
			if pi >= 0 {
				rand.Reader = &c11PatReader{p: pats[pi]}
				name = pats[pi].name
			} else {
				rand.Reader = saved
			}
			for _, d := range data {
				var enc string
				var got []byte
				var err error
				p, val, stack := en.Try(func() { enc = EncodePath(d); got, err = DecodePath(enc) })
				r.Case(fmt.Sprintf("pe|%s|%x", name, d), true)
				in := map[string]interface{}{"data_hex": fmt.Sprintf("%x", d), "rand": name, "encoded": enc}
				if p {
					r.Fail("path:panic@"+en.PanicSite(stack), "EncodePath/DecodePath panicked: "+val+" "+stack, in)
					continue
				}
				if err != nil || !bytes.Equal(got, d) {
					r.Fail("path:encode-roundtrip", fmt.Sprintf("DecodePath(EncodePath(%x)) = %x, %v (encoded %q)", d, got, err, enc), in)
					continue
				}
				// more padding in front of what EncodePath produced (a cache or a client may add some)
				if len(enc) > 0 {
					for _, tok := range padTokens {
						p2 := enc[:1] + tok + "/" + enc[1:]
						got, err = DecodePath(p2)
						r.Case("pe2|"+p2, true)
						if err != nil || !bytes.Equal(got, d) {
							r.Fail("path:padding-changes-data", fmt.Sprintf("DecodePath(%q) = %x, %v; want %x", p2, got, err, d), in)
						}
					}
				}
			}
		}
		rand.Reader = saved
	}

	// ---- (a3) malformed paths ---------------------------------------------------------------------
	malTokens := []string{"0", "/", "QQ", "A", "B", "1", "-", "_", "=", "+", "!", " ", "%2F", "\n", "ä"}
	malLen := 4
	if r.Thorough() {
		malLen = 5
	}
	r.Begin("path-malformed", fmt.Sprintf("all strings of <=%d tokens over %q against a reference reader of the documented format (\"0\", any bytes, final slash, unpadded base64url): no slash / wrong or missing version / characters outside the alphabet / '=' / length 1 mod 4 must be errors, well-formed ones must give the reference bytes, never a panic; CR/LF inside the base64 and non-zero trailing bits are left open", malLen, malTokens))
	seenMal := map[string]bool{}
	en.Strings(malTokens, malLen, func(tok []string) bool {
		path := strings.Join(tok, "")
		if seenMal[path] {
			return true
		}
		seenMal[path] = true
		if !r.Mine() {
			return true
		}
		want, v := c11RefDecodePath(path)
		var got []byte
		var err error
		p, val, stack := en.Try(func() { got, err = DecodePath(path) })
		r.Case("pm|"+path, path != "")
		if p {
			r.Fail("path:panic@"+en.PanicSite(stack), "DecodePath panicked: "+val+" "+stack, path)
			return true
		}
		switch v {
		case vBad:
			if err == nil {
				r.Fail("path:malformed-accepted", fmt.Sprintf("DecodePath(%q) = %x, nil; the documented format does not allow this path", path, got), path)
			}
		case vOK:
			if err != nil {
				r.Fail("path:wellformed-rejected", fmt.Sprintf("DecodePath(%q) = error %v; want %x", path, err, want), path)
			} else if !bytes.Equal(got, want) {
				r.Fail("path:wrong-data", fmt.Sprintf("DecodePath(%q) = %x; want %x", path, got, want), path)
			}
		}
		return true
	})

	// ---- (b0) the reference against the published fallback values ---------------------------------
	if r.Shard0() {
		r.Begin("cacheurl-vectors", "domain prefixes published in the AMP cache URL specification / its reference widget and the three URL examples of the Google AMP cache overview (as listed in cache_test.go), through the exported CacheURL; the reference fallback is first validated against two published values")
		for _, v := range c11FallbackVectors {
			ok := false
			for _, f := range c11RefFallback(v.domain) {
				ok = ok || f == v.prefix
			}
			r.Case("fv|"+v.domain, true)
			if !ok {
				r.Fail("engine:reference-fallback-wrong", fmt.Sprintf("reference fallback for %q = %q, published %q", v.domain, c11RefFallback(v.domain), v.prefix), v.domain)
			}
		}
		for _, v := range c11PrefixVectors {
			acc, how := c11AcceptablePrefixes(v.domain)
			ok := false
			for _, a := range acc {
				ok = ok || a == v.prefix
			}
			if !ok {
				r.Fail("engine:reference-prefix-wrong", fmt.Sprintf("reference for %q = %q (%s), published %q", v.domain, acc, how, v.prefix), v.domain)
			}
			for _, scheme := range []string{"http", "https"} {
				pub := scheme + "://" + v.domain + "/x"
				r.Case("pv|"+pub, true)
				pu, err := url.Parse(pub)
				if err != nil {
					r.Fail("engine:vector-unparseable", err.Error(), pub)
					continue
				}
				cu, _ := url.Parse("https://cdn.ampproject.org/")
				var got *url.URL
				p, val, stack := en.Try(func() { got, err = CacheURL(pu, cu, "c") })
				if p {
					r.Fail("cacheurl:panic@"+en.PanicSite(stack), "CacheURL panicked: "+val+" "+stack, pub)
					continue
				}
				if err != nil || got == nil {
					r.Fail("cacheurl:unexpected-error", fmt.Sprintf("CacheURL(%q) = error %v", pub, err), pub)
					continue
				}
				if got.Host != v.prefix+".cdn.ampproject.org" {
					r.Fail("cacheurl:published-vector", fmt.Sprintf("CacheURL(%q) has host %q; the specification publishes the domain prefix %q", pub, got.Host, v.prefix), pub)
				}
			}
		}
		for _, v := range c11URLVectors {
			r.Case("uv|"+v.pub, true)
			pu, _ := url.Parse(v.pub)
			cu, _ := url.Parse(v.cache)
			got, err := CacheURL(pu, cu, v.ct)
			if err != nil || got == nil {
				r.Fail("cacheurl:unexpected-error", fmt.Sprintf("CacheURL(%q) = error %v", v.pub, err), v.pub)
			} else if got.String() != v.want {
				r.Fail("cacheurl:published-vector", fmt.Sprintf("CacheURL(%q, %q, %q) = %q; published %q", v.pub, v.cache, v.ct, got.String(), v.want), v.pub)
			}
		}
	}

	// ---- (b) CacheURL over the URL grammar ----------------------------------------------------------
	l63 := strings.Repeat("a", 63)
	l64 := strings.Repeat("b", 64)
	labels := []string{"a", "example", "xn--bcher-kva", "bücher", "a-b", "ab--c", l63, l64, "EXAMPLE", "", "xn---"}
	var hosts []string
	seenHost := map[string]bool{}
	en.Strings(labels, 3, func(tok []string) bool {
		if len(tok) == 0 {
			return true
		}
		h := strings.Join(tok, ".")
		if !seenHost[h] {
			seenHost[h] = true
			hosts = append(hosts, h)
		}
		return true
	})
	long := strings.Join([]string{strings.Repeat("c", 49), strings.Repeat("d", 49), strings.Repeat("e", 49), strings.Repeat("f", 49), strings.Repeat("g", 49)}, ".")
	named := []string{long, "ää-b.example", "en-us.example.com", "a.-b", "www.xn--bcher-kva.example", "snowflake-broker.torproject.net", "snowflake-broker.azureedge.net"}
	hosts = append(hosts, named...)
	if r.Thorough() {
		// more labels (digit, lone hyphen, a second A-label, trailing hyphen, sharp s, underscore)
		labels = append(labels, "0", "-", "xn--p1ai", "ab-", "ß", "a_b")
		hosts = nil
		seenHost = map[string]bool{}
		en.Strings(labels, 3, func(tok []string) bool {
			if len(tok) == 0 {
				return true
			}
			h := strings.Join(tok, ".")
			if !seenHost[h] {
				seenHost[h] = true
				hosts = append(hosts, h)
			}
			return true
		})
		hosts = append(hosts, named...)
	}
	schemes := []string{"https", "http", "ftp"}
	ports := []string{"", ":443", ":80", ":8080"}
	userinfos := []string{"", "user@"}
	paths := []string{"", "/", "/a/b", "/a%2Fb", "//x", "/amp/client/0AAAAAAAAAAAA/MS4wCnt9", "/v%2541/x", "/100%25/y"}
	if r.Thorough() {
		paths = append(paths, "/a/", "/a//b/", "/%2E%2E/x", "/a;b=c", "/ä/%C3%A4", "/a%3Fb%23c", "/front%252Fend", "/%25", "/a%2520b")
	}
	queries := []string{"", "?q=1&r=2"}
	fragments := []string{"", "#f"}
	cts := []string{"c", "i", ""}
	r.Begin("cacheurl", fmt.Sprintf("publisher host: all sequences of 1..3 labels over {a, example, xn--bcher-kva, bücher, a-b, ab--c, 63-byte label, 64-byte label, EXAMPLE, empty label (leading/trailing/double dot), xn--- (undecodable); thorough adds 0, -, xn--p1ai, ab-, ß, a_b} + a %d-byte domain + 6 named hosts = %d hosts; x scheme %q x port %q x userinfo %q x path %q x query %q x fragment %q x cache %d URLs (plain, path prefix, port, query, no path) x content type %q; oracle: reference of the specification steps (every reading of the ambiguous steps accepted), label dot-free and <=63 bytes, path segments and query kept", len(long), len(hosts), schemes, ports, userinfos, paths, queries, fragments, len(c11Caches), cts))
	stats := map[string]int64{}
	for hi, host := range hosts {
		for _, scheme := range schemes {
			for _, port := range ports {
				for _, ui := range userinfos {
					if !r.Mine() {
						continue
					}
					if r.TimeUp() {
						break
					}
					for _, pth := range paths {
						for _, q := range queries {
							for _, fr := range fragments {
								pub := c11Pub{scheme, ui, host, port, pth, q, fr}
								for _, cache := range c11Caches {
									for _, ct := range cts {
										class := c11CheckCacheURL(r, pub, cache, ct)
										stats[class]++
										if class == "unparseable" {
											continue
										}
										r.Case("cu|"+pub.String()+"|"+cache.raw+"|"+ct, true)
									}
								}
							}
						}
					}
				}
			}
		}
		if hi%211 == 0 {
			r.Sample(map[string]interface{}{"section": "cacheurl", "host": host, "prefixes_allowed": func() interface{} {
				a, h := c11AcceptablePrefixes(host)
				return map[string]interface{}{"how": h, "n": len(a)}
			}()})
		}
	}
	// outcome classes as sections (counts only)
	var classes []string
	for class := range stats {
		classes = append(classes, class)
	}
	sort.Strings(classes)
	for _, class := range classes {
		n := stats[class]
		r.Begin("cacheurl-outcome:"+class, "number of cacheurl cases with this outcome (ok = agrees with the reference byte for byte; ok-slashes-normalised = agrees up to duplicate/trailing slashes; error/outside-contract = inputs the code documents as errors)")
		r.CaseN(0)
		if s := r.Sections["cacheurl-outcome:"+class]; s != nil {
			s.Evaluations += n
		}
	}
}
