//go:build go1.21

package main

// C13 — probetest's /probe handler deserialises what a remote proxy posts (a poll response carrying a
// session description): any body yields an HTTP status, never a panic (net/http would recover it and
// drop the connection without a response).  Bodies: every status of the poll-response format x the
// lattice of hostile session descriptions as the offer, empty/absent offers, other JSON shapes,
// truncations.  Offers that are well-formed descriptions are limited to SDP texts pion rejects at once,
// so that no ICE gathering (network) starts.

import (
	"encoding/json"
	"fmt"
	"io"
	"log"
	"net/http"
	"net/http/httptest"
	"strings"
	"testing"

	en "git.torproject.org/pluggable-transports/snowflake.git/v2/verifenum"
)

func TestVerifEnumC13Probe(t *testing.T) {
	log.SetOutput(io.Discard)
	r := en.New()
	defer r.Done()
	r.Begin("probe-handler", "probetest probeHandler over bodies {Status in {client match, no match, error text, absent} x Offer in {absent, empty, hostile session descriptions} x NAT}, other JSON shapes and truncations: a status code is written, no panic")
	var bodies []string
	offers := []string{"\x00absent", ""}
	for _, h := range en.HostileSessionDescriptions() {
		if len(h) < 5000 {
			offers = append(offers, h)
		}
	}
	for _, status := range []string{"client match", "no match", "error: x", "\x00absent", ""} {
		for _, off := range offers {
			m := map[string]interface{}{}
			if status != "\x00absent" {
				m["Status"] = status
			}
			if off != "\x00absent" {
				m["Offer"] = off
			}
			m["NAT"] = "unknown"
			b, _ := json.Marshal(m)
			bodies = append(bodies, string(b))
		}
	}
	bodies = append(bodies, ``, `null`, `[]`, `{}`, `{"Status":1}`, `{"Offer":1}`, `{"Status":"client match","Offer":null}`, `garbage`, "\xff", `{"Status":"client match","Offer":"{\"type\":\"offer\",\"sdp\":\"v=0\\r\\n\"}","NAT":"unknown"}`)
	base := `{"Status":"client match","Offer":"{\"type\":\"offer\",\"sdp\":\"x\"}","NAT":"unknown"}`
	for cut := 0; cut <= len(base); cut++ {
		bodies = append(bodies, base[:cut])
	}
	for i, body := range bodies {
		if !r.Mine() {
			continue
		}
		body := body
		r.Case(fmt.Sprintf("probe|%d|%.80s", i, body), len(body) > 0)
		rec := httptest.NewRecorder()
		req, _ := http.NewRequest("POST", "http://probe/probe", strings.NewReader(body))
		p, val, stack := en.Try(func() { probeHandler(rec, req) })
		if p {
			in := body
			if len(in) > 300 {
				in = in[:300] + "..."
			}
			r.Fail("probe:panic@"+en.PanicSite(stack), "probeHandler panicked on a posted body: "+val+" "+stack, in)
			continue
		}
		if rec.Code < 100 || rec.Code > 599 {
			r.Fail("probe:bad-status", fmt.Sprintf("status %d", rec.Code), body)
		}
	}
}
