//go:build go1.21

package turbotunnel

// C17 (b) — QueuePacketConn: FIFO per address, never blocks, no aliasing, fails after Close;
// C17 (c2) — ClientMap with its real sweeper on virtual time: retention and expiry window.

import (
	"bytes"
	"fmt"
	"strings"
	"time"

	vs "git.torproject.org/pluggable-transports/snowflake.git/v2/verifvs"
)

type qpcModel struct {
	incoming []string            // "addr|payload" in arrival order
	outgoing map[string][]string // per address
	closed   bool
}

type fullWorld struct {
	c            *QueuePacketConn
	outgoing     bool
	free         int
	producers    int
	returned     int
	returnedAt1s int
	drained      []string
	drainedOK    bool
}

const (
	opQIa = iota
	opQIb
	opRF
	opWTa
	opWTb
	opOQa
	opOQb
	opClose
	nQOps
)

var qOpName = []string{"QueueIncoming(a)", "QueueIncoming(b)", "ReadFrom", "WriteTo(a)", "WriteTo(b)", "recv OutgoingQueue(a)", "recv OutgoingQueue(b)", "Close"}

func init() {
	harnesses = append(harnesses, &vs.Harness{
		Name:    "c17b-seq",
		Horizon: time.Hour,
		Body: func(x *vs.X) {
			depth := cfgInt(x, "depth", 4)
			var ops []int
			for i := 0; i < depth; i++ {
				ops = append(ops, vs.Choose("op", nQOps))
			}
			c := NewQueuePacketConn(fakeAddr("local"), 10*time.Hour)
			m := &qpcModel{outgoing: map[string][]string{}}
			addrs := map[string]fakeAddr{"a": "a", "b": "b"}
			var desc []string
			buf := make([]byte, 32)
			fail := func(sig, format string, a ...interface{}) {
				x.Fail("queue-conn", "queue:"+sig, "after %v: %s", desc, fmt.Sprintf(format, a...))
			}
			for i, op := range ops {
				desc = append(desc, qOpName[op])
				payload := fmt.Sprintf("p%d", i)
				n := copy(buf, payload)
				switch op {
				case opQIa, opQIb:
					a := "a"
					if op == opQIb {
						a = "b"
					}
					c.QueueIncoming(buf[:n], addrs[a])
					if !m.closed {
						m.incoming = append(m.incoming, a+"|"+payload)
					}
				case opRF:
					if len(m.incoming) == 0 && !m.closed {
						desc[len(desc)-1] += "(skipped: would block)"
						continue
					}
					out := make([]byte, 64)
					k, from, err := c.ReadFrom(out)
					if m.closed {
						// after Close every operation fails (pending packets are not promised)
						if err == nil {
							// the implementation may still hand out a queued packet: the statement says
							// "fails all operations after Close"
							fail("read-succeeds-after-close", "ReadFrom returned %q, nil after Close", out[:k])
						}
						continue
					}
					if err != nil {
						fail("read-error-while-open", "ReadFrom: %v", err)
						continue
					}
					want := m.incoming[0]
					m.incoming = m.incoming[1:]
					got := fmt.Sprintf("%v|%s", from, out[:k])
					if got != want {
						fail("incoming-not-fifo-or-corrupted", "ReadFrom returned %q, want %q", got, want)
					}
				case opWTa, opWTb:
					a := "a"
					if op == opWTb {
						a = "b"
					}
					k, err := c.WriteTo(buf[:n], addrs[a])
					if m.closed {
						if err == nil {
							fail("write-succeeds-after-close", "WriteTo returned %d, nil after Close", k)
						}
						continue
					}
					if err != nil || k != n {
						fail("write-error-while-open", "WriteTo: %d, %v", k, err)
						continue
					}
					m.outgoing[a] = append(m.outgoing[a], payload)
				case opOQa, opOQb:
					a := "a"
					if op == opOQb {
						a = "b"
					}
					q := c.OutgoingQueue(addrs[a])
					pkt, ok, got := tryRecv(q)
					if len(m.outgoing[a]) == 0 {
						if got && ok {
							fail("outgoing-fabricated", "OutgoingQueue(%s) delivered %q although nothing was written", a, pkt)
						}
						continue
					}
					want := m.outgoing[a][0]
					m.outgoing[a] = m.outgoing[a][1:]
					if !got || !ok || string(pkt) != want {
						fail("outgoing-not-fifo-or-corrupted", "OutgoingQueue(%s) delivered %q (got=%v ok=%v), want %q", a, pkt, got, ok, want)
					}
				case opClose:
					err := c.Close()
					if m.closed && err == nil {
						fail("second-close-succeeds", "second Close returned nil")
					}
					if !m.closed && err != nil {
						fail("first-close-fails", "Close: %v", err)
					}
					m.closed = true
				}
				// the caller re-uses its buffer: scribble over it
				for j := range buf {
					buf[j] = 0xAA
				}
			}
			x.Outcome(strings.Join(desc, ","))
		},
		Check: func(x *vs.X) {
			for _, t := range x.Threads() {
				if t.Panic != "" {
					x.Fail("no-panic", "panic:"+firstLine(t.Panic), "thread %s panicked: %s\n%s", t.Name, t.Panic, t.PanicAt)
				}
				if t.Name == "main" && !t.Done {
					x.Fail("never-blocks", "queue:operation-blocked", "the operation sequence blocked at %s", t.Site)
				}
			}
		},
	})

	// overflow: the 2049th packet of a full queue is dropped, nothing blocks
	harnesses = append(harnesses, &vs.Harness{
		Name:     "c17b-overflow",
		Horizon:  time.Hour,
		MaxSteps: 200000,
		Body: func(x *vs.X) {
			c := NewQueuePacketConn(fakeAddr("local"), 10*time.Hour)
			a := fakeAddr("a")
			for i := 0; i < queueSize+5; i++ {
				p := []byte(fmt.Sprintf("in%d", i))
				c.QueueIncoming(p, a)
				c.WriteTo([]byte(fmt.Sprintf("out%d", i)), a)
			}
			out := make([]byte, 64)
			for i := 0; i < queueSize; i++ {
				n, _, err := c.ReadFrom(out)
				if err != nil || string(out[:n]) != fmt.Sprintf("in%d", i) {
					x.Fail("queue-conn", "queue:overflow-order", "packet %d read as %q, %v", i, out[:n], err)
					break
				}
			}
			q := c.OutgoingQueue(a)
			for i := 0; i < queueSize; i++ {
				p, ok, got := tryRecv(q)
				if !got || !ok || string(p) != fmt.Sprintf("out%d", i) {
					x.Fail("queue-conn", "queue:overflow-order-out", "outgoing packet %d is %q (got=%v ok=%v)", i, p, got, ok)
					break
				}
			}
			if _, _, got := tryRecv(q); got {
				x.Fail("queue-conn", "queue:overflow-not-dropped", "more than queueSize packets were kept")
			}
			x.Outcome("overflow done")
		},
		Check: func(x *vs.X) {
			for _, t := range x.Threads() {
				if t.Name == "main" && !t.Done {
					x.Fail("never-blocks", "queue:operation-blocked", "blocked at %s", t.Site)
				}
			}
		},
	})

	// several producers meet an almost full queue (nobody drains it): every call returns, the queue keeps
	// its order and takes exactly as many packets as it had room for
	harnesses = append(harnesses, &vs.Harness{
		Name:     "c17b-full",
		Horizon:  time.Hour,
		MaxSteps: 400000,
		Body: func(x *vs.X) {
			outgoing := vs.Choose("direction", 2) == 1
			free := vs.Choose("free", 3)
			producers := 2 + vs.Choose("producers", cfgInt(x, "maxproducers", 2)-1)
			withClose := vs.Choose("close", 2) == 1
			c := NewQueuePacketConn(fakeAddr("local"), 10*time.Hour)
			a := fakeAddr("a")
			w := &fullWorld{c: c, outgoing: outgoing, free: free, producers: producers}
			x.User = w
			for i := 0; i < queueSize-free; i++ {
				p := []byte(fmt.Sprintf("fill%d", i))
				if outgoing {
					c.WriteTo(p, a)
				} else {
					c.QueueIncoming(p, a)
				}
			}
			for k := 0; k < producers; k++ {
				k := k
				vs.GoRole(fmt.Sprintf("producer%d", k), vs.RoleRequest, func() {
					p := []byte(fmt.Sprintf("new%d", k))
					if outgoing {
						c.WriteTo(p, a)
					} else {
						c.QueueIncoming(p, a)
					}
					w.returned++
				})
			}
			vs.Sleep(time.Second)
			w.returnedAt1s = w.returned
			if withClose {
				c.Close()
				return
			}
			// drain
			if outgoing {
				q := c.OutgoingQueue(a)
				for {
					p, ok, got := tryRecv(q)
					if !got || !ok {
						break
					}
					w.drained = append(w.drained, string(p))
				}
			} else {
				out := make([]byte, 64)
				for len(w.drained) < queueSize+producers {
					if len(c.recvQueue) == 0 {
						break
					}
					n, _, err := c.ReadFrom(out)
					if err != nil {
						break
					}
					w.drained = append(w.drained, string(out[:n]))
				}
			}
			w.drainedOK = true
			c.Close()
		},
		Check: func(x *vs.X) {
			w := x.User.(*fullWorld)
			x.Outcome(fmt.Sprintf("outgoing=%v free=%d producers=%d returned=%d drained=%d", w.outgoing, w.free, w.producers, w.returnedAt1s, len(w.drained)))
			for _, t := range x.Threads() {
				if t.Panic != "" {
					x.Fail("no-panic", "panic:"+firstLine(t.Panic), "thread %s panicked: %s\n%s", t.Name, t.Panic, t.PanicAt)
				}
			}
			if w.returnedAt1s != w.producers {
				x.Fail("never-blocks", "queue:producer-blocked-on-full-queue", "%d of %d concurrent calls had not returned 1 s later (queue with %d free slots, nobody draining)", w.producers-w.returnedAt1s, w.producers, w.free)
			}
			if !w.drainedOK {
				return
			}
			wantNew := w.free
			if w.producers < wantNew {
				wantNew = w.producers
			}
			if len(w.drained) != queueSize-w.free+wantNew {
				x.Fail("queue-conn", "queue:full-queue-count", "the queue held %d packets, want %d (room for %d of the %d new ones)", len(w.drained), queueSize-w.free+wantNew, wantNew, w.producers)
			}
			for i := 0; i < queueSize-w.free && i < len(w.drained); i++ {
				if w.drained[i] != fmt.Sprintf("fill%d", i) {
					x.Fail("queue-conn", "queue:full-queue-order", "packet %d is %q", i, w.drained[i])
					break
				}
			}
		},
	})

	// a client that is written to all the time is "seen": its queue and contents stay, however long the run
	// of writes lasts (the real sweeper runs on virtual time)
	harnesses = append(harnesses, &vs.Harness{
		Name:     "c17b-written-to",
		Horizon:  24 * time.Hour,
		MaxSteps: 400000,
		Body: func(x *vs.X) {
			const T = time.Minute
			gap := []time.Duration{T / 4, T / 2, T - time.Second, 500 * time.Millisecond}[vs.Choose("gap", 4)]
			other := vs.Choose("other-client-in-between", 2) == 1
			c := NewQueuePacketConn(fakeAddr("local"), T)
			a, b := fakeAddr("a"), fakeAddr("b")
			n := 0
			var problem string
			for vs.Elapsed() < 4*T && n < 600 {
				p, val, _ := tryCall(func() {
					if _, err := c.WriteTo([]byte(fmt.Sprintf("p%d", n)), a); err != nil && problem == "" {
						problem = fmt.Sprintf("WriteTo #%d at %v: %v", n, vs.Elapsed(), err)
					}
				})
				if p {
					problem = fmt.Sprintf("WriteTo #%d at %v panicked: %s", n, vs.Elapsed(), val)
					break
				}
				n++
				if other && n%3 == 0 {
					c.WriteTo([]byte("x"), b)
				}
				vs.Sleep(gap)
			}
			if problem != "" {
				x.Fail("queue-conn", "queue:written-to-client-discarded", "writes every %v to one client: %s", gap, problem)
			}
			q := c.OutgoingQueue(a)
			got := 0
			for {
				pkt, ok, rcv := tryRecv(q)
				if !rcv || !ok {
					break
				}
				if string(pkt) != fmt.Sprintf("p%d", got) {
					x.Fail("queue-conn", "queue:written-to-client-contents-lost", "writes every %v to one client: packet %d of the queue is %q", gap, got, pkt)
					break
				}
				got++
			}
			want := n
			if want > queueSize {
				want = queueSize
			}
			if got != want && problem == "" {
				x.Fail("queue-conn", "queue:written-to-client-contents-lost", "writes every %v to one client for %v: the queue holds %d packets, want %d (the client was seen at every write)", gap, vs.Elapsed(), got, want)
			}
			x.Outcome(fmt.Sprintf("gap=%v other=%v written=%d queued=%d", gap, other, n, got))
			c.Close()
		},
		Check: func(x *vs.X) {
			for _, t := range x.Threads() {
				if t.Panic != "" {
					x.Fail("no-panic", "panic:"+firstLine(t.Panic), "thread %s panicked: %s\n%s", t.Name, t.Panic, t.PanicAt)
				}
			}
		},
	})

	// concurrent users of one QueuePacketConn
	harnesses = append(harnesses, &vs.Harness{
		Name:    "c17b-conc",
		Horizon: time.Hour,
		Body: func(x *vs.X) {
			withClose := vs.Choose("close", 2) == 1
			c := NewQueuePacketConn(fakeAddr("local"), 10*time.Hour)
			w := &concWorld{}
			x.User = w
			a, b := fakeAddr("a"), fakeAddr("b")
			// two carriers feed incoming packets, one KCP-like reader, one writer to both addresses,
			// two carrier write loops drain the outgoing queues
			for ci, addr := range []fakeAddr{a, b} {
				ci, addr := ci, addr
				vs.GoRole(fmt.Sprintf("feeder%d", ci), vs.RoleRequest, func() {
					buf := make([]byte, 16)
					for i := 0; i < 2; i++ {
						n := copy(buf, fmt.Sprintf("%s%d", addr, i))
						c.QueueIncoming(buf[:n], addr)
						for j := range buf {
							buf[j] = 0xAA
						}
					}
				})
			}
			vs.GoRole("reader", vs.RoleDaemon, func() {
				for i := 0; i < 4; i++ {
					out := make([]byte, 64)
					n, from, err := c.ReadFrom(out)
					if err != nil {
						w.readErr = err
						w.readErrAfterClose = w.closeStarted
						return
					}
					w.read = append(w.read, fmt.Sprintf("%v|%s", from, out[:n]))
				}
			})
			vs.GoRole("writer", vs.RoleRequest, func() {
				buf := make([]byte, 16)
				for i := 0; i < 2; i++ {
					for _, addr := range []fakeAddr{a, b} {
						n := copy(buf, fmt.Sprintf("w%s%d", addr, i))
						_, err := c.WriteTo(buf[:n], addr)
						if err != nil && !w.closeStarted {
							w.writeErrWhileOpen = err
						}
						if err == nil {
							w.written = append(w.written, fmt.Sprintf("%s|w%s%d", addr, addr, i))
						}
						for j := range buf {
							buf[j] = 0xAA
						}
					}
				}
			})
			if withClose {
				vs.GoRole("closer", vs.RoleRequest, func() {
					w.closeStarted = true
					c.Close()
				})
			}
			vs.Sleep(time.Second)
			// drain outgoing queues
			for _, addr := range []fakeAddr{a, b} {
				q := c.OutgoingQueue(addr)
				for {
					p, ok, got := tryRecv(q)
					if !got || !ok {
						break
					}
					w.drained = append(w.drained, fmt.Sprintf("%s|%s", addr, p))
				}
			}
			c.Close()
		},
		Check: func(x *vs.X) {
			w := x.User.(*concWorld)
			x.Outcome(fmt.Sprintf("read=%v drained=%v", w.read, w.drained))
			for _, t := range x.Threads() {
				if t.Panic != "" {
					x.Fail("no-panic", "panic:"+firstLine(t.Panic), "thread %s panicked: %s\n%s", t.Name, t.Panic, t.PanicAt)
				}
				if !t.Done && (t.Role == vs.RoleRequest || t.Name == "reader" || t.Name == "main") {
					x.Fail("never-blocks", "queue:thread-blocked:"+t.Name, "thread %s still blocked at %s after Close", t.Name, t.Site)
				}
			}
			if w.readErr != nil && !w.readErrAfterClose {
				x.Fail("queue-conn", "queue:read-error-while-open", "ReadFrom failed before Close: %v", w.readErr)
			}
			if w.writeErrWhileOpen != nil {
				x.Fail("queue-conn", "queue:write-error-while-open", "WriteTo failed before Close: %v", w.writeErrWhileOpen)
			}
			// per-address FIFO and integrity on both paths
			checkFIFO := func(what string, items []string, valid func(addr, p string) (int, bool)) {
				last := map[string]int{}
				for _, it := range items {
					i := strings.IndexByte(it, '|')
					addr, p := it[:i], it[i+1:]
					seq, ok := valid(addr, p)
					if !ok {
						x.Fail("queue-conn", "queue:"+what+"-corrupted-or-misattributed", "%s delivered %q", what, it)
						continue
					}
					if prev, seen := last[addr]; seen && seq <= prev {
						x.Fail("queue-conn", "queue:"+what+"-not-fifo", "%s delivered %q after sequence %d", what, it, prev)
					}
					last[addr] = seq
				}
			}
			checkFIFO("incoming", w.read, func(addr, p string) (int, bool) {
				var seq int
				if !strings.HasPrefix(p, addr) {
					return 0, false
				}
				if _, err := fmt.Sscanf(p[len(addr):], "%d", &seq); err != nil || seq > 1 {
					return 0, false
				}
				return seq, true
			})
			checkFIFO("outgoing", w.drained, func(addr, p string) (int, bool) {
				var seq int
				if !strings.HasPrefix(p, "w"+addr) {
					return 0, false
				}
				if _, err := fmt.Sscanf(p[len(addr)+1:], "%d", &seq); err != nil || seq > 1 {
					return 0, false
				}
				return seq, true
			})
			// without Close nothing may be lost (queues are far from full)
			if !w.closeStarted {
				if len(w.read) != 4 {
					x.Fail("queue-conn", "queue:incoming-lost", "only %d of 4 incoming packets were read: %v", len(w.read), w.read)
				}
				if len(w.drained) != 4 {
					x.Fail("queue-conn", "queue:outgoing-lost", "only %d of 4 outgoing packets were drained: %v", len(w.drained), w.drained)
				}
			}
			_ = bytes.Equal
		},
	})

	// ClientMap with the real sweeper on virtual time
	harnesses = append(harnesses, &vs.Harness{
		Name:    "c17c-sweeper",
		Horizon: 10 * time.Minute,
		Body: func(x *vs.X) {
			const T = time.Minute
			t0 := []time.Duration{0, T / 4, T / 2, T/2 - 1, 3 * T / 4}[vs.Choose("t0", 5)]
			refresh := []time.Duration{-1, T / 2, T - 1, T/2 + 1, 2, 500 * time.Millisecond, 999 * time.Millisecond, T / 4}[vs.Choose("refresh", 8)]
			m := NewClientMap(T)
			a, b := fakeAddr("a"), fakeAddr("b")
			vs.Sleep(t0)
			q := m.SendQueue(a)
			sendNB(q, []byte("kept"))
			last := t0
			fail := func(sig, format string, args ...interface{}) {
				x.Fail("clientmap", "clientmap:"+sig, "first seen at %v, refresh %v: %s", t0, refresh, fmt.Sprintf(format, args...))
			}
			if refresh >= 0 {
				vs.Sleep(refresh)
				// another client is touched at the same instant (heap with two entries)
				m.SendQueue(b)
				if refresh < T {
					q2 := m.SendQueue(a)
					if q2 != q {
						fail("queue-replaced-within-timeout", "SendQueue returned a different queue %v after the client was seen %v ago", refresh, refresh)
					}
					last = t0 + refresh
				}
			}
			// just before the timeout: still there, with its contents
			vs.Sleep(last + T - 1 - vs.Elapsed())
			present, closed := peek(m, a, q)
			if !present || closed {
				fail("discarded-before-timeout", "at idle time T-1ns the record is present=%v queue closed=%v", present, closed)
			}
			if len(q) != 1 {
				fail("contents-lost", "queue holds %d packets at idle time T-1ns, want 1", len(q))
			}
			// nominally within one and a half timeouts: gone and closed
			vs.Sleep(last + T + T/2 + 1 - vs.Elapsed())
			present, closed = peek(m, a, q)
			if present || !closed {
				fail("not-discarded-after-1.5-timeouts", "at idle time 1.5T+1ns the record is present=%v queue closed=%v", present, closed)
			}
			x.Outcome(fmt.Sprintf("t0=%v refresh=%v", t0, refresh))
		},
		Check: func(x *vs.X) {
			for _, t := range x.Threads() {
				if t.Panic != "" {
					x.Fail("no-panic", "panic:"+firstLine(t.Panic), "thread %s panicked: %s\n%s", t.Name, t.Panic, t.PanicAt)
				}
				if t.Name == "main" && !t.Done {
					x.Fail("never-blocks", "clientmap:blocked", "blocked at %s", t.Site)
				}
			}
		},
	})
}

type concWorld struct {
	read              []string
	drained           []string
	written           []string
	readErr           error
	readErrAfterClose bool
	writeErrWhileOpen error
	closeStarted      bool
}

// tryCall runs f and reports a panic instead of letting it unwind the harness thread.
func tryCall(f func()) (panicked bool, val string, stack string) {
	defer func() {
		if r := recover(); r != nil {
			panicked, val = true, fmt.Sprint(r)
		}
	}()
	f()
	return
}
