//go:build go1.21

package turbotunnel

// Scheduler-aware fake carriers for the C17/C01/C05 harnesses.  This file is added to the package
// through the overlay and is passed through the instrumenter like the package's own sources, so it
// is written in plain Go (channels, select, sync).

import (
	"errors"
	"net"
	"sync"
	"time"
)

var errFakeRead = errors.New("fake carrier: read side failed")
var errFakeWrite = errors.New("fake carrier: write side failed")
var errFakeClosed = errors.New("fake carrier: closed")

// FakeCarrier is a scripted net.PacketConn.
type FakeCarrier struct {
	ID             int
	In             chan []byte   // packets handed to ReadFrom
	ReadFail       chan struct{} // closed by the environment: ReadFrom fails from then on
	WriteFailAfter int           // number of successful WriteTo calls before the write side fails (-1: never)
	WriteStall     chan struct{} // if not nil: WriteTo waits until it is closed (a congested carrier)
	closed         chan struct{}
	closeOnce      sync.Once

	Writes   [][]byte // copies of what WriteTo received
	NClose   int
	lastRead []byte // the caller's buffer of the previous ReadFrom, scribbled over on the next call
	nWrites  int
}

func NewFakeCarrier(id int, writeFailAfter int) *FakeCarrier {
	return &FakeCarrier{ID: id, In: make(chan []byte, 16), ReadFail: make(chan struct{}), WriteFailAfter: writeFailAfter, closed: make(chan struct{})}
}

type fakeAddr string

func (a fakeAddr) Network() string { return "fake" }
func (a fakeAddr) String() string  { return string(a) }

// The carrier's fields are deliberately not protected by a mutex: lastRead is touched only by the
// (single) reading goroutine, Writes/nWrites only by the writing goroutine, NClose only by the
// goroutine that owns the carrier (dialLoop).  A shared mutex would make every ReadFrom dependent on
// every WriteTo for the partial-order reduction, for no benefit.

func (c *FakeCarrier) ReadFrom(p []byte) (int, net.Addr, error) {
	if c.lastRead != nil {
		// buffer re-use by the environment: whatever the previous call returned is overwritten now
		for i := range c.lastRead {
			c.lastRead[i] = 0xEE
		}
	}
	c.lastRead = nil
	select {
	case <-c.closed:
		return 0, nil, errFakeClosed
	case <-c.ReadFail:
		return 0, nil, errFakeRead
	case pkt := <-c.In:
		n := copy(p, pkt)
		c.lastRead = p[:n]
		return n, fakeAddr("carrier"), nil
	}
}

func (c *FakeCarrier) WriteTo(p []byte, addr net.Addr) (int, error) {
	if c.WriteStall != nil {
		select {
		case <-c.WriteStall:
		case <-c.closed:
			return 0, errFakeClosed
		}
	}
	select {
	case <-c.closed:
		return 0, errFakeClosed
	default:
	}
	if c.WriteFailAfter >= 0 && c.nWrites >= c.WriteFailAfter {
		return 0, errFakeWrite
	}
	c.nWrites++
	c.Writes = append(c.Writes, append([]byte(nil), p...))
	return len(p), nil
}

func (c *FakeCarrier) Close() error {
	c.NClose++
	c.closeOnce.Do(func() { close(c.closed) })
	return nil
}

func (c *FakeCarrier) IsClosed() bool { return c.NClose > 0 }

func (c *FakeCarrier) Snapshot() (writes [][]byte, nclose int) {
	return append([][]byte(nil), c.Writes...), c.NClose
}

func (c *FakeCarrier) LocalAddr() net.Addr                { return fakeAddr("local") }
func (c *FakeCarrier) SetDeadline(t time.Time) error      { return nil }
func (c *FakeCarrier) SetReadDeadline(t time.Time) error  { return nil }
func (c *FakeCarrier) SetWriteDeadline(t time.Time) error { return nil }

// tryRecv is a non-blocking receive (got=false: nothing available).
func tryRecv(q <-chan []byte) (p []byte, ok bool, got bool) {
	select {
	case p, ok = <-q:
		return p, ok, true
	default:
		return nil, false, false
	}
}

// sendNB is a non-blocking send.
func sendNB(q chan []byte, p []byte) bool {
	select {
	case q <- p:
		return true
	default:
		return false
	}
}

// peek looks at a ClientMap without refreshing the record: is addr present, and is q closed?
// (A closed queue is recognised without consuming anything only when it is empty; the harness
// therefore checks closedness by a non-blocking receive on a copy of the state: a closed channel
// yields ok=false after its buffered packets; packets received are not put back, which is fine at
// the two observation points the harness uses.)
func peek(m *ClientMap, addr fakeAddr, q chan []byte) (present bool, closed bool) {
	m.lock.Lock()
	_, present = m.inner.byAddr[addr]
	m.lock.Unlock()
	if present {
		return true, false
	}
	for {
		select {
		case _, ok := <-q:
			if !ok {
				return false, true
			}
		default:
			return false, false
		}
	}
}
