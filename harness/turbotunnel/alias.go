//go:build go1.21

package turbotunnel

import "net"

// net_PacketConn is net.PacketConn (an alias, so that harness test files need not import net).
type net_PacketConn = net.PacketConn
