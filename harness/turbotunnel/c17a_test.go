//go:build go1.21

package turbotunnel

// C17 (a) — RedialPacketConn under the scheduler with scripted carriers.

import (
	"bytes"
	"context"
	"fmt"
	"strconv"
	"strings"
	"testing"
	"time"

	vs "git.torproject.org/pluggable-transports/snowflake.git/v2/verifvs"
)

var harnesses []*vs.Harness

func TestVerif(t *testing.T) { vs.Main(harnesses...) }

func cfgInt(x *vs.X, k string, def int) int {
	if v, ok := x.Cfg[k]; ok {
		if n, err := strconv.Atoi(v); err == nil {
			return n
		}
	}
	return def
}

func init() {
	harnesses = append(harnesses, &vs.Harness{
		Name:    "c17a",
		Horizon: 30 * time.Second,
		Body: func(x *vs.X) {
			nCar := cfgInt(x, "carriers", 2)
			w := &redialWorld{released: make(chan struct{})}
			for i := 0; i < nCar; i++ {
				w.scripts = append(w.scripts, vs.Choose("fail", cfgInt(x, "fails", nFail)))
			}
			w.dialEnd = vs.Choose("dialend", cfgInt(x, "dialends", nDialEnd))
			closeAt := []time.Duration{-1, time.Second, 0, 3 * time.Second}[vs.Choose("closeAt", cfgInt(x, "closes", 4))]
			x.User = w
			var sb strings.Builder
			for _, s := range w.scripts {
				sb.WriteString(failName[s] + ",")
			}
			x.Outcome(fmt.Sprintf("carriers[%s] dialEnd=%d closeAt=%v", sb.String(), w.dialEnd, closeAt))

			w.c = NewRedialPacketConn(fakeAddr("l"), fakeAddr("r"), func(ctx context.Context) (net_PacketConn, error) { return w.dial(ctx) })
			// user reader
			vs.GoRole("reader", vs.RoleRequest, func() {
				for i := 0; i < 4; i++ {
					buf := make([]byte, 1500)
					n, _, err := w.c.ReadFrom(buf)
					if err != nil {
						w.readErr = err
						if !w.closeCalled && !w.dialFailed {
							w.readErrPre = true
						}
						return
					}
					w.reads = append(w.reads, append([]byte(nil), buf[:n]...))
					for j := range buf {
						buf[j] = 0xDD
					}
				}
			})
			// user writer: one packet at t=0, t=1s, t=2s; the buffer is re-used and scribbled over
			vs.GoRole("writer", vs.RoleRequest, func() {
				buf := make([]byte, 64)
				for i := 0; i < 3; i++ {
					p := []byte(fmt.Sprintf("out-%d", i))
					n := copy(buf, p)
					_, err := w.c.WriteTo(buf[:n], fakeAddr("x"))
					for j := range buf {
						buf[j] = 0xCC
					}
					if err != nil {
						w.writeErr = err
						if !w.closeCalled && !w.dialFailed {
							w.writeErrPre = true
						}
						return
					}
					w.wrote = append(w.wrote, p)
					vs.Sleep(time.Second)
				}
			})
			if closeAt >= 0 {
				vs.GoRole("closer", vs.RoleRequest, func() {
					vs.Sleep(closeAt)
					w.closeConn()
				})
			}
			// whatever happens, close at t=10s so that the end state can be judged
			vs.Sleep(10 * time.Second)
			w.closeConn()
		},
		Check: func(x *vs.X) {
			w := x.User.(*redialWorld)
			x.Outcome(fmt.Sprintf("dials=%d reads=%d readErr=%v wrote=%d writeErr=%v", w.dialCalls, len(w.reads), w.readErr != nil, len(w.wrote), w.writeErr != nil))
			for _, t := range x.Threads() {
				if t.Panic != "" {
					x.Fail("no-panic", "panic:"+firstLine(t.Panic), "thread %s panicked: %s\n%s", t.Name, t.Panic, t.PanicAt)
				}
			}
			if w.readErrPre {
				x.Fail("no-surfaced-error", "redial:read-error-before-close", "ReadFrom returned %v although the connection was not closed and no dial had failed", w.readErr)
			}
			if w.writeErrPre {
				x.Fail("no-surfaced-error", "redial:write-error-before-close", "WriteTo returned %v although the connection was not closed and no dial had failed", w.writeErr)
			}
			if w.overlap != "" {
				x.Fail("one-carrier", "redial:two-carriers-active", "%s", w.overlap)
			}
			// the connection is closed by now: every carrier closed, no package thread alive
			for _, c := range w.carriers {
				if !c.IsClosed() {
					x.Fail("carriers-closed", "redial:carrier-not-closed", "carrier %d was never closed (script %s)", c.ID, failName[w.scripts[c.ID]])
				}
			}
			var live []string
			for _, t := range x.Threads() {
				if !t.Done && strings.HasPrefix(t.Name, "common/turbotunnel/redialpacketconn.go") {
					live = append(live, t.Name+"@"+t.Site)
				}
			}
			if len(live) > 0 {
				x.Fail("no-leak", "redial:goroutine-leak:"+strings.Join(dedupSorted(live), "+"), "%d goroutine(s) of the package still alive after Close: %v", len(live), live)
			}
			for _, t := range x.Threads() {
				if t.Role == vs.RoleRequest && !t.Done {
					x.Fail("unblocked-by-close", "redial:user-call-blocked:"+t.Name, "user thread %s still blocked at %s after Close", t.Name, t.Site)
				}
			}
			// integrity: what the user read is what some carrier produced, in per-carrier order
			last := map[string]int{}
			for _, p := range w.reads {
				s := string(p)
				var car, seq int
				if n, _ := fmt.Sscanf(s, "in-%d-%d", &car, &seq); n != 2 || car >= len(w.carriers) || seq > 1 {
					x.Fail("integrity", "redial:read-corrupted", "ReadFrom returned %q which no carrier produced", s)
					continue
				}
				k := fmt.Sprint(car)
				if prev, ok := last[k]; ok && seq <= prev {
					x.Fail("integrity", "redial:read-reordered-or-duplicated", "packet %q after sequence %d of the same carrier", s, prev)
				}
				last[k] = seq
			}
			// what carriers received is what the user wrote, in order, unmodified
			idx := 0
			for _, c := range w.carriers {
				writes, _ := c.Snapshot()
				for _, p := range writes {
					found := false
					for idx < 3 {
						if bytes.Equal(p, []byte(fmt.Sprintf("out-%d", idx))) {
							found = true
							idx++
							break
						}
						idx++
					}
					if !found {
						x.Fail("integrity", "redial:write-corrupted-or-reordered", "carrier %d received %q, which is not the next packet the user wrote", c.ID, p)
					}
				}
			}
		},
	})
}

func firstLine(s string) string {
	if i := strings.IndexByte(s, '\n'); i >= 0 {
		return s[:i]
	}
	return s
}

func dedupSorted(in []string) []string {
	m := map[string]bool{}
	var out []string
	for _, s := range in {
		if !m[s] {
			m[s] = true
			out = append(out, s)
		}
	}
	for i := range out {
		for j := i + 1; j < len(out); j++ {
			if out[j] < out[i] {
				out[i], out[j] = out[j], out[i]
			}
		}
	}
	return out
}

// c17a-backlog: the carrier's write side is congested while the user keeps writing until the send
// queue (queueSize packets) is full and packets are dropped; then the congested write fails, with the
// read side still blocked.  The connection must redial as always.
func init() {
	harnesses = append(harnesses, &vs.Harness{
		Name:     "c17a-backlog",
		Horizon:  30 * time.Second,
		MaxSteps: 200000,
		Body: func(x *vs.X) {
			extra := []int{-1, 0, 1, 50}[vs.Choose("extra", 4)] // user packets beyond the one in flight: queueSize + extra
			w := &redialWorld{released: make(chan struct{}), scripts: []int{failNone, failNone}}
			x.User = w
			x.Outcome(fmt.Sprintf("backlog=queueSize%+d", extra))
			stall := make(chan struct{})
			w.carrierHook = func(c *FakeCarrier) {
				if c.ID == 0 {
					c.WriteStall = stall
					c.WriteFailAfter = 0
				}
			}
			w.c = NewRedialPacketConn(fakeAddr("l"), fakeAddr("r"), func(ctx context.Context) (net_PacketConn, error) { return w.dial(ctx) })
			vs.GoRole("writer", vs.RoleRequest, func() {
				buf := []byte("p")
				for i := 0; i < 1+queueSize+extra; i++ {
					if _, err := w.c.WriteTo(buf, fakeAddr("x")); err != nil {
						w.writeErr = err
						w.writeErrPre = true
						return
					}
					if i == 0 {
						// by t=1s the first packet is in flight on the congested carrier
						vs.Sleep(time.Second)
					}
				}
				// a second later the congested write fails
				vs.Sleep(time.Second)
				closeChan(stall)
			})
			vs.Sleep(5 * time.Second)
			w.closeConn()
		},
		Check: func(x *vs.X) {
			w := x.User.(*redialWorld)
			x.Outcome(fmt.Sprintf("dials=%d", w.dialCalls))
			for _, t := range x.Threads() {
				if t.Panic != "" {
					x.Fail("no-panic", "panic:"+firstLine(t.Panic), "thread %s panicked: %s\n%s", t.Name, t.Panic, t.PanicAt)
				}
			}
			if w.writeErrPre {
				x.Fail("no-surfaced-error", "redial:write-error-before-close", "WriteTo returned %v although the connection was not closed and no dial had failed", w.writeErr)
			}
			if w.dialCalls < 2 {
				x.Fail("redials", "redial:no-redial-after-write-failure", "the carrier's write side failed but the connection dialled only %d time(s)", w.dialCalls)
			}
			for _, c := range w.carriers {
				if !c.IsClosed() {
					x.Fail("carriers-closed", "redial:carrier-not-closed", "carrier %d was never closed", c.ID)
				}
			}
			var live []string
			for _, t := range x.Threads() {
				if !t.Done && strings.HasPrefix(t.Name, "common/turbotunnel/redialpacketconn.go") {
					live = append(live, t.Name+"@"+t.Site)
				}
			}
			if len(live) > 0 {
				x.Fail("no-leak", "redial:goroutine-leak:"+strings.Join(dedupSorted(live), "+"), "%d goroutine(s) of the package still alive after Close: %v", len(live), live)
			}
		},
	})
}
