//go:build go1.21

package turbotunnel

// World of the C17(a) harness.  Instrumented (added to the package through the overlay), because it
// contains channel operations.

import (
	"context"
	"errors"
	"fmt"
	"sync"
	"time"
)

// failure script of one carrier
const (
	failNone      = iota // never fails by itself
	failRead             // the read side fails at t=1s
	failWrite            // the write side fails on the first write
	failBoth             // the read side fails at t=1s and the write side on the first write (either order)
	failWriteLate        // the write side fails on the second write
	nFail
)

var failName = []string{"none", "read", "write", "both", "write-late"}

// what the dial function does once the scripted carriers are used up
const (
	dialThenError = iota
	dialThenBlock
	nDialEnd
)

type redialWorld struct {
	c         *RedialPacketConn
	carriers  []*FakeCarrier
	scripts   []int
	dialEnd   int
	dialCalls int
	released  chan struct{}
	relOnce   sync.Once

	closeCalled bool
	dialFailed  bool
	maxOpen     int

	reads       [][]byte
	readErr     error
	readErrPre  bool // a read error was returned before Close/dial failure
	writeErr    error
	writeErrPre bool
	wrote       [][]byte
	overlap     string
	carrierHook func(*FakeCarrier) // adjusts a new carrier before it is handed out
}

func (w *redialWorld) dial(ctx context.Context) (net_PacketConn, error) {
	// at most one carrier active: every carrier handed out before must have been closed by now
	open := 0
	for _, c := range w.carriers {
		if !c.IsClosed() {
			open++
		}
	}
	if open > 0 && w.overlap == "" {
		w.overlap = fmt.Sprintf("dial #%d called while %d earlier carrier(s) still open", w.dialCalls, open)
	}
	n := w.dialCalls
	w.dialCalls++
	if n < len(w.scripts) {
		wf := -1
		switch w.scripts[n] {
		case failWrite, failBoth:
			wf = 0
		case failWriteLate:
			wf = 1
		}
		c := NewFakeCarrier(n, wf)
		if w.carrierHook != nil {
			w.carrierHook(c)
		}
		w.carriers = append(w.carriers, c)
		// the environment: one inbound packet per carrier right away, a second one at t=1s
		c.In <- []byte(fmt.Sprintf("in-%d-0", n))
		sc := w.scripts[n]
		go func() {
			time.Sleep(time.Second)
			if sc == failRead || sc == failBoth {
				close(c.ReadFail)
			} else {
				c.In <- []byte(fmt.Sprintf("in-%d-1", n))
			}
		}()
		return c, nil
	}
	if w.dialEnd == dialThenError {
		w.dialFailed = true
		return nil, errors.New("no more proxies")
	}
	// A dial that finds no proxy blocks until the owner gives up.  The real client's dial function
	// ignores ctx and is unblocked by Peers.End(), which SnowflakeConn.Close calls next to closing
	// the RedialPacketConn; the harness models that with the released channel, closed right after
	// Close() is called.  (RedialPacketConn cancels ctx only after the dial has returned.)
	select {
	case <-ctx.Done():
	case <-w.released:
	}
	w.dialFailed = true
	return nil, errors.New("gave up waiting for a proxy")
}

// closeConn is what the owner of the connection does on shutdown.
func (w *redialWorld) closeConn() {
	w.closeCalled = true
	w.c.Close()
	w.relOnce.Do(func() { close(w.released) })
}

// closeChan closes a channel from instrumented code (a close in the uninstrumented harness file would
// not be seen by the scheduler).
func closeChan(ch chan struct{}) { close(ch) }
