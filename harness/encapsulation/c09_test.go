//go:build go1.21

package encapsulation

// C09 — packet framing round-trips under any read fragmentation (DESIGN.md §3 C09).

import (
	"bytes"
	"fmt"
	"io"
	"runtime"
	"testing"

	en "git.torproject.org/pluggable-transports/snowflake.git/v2/verifenum"
)

type op struct {
	data bool
	n    int
}

func (o op) String() string {
	if o.data {
		return fmt.Sprintf("Data(%d)", o.n)
	}
	return fmt.Sprintf("Pad(%d)", o.n)
}

var dataSizes = []int{0, 1, 63, 64, 65, 8191, 8192, 8193}
var padSizes = []int{0, 1, 2, 63, 64, 65, 66, 1024, 1025, 1027, 8193, 8194}

func alphabet() []op {
	var a []op
	for _, n := range dataSizes {
		a = append(a, op{true, n})
	}
	for _, n := range padSizes {
		a = append(a, op{false, n})
	}
	return a
}

var fill = func() []byte {
	b := make([]byte, 1<<20+64)
	for i := range b {
		b[i] = byte(i*7 + i>>8)
	}
	return b
}()

// encode writes the operation sequence with the real encoder and returns the stream and the data
// chunks a reader must see.
func encode(seq []op) ([]byte, [][]byte, error) {
	var buf bytes.Buffer
	var want [][]byte
	for i, o := range seq {
		if o.data {
			d := fill[i*13 : i*13+o.n]
			n, err := WriteData(&buf, d)
			if err != nil {
				return nil, nil, err
			}
			if n < o.n {
				return nil, nil, fmt.Errorf("WriteData returned %d for %d bytes", n, o.n)
			}
			want = append(want, d)
		} else {
			before := buf.Len()
			n, err := WritePadding(&buf, o.n)
			if err != nil {
				return nil, nil, err
			}
			if n != o.n || buf.Len()-before != o.n {
				return nil, nil, fmt.Errorf("WritePadding(%d) wrote %d (returned %d)", o.n, buf.Len()-before, n)
			}
		}
	}
	return buf.Bytes(), want, nil
}

// ---- reference decoder (table driven, independent of ReadData) ---------------------------------

type refResult struct {
	chunks [][]byte
	err    error // io.EOF, io.ErrUnexpectedEOF or ErrTooLong
}

func refDecode(s []byte) refResult {
	var r refResult
	for {
		if len(s) == 0 {
			r.err = io.EOF
			return r
		}
		b := s[0]
		s = s[1:]
		isData := b&0x80 != 0
		more := b&0x40 != 0
		n := int(b & 0x3f)
		for i := 0; more; i++ {
			if i == 2 {
				r.err = ErrTooLong
				return r
			}
			if len(s) == 0 {
				r.err = io.ErrUnexpectedEOF
				return r
			}
			b = s[0]
			s = s[1:]
			more = b&0x80 != 0
			n = n<<7 | int(b&0x7f)
		}
		if len(s) < n {
			r.err = io.ErrUnexpectedEOF
			return r
		}
		if isData {
			r.chunks = append(r.chunks, s[:n])
		}
		s = s[n:]
	}
}

// ---- script-driven reader ----------------------------------------------------------------------

const (
	rdFull = iota
	rdOne
	rdZero
	rdHalf
	nRd
)

type scriptReader struct {
	data     []byte
	pos      int
	tape     *en.Tape
	mode     int // -1: tape driven; otherwise fixed strategy
	lastZero bool
	calls    int
}

const (
	stFull       = iota // as many bytes as asked
	stOneByte           // one byte per call
	stZeroBefore        // a (0, nil) before every delivering read
	stEOFAttach         // full reads, EOF returned together with the last bytes
	stOneEOF            // one byte per call and EOF attached to the last one
	nStrategies
)

var strategyName = []string{"full", "one-byte", "zero-before-every-read", "eof-attached", "one-byte+eof-attached"}

func (r *scriptReader) Read(p []byte) (int, error) {
	r.calls++
	if len(p) == 0 {
		return 0, nil
	}
	rem := len(r.data) - r.pos
	if rem == 0 {
		return 0, io.EOF
	}
	kind := rdFull
	attach := false
	switch r.mode {
	case -1:
		kind = r.tape.Choose(nRd)
		if kind == rdZero && r.lastZero {
			kind = rdFull
		}
	case stOneByte:
		kind = rdOne
	case stZeroBefore:
		if !r.lastZero {
			kind = rdZero
		}
	case stEOFAttach:
		attach = true
	case stOneEOF:
		kind = rdOne
		attach = true
	}
	n := len(p)
	switch kind {
	case rdOne:
		n = 1
	case rdZero:
		r.lastZero = true
		return 0, nil
	case rdHalf:
		n = (len(p) + 1) / 2
	}
	r.lastZero = false
	if n > rem {
		n = rem
	}
	copy(p, r.data[r.pos:r.pos+n])
	r.pos += n
	if r.pos == len(r.data) {
		if r.mode == -1 {
			attach = r.tape.Choose(2) == 1
		}
		if attach {
			return n, io.EOF
		}
	}
	return n, nil
}

// failingReader delivers data and then fails for ever with err (never EOF).
type failingReader struct {
	data    []byte
	pos     int
	oneByte bool
	attach  bool // the error comes together with the last bytes instead of on the call after them
	err     error
}

func (f *failingReader) Read(p []byte) (int, error) {
	if len(p) == 0 {
		return 0, nil
	}
	rem := len(f.data) - f.pos
	if rem == 0 {
		return 0, f.err
	}
	n := len(p)
	if f.oneByte {
		n = 1
	}
	if n > rem {
		n = rem
	}
	copy(p, f.data[f.pos:f.pos+n])
	f.pos += n
	if f.pos == len(f.data) && f.attach {
		return n, f.err
	}
	return n, nil
}

// decodeAll drives the real ReadData to the end.
func decodeAll(r io.Reader) (chunks [][]byte, err error) {
	for i := 0; i < 1<<20; i++ {
		var p []byte
		p, err = ReadData(r)
		if err != nil {
			return
		}
		chunks = append(chunks, p)
	}
	return chunks, fmt.Errorf("decoder did not terminate")
}

func sameChunks(a, b [][]byte) bool {
	if len(a) != len(b) {
		return false
	}
	for i := range a {
		if !bytes.Equal(a[i], b[i]) {
			return false
		}
	}
	return true
}

func describe(seq []op) string {
	s := ""
	for i, o := range seq {
		if i > 0 {
			s += " "
		}
		s += o.String()
	}
	return s
}

func lens(c [][]byte) []int {
	var l []int
	for _, x := range c {
		l = append(l, len(x))
	}
	return l
}

func errClass(err error) string {
	switch err {
	case nil:
		return "nil"
	case io.EOF:
		return "EOF"
	case io.ErrUnexpectedEOF:
		return "UnexpectedEOF"
	case ErrTooLong:
		return "TooLong"
	}
	return "other:" + err.Error()
}

func checkDecode(r *en.R, section string, stream []byte, want refResult, rd *scriptReader, what func() interface{}) {
	var got [][]byte
	var err error
	p, val, stack := en.Try(func() { got, err = decodeAll(rd) })
	if p {
		r.Fail(section+":panic@"+en.PanicSite(stack), "ReadData panicked: "+val+" "+stack, what())
		return
	}
	if !sameChunks(got, want.chunks) || err != want.err {
		kind := "wrong-chunks"
		if sameChunks(got, want.chunks) {
			kind = "wrong-error:" + errClass(err) + "-for-" + errClass(want.err)
		} else if len(got) < len(want.chunks) {
			kind = "lost-data:" + errClass(err)
		}
		r.Fail(section+":"+kind, fmt.Sprintf("decoded chunk lengths %v err=%v; want %v err=%v", lens(got), err, lens(want.chunks), want.err), what())
	}
}

func TestVerifEnum(t *testing.T) {
	r := en.New()
	defer r.Done()
	alpha := alphabet()
	maxLen := 3
	maxDev := 2

	// 1. round trip of operation sequences under every reader behaviour
	r.Begin("roundtrip", "sequences over Data/Pad with boundary sizes x reader strategies {full, 1-byte, zero-before-every-read, EOF attached, 1-byte+EOF attached} x all reader scripts with <=2 deviations from full reads (1 byte / 0 bytes / half / EOF attached)")
	var seqs [][]op
	for n := 0; n <= maxLen; n++ {
		radix := make([]int, n)
		for i := range radix {
			radix[i] = len(alpha)
		}
		o := en.NewOdometer(radix...)
		if n == 0 {
			seqs = append(seqs, nil)
			continue
		}
		for o.Next() {
			s := make([]op, n)
			for i, v := range o.V {
				s[i] = alpha[v]
			}
			seqs = append(seqs, s)
		}
	}
	// the two extreme sizes on their own and next to a small chunk
	big := [][]op{{{true, 1<<20 - 1}}, {{true, 1<<20 - 1}, {true, 1}}, {{false, 70000}, {true, 1<<20 - 1}}, {{true, 16383}, {true, 16384}}}
	seqs = append(seqs, big...)
	for si, seq := range seqs {
		if !r.Mine() {
			continue
		}
		if r.TimeUp() {
			break
		}
		stream, want, err := encode(seq)
		if err != nil {
			r.Fail("roundtrip:encode-error", err.Error(), describe(seq))
			continue
		}
		ref := refResult{chunks: want, err: io.EOF}
		nontrivial := len(seq) > 0
		for st := 0; st < nStrategies; st++ {
			st := st
			r.Case(fmt.Sprintf("rt|%s|%s", describe(seq), strategyName[st]), nontrivial)
			checkDecode(r, "roundtrip", stream, ref, &scriptReader{data: stream, mode: st}, func() interface{} {
				return map[string]interface{}{"ops": describe(seq), "reader": strategyName[st]}
			})
		}
		isBig := si >= len(seqs)-len(big)
		dev := maxDev
		if isBig {
			dev = 1
		} else if r.Thorough() && len(seq) <= 2 {
			dev = 3
		}
		en.ExploreTape(dev, func(tp *en.Tape) {
			rd := &scriptReader{data: stream, mode: -1, tape: tp}
			checkDecode(r, "roundtrip", stream, ref, rd, func() interface{} {
				return map[string]interface{}{"ops": describe(seq), "reader_script": tp.Choices(), "script_legend": "per Read call: 0 full, 1 one byte, 2 zero bytes+nil, 3 half; at the last byte: 1 = EOF attached"}
			})
			r.Case(fmt.Sprintf("rt|%s|%v", describe(seq), tp.Choices()), nontrivial)
		})
		if si%997 == 0 {
			r.Sample(map[string]interface{}{"ops": describe(seq), "stream_len": len(stream)})
		}
	}

	// 2. truncation of valid streams at every byte offset
	r.Begin("truncation", "every truncation point of the encodings of sequences of length <=2 over sizes {0,1,63,64,65,200} and paddings {1,2,65,66,130}; expected: chunks before the cut, EOF at a chunk boundary, UnexpectedEOF inside")
	var small []op
	for _, n := range []int{0, 1, 63, 64, 65, 200} {
		small = append(small, op{true, n})
	}
	for _, n := range []int{1, 2, 65, 66, 130} {
		small = append(small, op{false, n})
	}
	var tseqs [][]op
	for _, a := range small {
		tseqs = append(tseqs, []op{a})
		for _, b := range small {
			tseqs = append(tseqs, []op{a, b})
		}
	}
	tseqs = append(tseqs, []op{{true, 16384}}, []op{{false, 1027}, {true, 8192}})
	for _, seq := range tseqs {
		if !r.Mine() {
			continue
		}
		if r.TimeUp() {
			break
		}
		stream, _, err := encode(seq)
		if err != nil {
			r.Fail("truncation:encode-error", err.Error(), describe(seq))
			continue
		}
		for cut := 0; cut <= len(stream); cut++ {
			if len(stream) > 2000 && cut > 8 && cut < len(stream)-8 && cut%257 != 0 {
				continue
			}
			part := stream[:cut]
			ref := refDecode(part)
			for _, st := range []int{stFull, stOneByte, stEOFAttach} {
				st := st
				r.Case(fmt.Sprintf("tr|%s|%d|%d", describe(seq), cut, st), true)
				checkDecode(r, "truncation", part, ref, &scriptReader{data: part, mode: st}, func() interface{} {
					return map[string]interface{}{"ops": describe(seq), "cut_at": cut, "of": len(stream), "reader": strategyName[st]}
				})
			}
		}
	}

	// 2b. a reader that fails with an error other than EOF at every byte offset
	r.Begin("reader-error", "the same sequences; the reader delivers the stream up to every byte offset k and then fails with a non-EOF error (as a torn network carrier does), either as (0, err) on the next call or attached to the bytes of the read that reaches k; reads before k are full or one byte at a time; oracle: every chunk returned is exactly the next chunk written and lies wholly before k, decoding ends with a non-nil error, and that error is not EOF when k is inside a chunk")
	errCarrier := fmt.Errorf("carrier torn")
	for _, seq := range tseqs {
		if !r.Mine() {
			continue
		}
		if r.TimeUp() {
			break
		}
		stream, want, err := encode(seq)
		if err != nil {
			continue
		}
		for cut := 0; cut <= len(stream); cut++ {
			if len(stream) > 2000 && cut > 8 && cut < len(stream)-8 && cut%257 != 0 {
				continue
			}
			ref := refDecode(stream[:cut]) // chunks wholly before k; ref.err == io.EOF iff k is a chunk boundary
			for mode := 0; mode < 4; mode++ {
				mode := mode
				r.Case(fmt.Sprintf("re|%s|%d|%d", describe(seq), cut, mode), true)
				rd := &failingReader{data: stream[:cut], oneByte: mode&1 != 0, attach: mode&2 != 0, err: errCarrier}
				var got [][]byte
				var derr error
				what := func() interface{} {
					return map[string]interface{}{"ops": describe(seq), "reader_fails_at": cut, "of": len(stream), "one_byte_reads": rd.oneByte, "error_attached_to_last_bytes": rd.attach}
				}
				p, val, stack := en.Try(func() { got, derr = decodeAll(rd) })
				if p {
					r.Fail("reader-error:panic@"+en.PanicSite(stack), "ReadData panicked: "+val+" "+stack, what())
					continue
				}
				bad := len(got) > len(ref.chunks)
				for i := 0; i < len(got) && i < len(ref.chunks); i++ {
					if !bytes.Equal(got[i], ref.chunks[i]) {
						bad = true
					}
				}
				switch {
				case bad:
					r.Fail("reader-error:data-not-written-returned", fmt.Sprintf("ReadData returned chunks of lengths %v although only %v had been delivered intact before the reader failed (written: %v)", lens(got), lens(ref.chunks), lens(want)), what())
				case derr == nil:
					r.Fail("reader-error:no-error", "decoding did not end with an error", what())
				case derr == io.EOF && ref.err != io.EOF:
					r.Fail("reader-error:clean-eof-inside-chunk", "a reader failing inside a chunk was reported as a clean end of stream (io.EOF)", what())
				case len(got) < len(ref.chunks):
					r.Fail("reader-error:lost-data", fmt.Sprintf("ReadData returned %d chunks, %d were delivered intact before the reader failed", len(got), len(ref.chunks)), what())
				}
			}
		}
	}

	// 3. arbitrary byte strings against the reference decoder
	r.Begin("bytestrings", "all byte strings of length <=4 over {00,01,3f,40,41,7f,80,81,bf,c0,c1,ff}, each followed by 0, 1 or 130 zero bytes")
	bytesAlpha := []byte{0x00, 0x01, 0x3f, 0x40, 0x41, 0x7f, 0x80, 0x81, 0xbf, 0xc0, 0xc1, 0xff}
	tails := [][]byte{nil, {0}, make([]byte, 130)}
	for n := 0; n <= 4; n++ {
		radix := make([]int, n)
		for i := range radix {
			radix[i] = len(bytesAlpha)
		}
		o := en.NewOdometer(radix...)
		for (n == 0 && o.Next()) || (n > 0 && o.Next()) {
			if !r.Mine() {
				if n == 0 {
					break
				}
				continue
			}
			s := make([]byte, n)
			for i, v := range o.V {
				s[i] = bytesAlpha[v]
			}
			for ti, tail := range tails {
				in := append(append([]byte{}, s...), tail...)
				ref := refDecode(in)
				for _, st := range []int{stFull, stOneEOF} {
					st := st
					r.Case(fmt.Sprintf("bs|%x|%d|%d", s, ti, st), n > 0)
					checkDecode(r, "bytestrings", in, ref, &scriptReader{data: in, mode: st}, func() interface{} {
						return map[string]interface{}{"bytes_hex": fmt.Sprintf("%x", s), "zero_tail": len(tail), "reader": strategyName[st]}
					})
				}
			}
			if n == 0 {
				break
			}
		}
	}

	// 4. allocation stays within the announced chunk
	if r.Shard0() {
		r.Begin("allocation", "a prefix announcing n bytes followed by a short body: bytes allocated by ReadData <= n + 64 KiB")
		for _, n := range []int{0, 1, 63, 64, 8192, 1 << 16, 1<<20 - 1} {
			pfx, _ := dataPrefixForLength(n)
			in := append(append([]byte{}, pfx...), 1, 2, 3)
			if n < 3 {
				in = in[:len(pfx)+n]
			}
			best := uint64(1 << 62)
			for rep := 0; rep < 3; rep++ {
				var m0, m1 runtime.MemStats
				rd := bytes.NewReader(in)
				runtime.ReadMemStats(&m0)
				ReadData(rd)
				runtime.ReadMemStats(&m1)
				if d := m1.TotalAlloc - m0.TotalAlloc; d < best {
					best = d
				}
			}
			r.Case(fmt.Sprintf("alloc|%d", n), true)
			if best > uint64(n)+64<<10 {
				r.Fail("allocation:exceeds-announced", fmt.Sprintf("announced %d bytes, allocated %d", n, best), n)
			}
		}
	}

	// 4b. every chunk length, not only the prefix-size boundaries: an implementation may treat sizes
	// around an MTU or a buffer size of its own differently
	r.Begin("every-length", "Data(n) for EVERY n in [0,20000] and within 40 of 2^15, 2^16, 2^17, 2^18, 2^19, 2^20-1, written between a 1-byte chunk, a padding and a 2-byte chunk; WriteData must report n bytes and the stream must read back as exactly [1, n, 2] bytes, with a full reader and with a reader that returns (0,nil) before every read")
	var everyN []int
	for n := 0; n <= 20000; n++ {
		everyN = append(everyN, n)
	}
	for _, c := range []int{1 << 15, 1 << 16, 1 << 17, 1 << 18, 1 << 19, 1<<20 - 41} {
		for d := -40; d <= 40; d++ {
			if n := c + d; n < 1<<20 {
				everyN = append(everyN, n)
			}
		}
	}
	for _, n := range everyN {
		if !r.Mine() {
			continue
		}
		if r.TimeUp() {
			break
		}
		seq := []op{{true, 1}, {true, n}, {false, 3}, {true, 2}}
		stream, want, err := encode(seq)
		r.CaseN(1)
		if err != nil {
			r.Fail("every-length:encode-error", err.Error(), describe(seq))
			continue
		}
		ref := refResult{chunks: want, err: io.EOF}
		for _, st := range []int{stFull, stZeroBefore} {
			st := st
			checkDecode(r, "every-length", stream, ref, &scriptReader{data: stream, mode: st}, func() interface{} {
				return map[string]interface{}{"ops": describe(seq), "reader": strategyName[st]}
			})
		}
	}

	// 5. WritePadding(n) occupies exactly n bytes and decodes to nothing
	r.Begin("padding", "WritePadding(n) for every n in [0,70000]: exactly n bytes, decoded as no data then EOF")
	var pb bytes.Buffer
	for n := 0; n <= 70000; n++ {
		if !r.Mine() {
			continue
		}
		pb.Reset()
		w, err := WritePadding(&pb, n)
		if err != nil || w != n || pb.Len() != n {
			r.Fail("padding:wrong-size", fmt.Sprintf("WritePadding(%d) returned %d,%v and wrote %d bytes", n, w, err, pb.Len()), n)
			continue
		}
		p, err := ReadData(bytes.NewReader(pb.Bytes()))
		if p != nil || err != io.EOF {
			r.Fail("padding:visible", fmt.Sprintf("padding of size %d decoded as %d bytes of data, err=%v", n, len(p), err), n)
		}
	}
	_, ns := r.Shard()
	r.CaseN(int64(70001 / ns))

	// 6. MaxDataForSize never exceeds its budget
	r.Begin("budget", "MaxDataForSize(n) for every n in [1, 2^20+16]: prefix + data <= n, measured with the real WriteData on a counting writer")
	var cw countWriter
	for n := 1; n <= 1<<20+16; n++ {
		if !r.Mine() {
			continue
		}
		m := MaxDataForSize(n)
		if m < 0 || m > len(fill) {
			r.Fail("budget:out-of-range", fmt.Sprintf("MaxDataForSize(%d) = %d", n, m), n)
			continue
		}
		cw.n = 0
		tot, err := WriteData(&cw, fill[:m])
		if err != nil || tot != cw.n || cw.n > n {
			r.Fail("budget:exceeded", fmt.Sprintf("MaxDataForSize(%d) = %d encodes to %d bytes (err=%v)", n, m, cw.n, err), n)
		}
	}
	r.CaseN(int64((1<<20 + 16) / ns))
}

type countWriter struct{ n int }

func (c *countWriter) Write(p []byte) (int, error) { c.n += len(p); return len(p), nil }
