//go:build go1.21

package main

// C11 — endpoint equivalence over poll sizes: the AMP endpoint returns, armored, exactly the poll
// response the POST endpoint gives for the same poll, for polls from a few bytes up to the 100 000
// byte limit of the POST endpoint (sequential: a broker without proxies answers at once).

import (
	"bytes"
	"fmt"
	"io"
	"log"
	"net/http"
	"net/http/httptest"
	"strings"
	"testing"

	"git.torproject.org/pluggable-transports/snowflake.git/v2/common/amp"
	en "git.torproject.org/pluggable-transports/snowflake.git/v2/verifenum"
)

func TestVerifEnumC11Endpoints(t *testing.T) {
	log.SetOutput(io.Discard)
	r := en.New()
	defer r.Done()
	r.Begin("endpoint-equivalence-sizes", "client polls (version line + JSON with a padded offer) of exactly n bytes for n in {40, 64, 100, every 97th in [1000, 100000], 74950..75050 (where the base64url form reaches 100 000 bytes), 99950..100000} x NAT {unknown, unrestricted, invalid} through POST /client and through GET /amp/client/<path> on a broker without proxies: same status class and, de-armored, the same response body; plus 14 small polls that differ in content (listed / unlisted / malformed fingerprint, version, missing or null members, legacy body)")
	var sizes []int
	sizes = append(sizes, 40, 64, 100)
	for n := 1000; n <= 100000; n += 97 {
		sizes = append(sizes, n)
	}
	// where the base64url form of the poll (4/3 of its size, plus the path padding) reaches the limit
	for n := 74950; n <= 75050; n++ {
		sizes = append(sizes, n)
	}
	for n := 99950; n <= 100000; n++ {
		sizes = append(sizes, n)
	}
	ctx := NewBrokerContext(log.New(io.Discard, "", 0))
	ipc := &IPC{ctx}
	// polls that differ in content rather than size: the AMP endpoint must agree with the POST endpoint on each
	contents := []struct{ name, poll string }{
		{"plain", "1.0\n{\"offer\":\"o\",\"nat\":\"unknown\"}"},
		{"default-fingerprint-spelled-out", "1.0\n{\"offer\":\"o\",\"nat\":\"unknown\",\"fingerprint\":\"2B280B23E1107BB62ABFC40DDCC8824814F80A72\"}"},
		{"fingerprint-of-an-unlisted-bridge", "1.0\n{\"offer\":\"o\",\"nat\":\"unknown\",\"fingerprint\":\"0123456789ABCDEF0123456789ABCDEF01234567\"}"},
		{"malformed-fingerprint", "1.0\n{\"offer\":\"o\",\"nat\":\"unknown\",\"fingerprint\":\"zz\"}"},
		{"short-fingerprint", "1.0\n{\"offer\":\"o\",\"nat\":\"unknown\",\"fingerprint\":\"2B280B23\"}"},
		{"unknown-version", "2.0\n{\"offer\":\"o\",\"nat\":\"unknown\"}"},
		{"no-offer", "1.0\n{\"nat\":\"unknown\"}"},
		{"null-body", "1.0\nnull"},
		{"garbage-body", "1.0\n{\"offer\":"},
		{"empty", ""},
		{"version-line-only", "1.0\n"},
		{"legacy-body", "{\"type\":\"offer\",\"sdp\":\"x\"}"},
		{"unknown-member", "1.0\n{\"offer\":\"o\",\"nat\":\"unknown\",\"extra\":1}"},
		{"restricted-nat", "1.0\n{\"offer\":\"o\",\"nat\":\"restricted\"}"},
	}
	for _, c := range contents {
		if !r.Shard0() {
			break
		}
		r.Case("eqc|"+c.name, true)
		compareEndpoints(r, ipc, []byte(c.poll), map[string]interface{}{"poll": c.name, "poll_text": c.poll})
	}
	for _, n := range sizes {
		for _, nat := range []string{"unknown", "unrestricted", "bogus"} {
			if !r.Mine() {
				continue
			}
			head := "1.0\n{\"offer\":\""
			tail := "\",\"nat\":\"" + nat + "\"}"
			pad := n - len(head) - len(tail)
			if pad < 0 {
				continue
			}
			poll := []byte(head + strings.Repeat("o", pad) + tail)
			r.Case(fmt.Sprintf("eq|%d|%s", n, nat), true)
			compareEndpoints(r, ipc, poll, map[string]interface{}{"poll_bytes": n, "nat": nat})
		}
	}
}

// compareEndpoints sends one poll through POST /client and through GET /amp/client/<path>.
func compareEndpoints(r *en.R, ipc *IPC, poll []byte, in map[string]interface{}) {
	// POST
	rec1 := httptest.NewRecorder()
	req1, _ := http.NewRequest("POST", "http://broker/client", bytes.NewReader(poll))
	var p1, p2 bool
	var v1, v2, st1, st2 string
	p1, v1, st1 = en.Try(func() { clientOffers(ipc, rec1, req1) })
	// AMP
	rec2 := httptest.NewRecorder()
	req2, _ := http.NewRequest("GET", "http://broker/amp/client/"+amp.EncodePath(poll), nil)
	p2, v2, st2 = en.Try(func() { ampClientOffers(ipc, rec2, req2) })
	if p1 || p2 {
		r.Fail("endpoints:panic", "a handler panicked: "+v1+v2+" "+st1+st2, in)
		return
	}
	post := rec1.Body.Bytes()
	var ampBody []byte
	var derr error
	if rec2.Code == 200 {
		dec, e := amp.NewArmorDecoder(bytes.NewReader(rec2.Body.Bytes()))
		if e != nil {
			derr = e
		} else {
			ampBody, derr = io.ReadAll(dec)
		}
	}
	switch {
	case rec1.Code == 200 && (rec2.Code != 200 || derr != nil):
		r.Fail("endpoints:amp-fails-where-post-answers", fmt.Sprintf("POST answered 200 %q, AMP status %d (de-armoring error %v)", show200(post), rec2.Code, derr), in)
	case rec1.Code == 200 && !bytes.Equal(post, ampBody):
		r.Fail("endpoints:different-response", fmt.Sprintf("POST answered %q, AMP (de-armored) %q", show200(post), show200(ampBody)), in)
	case rec1.Code != 200 && rec2.Code == 200 && derr == nil && !bytes.Contains(ampBody, []byte("\"error\"")):
		// POST refuses (e.g. invalid NAT -> 400): the AMP endpoint, which cannot signal HTTP errors through a
		// cache, must at least not report success
		r.Fail("endpoints:amp-answers-where-post-refuses", fmt.Sprintf("POST status %d, AMP answered %q", rec1.Code, show200(ampBody)), in)
	}
}

func show200(b []byte) string {
	if len(b) > 200 {
		return string(b[:200]) + "..."
	}
	return string(b)
}
