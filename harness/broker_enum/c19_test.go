//go:build go1.21

package main

// C19 — binning of published counts: binCount(n) == ceil8(n) (ENUM part).

import (
	"fmt"
	"testing"

	en "git.torproject.org/pluggable-transports/snowflake.git/v2/verifenum"
)

func TestVerifEnumC19Bin(t *testing.T) {
	r := en.New()
	defer r.Done()
	r.Begin("binCount", "binCount(n) for every n in [0, 2^20] and {2^31+-1, 2^32+-1, 2^52, 2^53-8..2^53}: equals (n+7)/8*8, i.e. >= n, multiple of 8, < n+8")
	chk := func(n uint) {
		got := binCount(n)
		want := (n + 7) / 8 * 8
		if got != want {
			kind := "too-high"
			if got < n {
				kind = "too-low"
			} else if got%8 != 0 {
				kind = "not-multiple-of-8"
			}
			r.Fail("binCount:"+kind, fmt.Sprintf("binCount(%d) = %d, want %d", n, got, want), n)
		}
	}
	var cnt int64
	for n := uint(0); n <= 1<<20; n++ {
		if !r.Mine() {
			continue
		}
		chk(n)
		cnt++
	}
	r.CaseN(cnt)
	if r.Shard0() {
		for _, n := range []uint{1<<31 - 1, 1 << 31, 1<<31 + 1, 1<<32 - 1, 1 << 32, 1<<32 + 1, 1 << 52, 1<<53 - 8, 1<<53 - 7, 1<<53 - 1, 1 << 53} {
			chk(n)
			r.Case(fmt.Sprint("big|", n), true)
		}
		r.Sample(map[string]uint{"n": 9, "binCount": binCount(9)})
	}
}
