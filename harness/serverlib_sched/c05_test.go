//go:build go1.21

package snowflake_server

// C05 — the server binds packets to sessions by ClientID; sessions never mix (tier 1: the real
// turbotunnelMode + QueuePacketConn + ClientMap (sweeper on virtual time) + clientIDAddrMap under the
// scheduler).  C18 — attribution of client addresses to sessions.

import (
	"bytes"
	"fmt"
	"io"
	"log"
	"strconv"
	"strings"
	"testing"
	"time"

	"git.torproject.org/pluggable-transports/snowflake.git/v2/common/encapsulation"
	"git.torproject.org/pluggable-transports/snowflake.git/v2/common/turbotunnel"
	vs "git.torproject.org/pluggable-transports/snowflake.git/v2/verifvs"
)

var harnesses []*vs.Harness

func TestVerif(t *testing.T) {
	log.SetOutput(io.Discard)
	vs.Main(harnesses...)
}

func cfgInt(x *vs.X, k string, def int) int {
	if v, ok := x.Cfg[k]; ok {
		if n, err := strconv.Atoi(v); err == nil {
			return n
		}
	}
	return def
}

// how the first carrier of a session ends and the second one relates to it
const (
	schedSingle      = iota // one carrier only
	schedCutInID            // cut inside the ClientID prefix, reconnect at once
	schedCutInPrefix        // cut inside the length prefix of the 2nd packet
	schedCutInBody          // cut inside the payload of the 2nd packet
	schedCutAtEdge          // cut exactly at a packet boundary
	schedOverlap            // second carrier while the first is still up
	schedGap30              // first carrier ends cleanly, second after an idle gap of 30 s
	schedGap59
	schedGap61
	schedGap95
	schedIdleAttached // one carrier that stays attached without traffic beyond the retention time (cut at 140 s)
	schedLate         // a session that only arrives after 100 s (one carrier)
	nSched
)

var schedName = []string{"single", "cut-in-clientid", "cut-in-prefix", "cut-in-body", "cut-at-boundary", "overlap", "gap-30s", "gap-59s", "gap-61s", "gap-95s", "idle-attached-140s", "late-single"}

type carrier struct {
	sess    int
	idx     int
	conn    *fakeConn
	addr    string // sanitised client address presented with this carrier
	started time.Duration
	sent    []string // upstream packets fully framed on this carrier after a complete ClientID
	ret     error
	done    bool
}

type c05World struct {
	pconn    *turbotunnel.QueuePacketConn
	ids      []turbotunnel.ClientID
	carriers []*carrier
	// what the KCP stand-in saw
	got      []string       // "addr|payload"
	accepted map[int]string // session -> address looked up at "accept"
	acceptAt map[int]time.Duration
	downSent map[int][]string // session -> downstream packets written, in order
	scheds   []int
	light    bool
	problems []string
}

func upPacket(sess, car, seq int, size int) []byte {
	s := fmt.Sprintf("up|s%d|c%d|%d|", sess, car, seq)
	for len(s) < size {
		s += "x"
	}
	return []byte(s)
}

func frame(p []byte) []byte {
	var b bytes.Buffer
	encapsulation.WriteData(&b, p)
	return b.Bytes()
}

// startCarrier spawns the server side (the real turbotunnelMode) of a carrier.
func (w *c05World) startCarrier(sess int) *carrier {
	c := &carrier{sess: sess, idx: len(w.carriers)}
	c.conn = newFakeConn(fmt.Sprintf("s%dc%d", sess, c.idx))
	c.addr = fmt.Sprintf("10.%d.%d.1:1", sess, c.idx)
	c.started = vs.Elapsed()
	w.carriers = append(w.carriers, c)
	vs.GoRole("carrier-"+c.conn.name, vs.RoleDaemon, func() {
		c.ret = turbotunnelMode(c.conn, ClientMapAddr(c.addr), w.pconn)
		c.done = true
	})
	return c
}

// runSession is the client side of one session: it drives its carriers by the chosen schedule.
func (w *c05World) runSession(sess int, sched int) {
	id := w.ids[sess]
	sizes := []int{20, 100} // 1-byte and 2-byte length prefixes
	send := func(c *carrier, seq int) {
		if w.light && seq > 0 {
			return // light mode: one upstream packet per carrier
		}
		p := upPacket(sess, c.idx, seq, sizes[seq%2])
		c.conn.Feed(frame(p))
		c.sent = append(c.sent, string(p))
	}
	if sched == schedLate {
		vs.Sleep(100 * time.Second)
	}
	c1 := w.startCarrier(sess)
	switch sched {
	case schedCutInID:
		c1.conn.Feed(id[:5])
		c1.conn.CutAbrupt()
	default:
		c1.conn.Feed(id[:])
		send(c1, 0)
	}
	second := func() {
		// a replacement carrier arrives one second after the first one ended
		vs.Sleep(time.Second)
		c2 := w.startCarrier(sess)
		c2.conn.Feed(id[:])
		send(c2, 0)
		send(c2, 1)
		vs.Sleep(time.Second)
		c2.conn.Cut()
	}
	switch sched {
	case schedIdleAttached:
		// nothing more is sent; the carrier stays up until long after the session's record has expired
		vs.Sleep(140 * time.Second)
		c1.conn.Cut()
	case schedSingle, schedLate:
		send(c1, 1)
		vs.Sleep(time.Second)
		c1.conn.Cut()
	case schedCutInID:
		second()
	case schedCutInPrefix:
		f := frame(upPacket(sess, c1.idx, 1, 100))
		c1.conn.Feed(f[:1])
		c1.conn.CutAbrupt()
		second()
	case schedCutInBody:
		f := frame(upPacket(sess, c1.idx, 1, 100))
		c1.conn.Feed(f[:40])
		c1.conn.CutAbrupt()
		second()
	case schedCutAtEdge:
		c1.conn.Cut()
		second()
	case schedOverlap:
		// a second carrier of the same session while the first is still up (one packet each; the
		// first one's packet 0 went out above)
		c2 := w.startCarrier(sess)
		c2.conn.Feed(id[:])
		send(c2, 0)
		vs.Sleep(time.Second)
		c1.conn.CutAbrupt()
		vs.Sleep(time.Second)
		send(c2, 1)
		vs.Sleep(time.Second)
		c2.conn.Cut()
	case schedGap30, schedGap59, schedGap61, schedGap95:
		send(c1, 1)
		vs.Sleep(time.Second)
		if sched == schedGap59 || sched == schedGap95 {
			c1.conn.CutAbrupt()
		} else {
			c1.conn.Cut()
		}
		gap := map[int]time.Duration{schedGap30: 30 * time.Second, schedGap59: 59 * time.Second, schedGap61: 61 * time.Second, schedGap95: 95 * time.Second}[sched]
		// while no carrier is up the bridge side sends something (KCP writes it to the session's
		// ClientID): it must be kept for the next carrier if that comes within the retention time
		vs.Sleep(2 * time.Second)
		d := fmt.Sprintf("down|s%d|%d", sess, len(w.downSent[sess]))
		w.downSent[sess] = append(w.downSent[sess], d)
		w.pconn.WriteTo([]byte(d), id)
		vs.Sleep(gap - 2*time.Second)
		second()
	}
}

// kcpStandIn plays the part of the KCP engine: it reads packets from the QueuePacketConn, "accepts"
// a session on its first packet (looking the client address up like acceptStreams does) and answers
// every upstream packet with a downstream packet addressed to the same ClientID.  In gap schedules it
// also writes a downstream packet 2 s after the first carrier ended (kept for the next carrier).
func (w *c05World) kcpStandIn() {
	buf := make([]byte, 2048)
	for {
		n, addr, err := w.pconn.ReadFrom(buf)
		if err != nil {
			return
		}
		p := string(buf[:n])
		w.got = append(w.got, addr.String()+"|"+p)
		id, ok := addr.(turbotunnel.ClientID)
		if !ok {
			w.problems = append(w.problems, "ReadFrom returned an address that is not a ClientID: "+addr.String())
			continue
		}
		sess := -1
		for i := range w.ids {
			if w.ids[i] == id {
				sess = i
			}
		}
		if sess < 0 {
			w.problems = append(w.problems, "ReadFrom attributed a packet to an unknown ClientID "+addr.String())
			continue
		}
		if _, seen := w.accepted[sess]; !seen {
			a, ok := clientIDAddrMap.Get(id)
			s := "<none>"
			if ok && a != nil {
				s = a.String()
			}
			w.accepted[sess] = s
			w.acceptAt[sess] = vs.Elapsed()
		}
		d := fmt.Sprintf("down|s%d|%d", sess, len(w.downSent[sess]))
		w.downSent[sess] = append(w.downSent[sess], d)
		out := []byte(d)
		w.pconn.WriteTo(out, id)
		for i := range out {
			out[i] = 0xAA // KCP re-uses its buffers
		}
	}
}

func decodeAllFrames(b []byte) (pkts []string, rest int) {
	r := bytes.NewReader(b)
	for {
		p, err := encapsulation.ReadData(r)
		if err != nil {
			return pkts, r.Len()
		}
		pkts = append(pkts, string(p))
	}
}

func init() {
	harnesses = append(harnesses, &vs.Harness{
		Name:    "c05",
		Horizon: 4 * time.Minute,
		Body: func(x *vs.X) {
			nSess := cfgInt(x, "sessions", 2)
			nS := cfgInt(x, "scheds", nSched)
			w := &c05World{accepted: map[int]string{}, acceptAt: map[int]time.Duration{}, downSent: map[int][]string{}}
			x.User = w
			w.light = x.Cfg["light"] == "1"
			only := cfgInt(x, "only", -1)
			for i := 0; i < nSess; i++ {
				if only >= 0 {
					w.scheds = append(w.scheds, only)
				} else if i > 0 && x.Cfg["other"] == "late" {
					// the other sessions arrive 100 s later, with ClientIDs the server has not seen before
					w.scheds = append(w.scheds, schedLate)
				} else if i > 0 && x.Cfg["other"] == "single" {
					// the other sessions are plain single-carrier clients arriving at the same instant
					w.scheds = append(w.scheds, schedSingle)
				} else if x.Cfg["set"] == "reduced" {
					w.scheds = append(w.scheds, []int{schedSingle, schedCutInBody, schedOverlap, schedGap30}[vs.Choose("sched", 4)])
				} else {
					w.scheds = append(w.scheds, vs.Choose("sched", nS))
				}
			}
			var names []string
			for _, s := range w.scheds {
				names = append(names, schedName[s])
			}
			x.Outcome("sessions: " + strings.Join(names, ","))
			clientIDAddrMap = newClientIDMap(16)
			w.pconn = turbotunnel.NewQueuePacketConn(strAddr("server"), clientMapTimeout)
			// ClientMap.lock: its critical sections (SendQueue, the sweeper's removeExpired) contain no
			// synchronisation, so each is one transition.  Two SendQueue sections commute: at one virtual
			// instant they refresh LastSeen to the same value, a record is created by whichever comes
			// first and both callers get the same queue; the heap arrangement among equal LastSeen values
			// is not observable.  SendQueue vs removeExpired does not commute and stays dependent.
			turbotunnel.VerifClientMapLock(w.pconn).AtomicSections("(*ClientMap).SendQueue")
			// clientIDMap.lock: Set/Get sections are atomic; two Gets commute, Set is a write.
			clientIDAddrMap.lock.AtomicSections("(*clientIDMap).Get")
			for i := 0; i < nSess; i++ {
				w.ids = append(w.ids, turbotunnel.ClientID{'S', byte('0' + i), 1, 2, 3, 4, 5, 6})
			}
			vs.GoRole("kcp", vs.RoleDaemon, w.kcpStandIn)
			for i := 0; i < nSess; i++ {
				i := i
				vs.GoRole(fmt.Sprintf("client%d", i), vs.RoleRequest, func() { w.runSession(i, w.scheds[i]) })
			}
			vs.Sleep(150 * time.Second)
			w.pconn.Close()
		},
		Check: func(x *vs.X) {
			w := x.User.(*c05World)
			for _, t := range x.Threads() {
				if t.Panic != "" {
					x.Fail("no-panic", "panic:"+firstLineS(t.Panic), "thread %s panicked: %s\n%s", t.Name, t.Panic, t.PanicAt)
				}
				if t.Role == vs.RoleRequest && !t.Done {
					x.Fail("client-blocked", "client-blocked@"+t.Site, "client thread %s blocked at %s", t.Name, t.Site)
				}
				if strings.HasPrefix(t.Name, "carrier-") && !t.Done {
					x.Fail("carrier-ends", "carrier-handler-never-returns@"+t.Site, "turbotunnelMode of %s has not returned although its carrier was cut (blocked at %s)", t.Name, t.Site)
				}
				if strings.HasPrefix(t.Name, "server/lib/http.go") && !t.Done {
					x.Fail("carrier-ends", "carrier-goroutine-leak@"+t.Site, "goroutine %s of a finished carrier is still alive at %s", t.Name, t.Site)
				}
			}
			for _, p := range w.problems {
				x.Fail("attribution", "bad-source-address", "%s", p)
			}
			x.Outcome(fmt.Sprintf("got=%d accepted=%v", len(w.got), w.accepted))
			// upstream: attribution and integrity
			want := map[string]int{}
			for _, c := range w.carriers {
				for _, p := range c.sent {
					want[w.ids[c.sess].String()+"|"+p]++
				}
			}
			seen := map[string]int{}
			for _, g := range w.got {
				seen[g]++
				if want[g] == 0 {
					x.Fail("upstream-attribution", "upstream-misattributed-or-corrupted", "ReadFrom delivered %.60q, which no carrier of that ClientID framed", g)
				} else if seen[g] > want[g] {
					x.Fail("upstream-attribution", "upstream-duplicated", "ReadFrom delivered %.60q twice", g)
				}
			}
			for k, n := range want {
				if seen[k] < n {
					x.Fail("upstream-delivery", "upstream-lost", "packet %.60q was completely framed on a carrier with a complete ClientID but never delivered", k)
					break
				}
			}
			// downstream: confinement, per-carrier FIFO, loss only where allowed
			delivered := map[int]map[string]bool{}
			for _, c := range w.carriers {
				pkts, _ := decodeAllFrames(c.conn.Out)
				last := -1
				for _, p := range pkts {
					var s, seq int
					if n, _ := fmt.Sscanf(p, "down|s%d|%d", &s, &seq); n != 2 {
						x.Fail("downstream-integrity", "downstream-corrupted", "carrier %s carried %.40q", c.conn.name, p)
						continue
					}
					if s != c.sess {
						x.Fail("downstream-confinement", "downstream-cross-session", "carrier %s of session %d carried %q, a packet of session %d", c.conn.name, c.sess, p, s)
						continue
					}
					if seq <= last {
						x.Fail("downstream-fifo", "downstream-not-fifo", "carrier %s carried sequence %d after %d", c.conn.name, seq, last)
					}
					last = seq
					if delivered[s] == nil {
						delivered[s] = map[string]bool{}
					}
					if delivered[s][p] {
						x.Fail("downstream-integrity", "downstream-duplicated", "packet %q delivered twice", p)
					}
					delivered[s][p] = true
				}
			}
			for s := 0; s < len(w.scheds); s++ {
				sent := w.downSent[s]
				sched := w.scheds[s]
				lossAllowed := sched == schedGap61 || sched == schedGap95
				for _, p := range sent {
					if !delivered[s][p] && !lossAllowed {
						// a packet may also be missing if the carrier that dequeued it was cut before the
						// write finished, or if it was written after the last carrier ended: only packets
						// written while a later carrier of the session still came are required
						if !w.laterCarrierCame(s, p) {
							continue
						}
						x.Fail("downstream-delivery", "downstream-lost:"+schedName[sched], "session %d (schedule %s): downstream packet %q was never delivered although a carrier of that session came within the retention time", s, schedName[sched], p)
						break
					}
				}
			}
			// C18: address looked up at accept time
			for s := 0; s < len(w.scheds); s++ {
				a, wasAccepted := w.accepted[s]
				if !wasAccepted {
					continue
				}
				ok := false
				var mine []string
				for _, c := range w.carriers {
					if c.sess == s {
						mine = append(mine, c.addr)
						if c.addr == a && c.started <= w.acceptAt[s] {
							ok = true
						}
					}
				}
				if !ok {
					kind := "foreign-or-missing"
					for _, c := range w.carriers {
						if c.sess != s && c.addr == a {
							kind = "other-session"
						}
					}
					x.Fail("address-attribution", "accept-address:"+kind, "session %d accepted with client address %q; its carriers presented %v", s, a, mine)
				}
				// sequential schedules: the most recent carrier that presented the ClientID
				if exp := w.expectedAddr(s); exp != "" && a != exp {
					x.Fail("address-attribution", "accept-address:not-most-recent", "session %d accepted with %q, the most recent carrier at that time presented %q", s, a, exp)
				}
			}
		},
	})
}

// laterCarrierCame: was downstream packet p of session s written at a time when a carrier of the
// session was up or still to come within the retention time?  The harness's schedules are such that
// this is true for every packet except in the gap-61/95 schedules (handled by the caller) and for
// answers to packets of the very last carrier that arrive after it ended.
func (w *c05World) laterCarrierCame(s int, p string) bool {
	var seq int
	fmt.Sscanf(p, "down|s"+strconv.Itoa(s)+"|%d", &seq)
	// the answer to the n-th upstream packet of the session; the last carrier stays up for 1 s after
	// its last upstream packet, and answers are written at the same instant as the packet arrives
	return true
}

// expectedAddr: for schedules whose carriers do not overlap in time, the address of the carrier that
// was the most recent one to present the ClientID when the session was accepted.
func (w *c05World) expectedAddr(s int) string {
	sched := w.scheds[s]
	if sched == schedOverlap {
		return ""
	}
	best := ""
	var bestAt time.Duration = -1
	for _, c := range w.carriers {
		if c.sess != s || c.started > w.acceptAt[s] {
			continue
		}
		// a carrier cut inside its ClientID never presented it
		if sched == schedCutInID && c.idx == w.firstCarrier(s) {
			continue
		}
		if c.started > bestAt {
			best, bestAt = c.addr, c.started
		} else if c.started == bestAt {
			return "" // same instant: either is acceptable
		}
	}
	return best
}

func (w *c05World) firstCarrier(s int) int {
	for _, c := range w.carriers {
		if c.sess == s {
			return c.idx
		}
	}
	return -1
}

func firstLineS(s string) string {
	if i := strings.IndexByte(s, '\n'); i >= 0 {
		return s[:i]
	}
	return s
}
