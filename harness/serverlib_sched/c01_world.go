//go:build go1.21

package snowflake_server

// World of the C01 tier-1 harness (instrumented add-file): the client's real RedialPacketConn +
// encapsulationPacketConn, a transparent proxy relay with scripted faults, the server's real
// turbotunnelMode + QueuePacketConn, and a stop-and-wait ARQ driver on both ends standing in for KCP.

import (
	"bytes"
	"context"
	"errors"
	"fmt"
	"io"
	"net"
	"sync"
	"time"

	snowflake_client "git.torproject.org/pluggable-transports/snowflake.git/v2/client/lib"
	"git.torproject.org/pluggable-transports/snowflake.git/v2/common/turbotunnel"
)

// fault kinds for one carrier write
const (
	fNone      = iota
	fCutBefore // the carrier dies before any byte of this write is delivered
	fCutInside // half of the bytes are delivered, then the carrier dies
	fCutAfter  // all bytes are delivered, then the carrier dies
	fFreeze    // from this write on the carrier delivers nothing and reports no error
	nFaultKinds
)

var faultName = []string{"none", "cut-before", "cut-inside", "cut-after", "freeze"}

type faultSpec struct {
	up    bool // direction: client->server (true) or server->client
	index int  // the index-th write in that direction (counted over all carriers)
	kind  int
}

type c01Carrier struct {
	idx     int
	srv     *fakeConn
	w       *c01World
	dead    chan struct{} // closed when the carrier died (cut, closed by either end)
	once    sync.Once
	frozen  bool
	rbuf    []byte
	handler chan struct{} // closed when the server-side handler returned
	peer    *snowflake_client.WebRTCPeer
}

func (c *c01Carrier) kill() { c.killWith(false) }

// killWith ends the carrier; abrupt: the server's reader gets a non-EOF error (torn TCP connection,
// no WebSocket close frame) instead of a clean end of stream.
func (c *c01Carrier) killWith(abrupt bool) {
	c.once.Do(func() {
		close(c.dead)
		if abrupt {
			c.srv.CutEOFAbrupt()
		} else {
			c.srv.CutEOF()
		}
	})
}

// clientEnd is what dialContext gets from Peers.Pop in production (a WebRTCPeer): writes are
// messages relayed by the proxy to the server's WebSocket, reads are the server's bytes.
type clientEnd struct{ c *c01Carrier }

func (e clientEnd) Write(b []byte) (int, error) {
	c := e.c
	select {
	case <-c.dead:
		return 0, errors.New("carrier is gone")
	default:
	}
	w := c.w
	kind := w.faultFor(true)
	if c.frozen {
		return len(b), nil
	}
	switch kind {
	case fCutBefore:
		c.kill()
		return 0, errors.New("carrier is gone")
	case fCutInside:
		// a connection torn inside a message: the server has read part of it and then gets an error
		c.srv.TryFeed(b[:len(b)/2], c.dead)
		c.killWith(true)
		return 0, errors.New("carrier is gone")
	case fCutAfter:
		c.srv.TryFeed(b, c.dead)
		c.kill()
		return len(b), nil
	case fFreeze:
		c.frozen = true
		return len(b), nil
	}
	if !c.srv.TryFeed(b, c.dead) {
		return 0, errors.New("carrier is gone")
	}
	return len(b), nil
}

func (e clientEnd) Read(p []byte) (int, error) {
	c := e.c
	if len(c.rbuf) == 0 {
		select {
		case <-c.dead:
			return 0, io.EOF
		case chunk := <-c.srv.out:
			c.rbuf = chunk
			if c.peer != nil {
				// pion's OnMessage: hand over the data, then refresh lastReceive
				snowflake_client.VerifNoteReceive(c.peer)
			}
		}
	}
	n := copy(p, c.rbuf)
	c.rbuf = c.rbuf[n:]
	return n, nil
}

func (e clientEnd) Close() error {
	e.c.kill()
	return nil
}

// c01ServerConn is the server's end of the carrier with downstream fault injection.
type c01ServerConn struct {
	*fakeConn
	c *c01Carrier
}

func (s c01ServerConn) Write(p []byte) (int, error) {
	c := s.c
	select {
	case <-c.dead:
		return 0, errors.New("carrier is gone")
	default:
	}
	kind := c.w.faultFor(false)
	if c.frozen {
		return len(p), nil
	}
	switch kind {
	case fCutBefore:
		c.kill()
		return 0, errors.New("carrier is gone")
	case fCutInside:
		s.fakeConn.Write(p[:len(p)/2])
		c.kill()
		return len(p) / 2, errors.New("carrier is gone")
	case fCutAfter:
		s.fakeConn.Write(p)
		c.kill()
		return len(p), nil
	case fFreeze:
		c.frozen = true
		return len(p), nil
	}
	return s.fakeConn.Write(p)
}

func (s c01ServerConn) Close() error {
	s.fakeConn.Close()
	s.c.kill()
	return nil
}

type c01World struct {
	id           turbotunnel.ClientID
	pconn        *turbotunnel.QueuePacketConn
	redial       *turbotunnel.RedialPacketConn
	faults       []faultSpec
	nUp          int
	nDown        int
	carriers     []*c01Carrier
	standby      int           // carriers available in total
	dialDelay    time.Duration // delay before a replacement carrier is available
	dialCalls    int
	nPayloads    int
	closing      bool
	released     chan struct{}
	lastFault    time.Duration
	dialFailedAt time.Duration

	// ARQ state
	sentC, sentS   map[string]bool // every data packet handed to WriteTo by the client / server driver
	ackedC, ackedS map[string]bool // every acknowledgement packet sent by the client / server driver
	appC2S, appS2C [][]byte        // payloads delivered to the application in order
	badPackets     []string
	redialErr      string
	ackC, ackS     chan int
}

func (w *c01World) faultFor(up bool) int {
	idx := w.nDown
	if up {
		idx = w.nUp
		w.nUp++
	} else {
		w.nDown++
	}
	for _, f := range w.faults {
		if f.up == up && f.index == idx {
			w.lastFault = time.Duration(nowNanos())
			return f.kind
		}
	}
	return fNone
}

// startStaleTimer: a frozen carrier is closed by the client's staleness check (20 s without data).
func (w *c01World) startStaleTimer(c *c01Carrier) {
	go func() {
		select {
		case <-time.After(20 * time.Second):
			c.kill()
		case <-c.dead:
		}
	}()
}

// collector is the SnowflakeCollector the real dialContext closure pops peers from: peers become
// available by script (standby count, replacement delay); when none is left Pop blocks until the
// collector melts, as Peers.Pop does.
type c01Collector struct{ w *c01World }

func (c c01Collector) Collect() (*snowflake_client.WebRTCPeer, error) {
	return nil, errors.New("unused")
}
func (c c01Collector) Melted() <-chan struct{} { return c.w.released }

func (c c01Collector) Pop() *snowflake_client.WebRTCPeer {
	w := c.w
	n := w.dialCalls
	w.dialCalls++
	if n > 0 && w.dialDelay > 0 {
		select {
		case <-time.After(w.dialDelay):
		case <-w.released:
		}
	}
	if n >= w.standby || w.closing {
		<-w.released
		w.dialFailedAt = time.Duration(nowNanos())
		return nil
	}
	car := &c01Carrier{idx: n, w: w, dead: make(chan struct{}), handler: make(chan struct{})}
	car.srv = newFakeConn(fmt.Sprintf("carrier%d", n))
	car.srv.out = make(chan []byte, 256)
	w.carriers = append(w.carriers, car)
	go w.serveCarrier(car)
	end := clientEnd{car}
	car.peer = snowflake_client.VerifNewFakePeer(end, end, nopPipeWriter{})
	// the real staleness check closes a peer that has not received anything for 20 s: this is what
	// makes the client abandon a frozen carrier
	snowflake_client.VerifStartStaleness(car.peer)
	return car.peer
}

// Send is the data channel's Send: one message relayed by the proxy.
func (e clientEnd) Send(b []byte) error {
	_, err := e.Write(b)
	return err
}

type nopPipeWriter struct{}

func (nopPipeWriter) Write(p []byte) (int, error) { return len(p), nil }
func (nopPipeWriter) Close() error                { return nil }
func (nopPipeWriter) CloseWithError(error) error  { return nil }

// captureDialContext runs the real newSession up to the point where the dialContext closure exists.
func (w *c01World) captureDialContext() (func(context.Context) (net.PacketConn, error), turbotunnel.ClientID) {
	var dc func(context.Context) (net.PacketConn, error)
	var id turbotunnel.ClientID
	snowflake_client.VerifCapture_newSession = func(v map[string]interface{}) {
		dc = v["dialContext"].(func(context.Context) (net.PacketConn, error))
		id = v["clientID"].(turbotunnel.ClientID)
	}
	snowflake_client.VerifNewSession(c01Collector{w})
	snowflake_client.VerifCapture_newSession = nil
	if dc == nil {
		panic("dialContext was not captured")
	}
	return dc, id
}

// serveCarrier mirrors httpHandler.ServeHTTP after the WebSocket upgrade.
func (w *c01World) serveCarrier(c *c01Carrier) {
	defer close(c.handler)
	conn := c01ServerConn{c.srv, c}
	defer conn.Close()
	var token [len(turbotunnel.Token)]byte
	if _, err := io.ReadFull(conn, token[:]); err != nil {
		return
	}
	if !bytes.Equal(token[:], turbotunnel.Token[:]) {
		w.badPackets = append(w.badPackets, fmt.Sprintf("carrier %d: token corrupted: %x", c.idx, token))
		return
	}
	turbotunnelMode(conn, ClientMapAddr("192.0.2.1:1"), w.pconn)
}

// ---- stop-and-wait ARQ standing in for KCP ------------------------------------------------------

func dataPkt(dir byte, seq int, payload []byte) []byte {
	return append([]byte(fmt.Sprintf("D%c%02d|", dir, seq)), payload...)
}

func ackPkt(dir byte, seq int) []byte { return []byte(fmt.Sprintf("A%c%02d|", dir, seq)) }

// sender transmits payloads in order, each until acknowledged (retransmission every second).
func (w *c01World) sender(pc net.PacketConn, to net.Addr, dir byte, payloads [][]byte, acks chan int, sent map[string]bool) {
	for seq, pl := range payloads {
		p := dataPkt(dir, seq, pl)
		for {
			sent[string(p)] = true
			buf := append([]byte(nil), p...)
			_, err := pc.WriteTo(buf, to)
			for i := range buf {
				buf[i] = 0x55 // the transport re-uses its buffers
			}
			if err != nil {
				w.noteErr("WriteTo", err)
				return
			}
			acked := false
			timeout := time.After(time.Second)
		wait:
			for {
				select {
				case a := <-acks:
					if a == seq {
						acked = true
						break wait
					}
				case <-timeout:
					break wait
				case <-w.released:
					return
				}
			}
			if acked {
				break
			}
		}
	}
}

// receiver reads packets, checks their integrity, delivers in-order data to the application and
// acknowledges.
func (w *c01World) receiver(pc net.PacketConn, me byte, peerSent, peerAcks, myAcks map[string]bool, acks chan int, deliver func([]byte), wantAddr string) {
	buf := make([]byte, 4096)
	expected := 0
	for {
		n, addr, err := pc.ReadFrom(buf)
		if err != nil {
			w.noteErr("ReadFrom", err)
			return
		}
		p := append([]byte(nil), buf[:n]...)
		// (the sender records a packet before handing it to the transport, so this read is ordered
		// after the write by the transport's own synchronisation)
		if !peerSent[string(p)] && !peerAcks[string(p)] {
			w.badPackets = append(w.badPackets, fmt.Sprintf("endpoint %c received %.40q, which its peer never sent", me, p))
			continue
		}
		if wantAddr != "" && addr.String() != wantAddr {
			w.badPackets = append(w.badPackets, fmt.Sprintf("endpoint %c received a packet attributed to %v instead of %s", me, addr, wantAddr))
		}
		var dir byte
		var seq int
		if len(p) < 5 {
			continue
		}
		fmt.Sscanf(string(p[1:4]), "%c%02d", &dir, &seq)
		switch p[0] {
		case 'D':
			if seq == expected {
				deliver(p[5:])
				expected++
			}
			if seq < expected {
				a := ackPkt(dir, seq)
				myAcks[string(a)] = true
				if _, err := pc.WriteTo(a, addr); err != nil {
					w.noteErr("WriteTo", err)
					return
				}
			}
		case 'A':
			select {
			case acks <- seq:
			default:
			}
		}
	}
}

func (w *c01World) noteErr(op string, err error) {
	if !w.closing && w.dialFailedAt == 0 && w.redialErr == "" {
		w.redialErr = fmt.Sprintf("%s returned %v before Close and without a dial failure", op, err)
	}
}

func nowNanos() int64 { return time.Since(time.Unix(1_600_000_000, 0)).Nanoseconds() }

// shutdown does what SnowflakeConn.Close and the server's listener Close do.
func (w *c01World) shutdown() {
	w.closing = true
	close(w.released)
	w.redial.Close()
	w.pconn.Close()
}
