//go:build go1.21

package snowflake_server

// C01 — end-to-end byte stream exact and ordered across proxy churn (tier 1, DESIGN.md §3 C01).

import (
	"bytes"
	"crypto/rand"
	"fmt"
	"strings"
	"time"

	"git.torproject.org/pluggable-transports/snowflake.git/v2/common/turbotunnel"
	vs "git.torproject.org/pluggable-transports/snowflake.git/v2/verifvs"
)

func payloadsFor(dir byte) [][]byte {
	mk := func(n int, tag byte) []byte {
		b := make([]byte, n)
		for i := range b {
			b[i] = tag + byte(i%7)
		}
		return b
	}
	if dir == 'u' {
		return [][]byte{mk(1, 'a'), mk(1400, 'b')} // 1-byte prefix and (with the ARQ header) 2-byte prefix
	}
	return [][]byte{mk(58, 'c'), mk(59, 'd')} // 63 / 64 bytes with the 5-byte ARQ header: both sides of the prefix boundary
}

// all randomness reachable from the harnessed code is pinned (ClientIDs become deterministic)
type counterStream struct{ n byte }

func (c *counterStream) Read(p []byte) (int, error) {
	for i := range p {
		c.n++
		p[i] = c.n
	}
	return len(p), nil
}

func init() {
	rand.Reader = &counterStream{}
	harnesses = append(harnesses, &vs.Harness{
		Name:     "c01",
		Horizon:  3 * time.Minute,
		MaxSteps: 60000,
		Body: func(x *vs.X) {
			w := &c01World{released: make(chan struct{}), sentC: map[string]bool{}, sentS: map[string]bool{}, ackedC: map[string]bool{}, ackedS: map[string]bool{}, ackC: make(chan int, 8), ackS: make(chan int, 8)}
			x.User = w
			// configuration: faults (direction x write index x kind), standby carriers, dial delay
			nFaults := cfgInt(x, "faults", 1)
			maxIdx := cfgInt(x, "maxidx", 8)
			for i := 0; i < nFaults; i++ {
				kind := cfgInt(x, "kind", 0)
				if kind == 0 {
					kind = 1 + vs.Choose("kind", nFaultKinds-1)
				}
				up := vs.Choose("dir", 2) == 0
				idx := vs.Choose("idx", maxIdx)
				w.faults = append(w.faults, faultSpec{up: up, index: idx, kind: kind})
			}
			w.standby = 1 + len(w.faults) - vs.Choose("short", 2) // enough carriers, or one too few
			w.dialDelay = []time.Duration{0, 10 * time.Second}[vs.Choose("dialdelay", 2)]
			var fs []string
			for _, f := range w.faults {
				d := "down"
				if f.up {
					d = "up"
				}
				fs = append(fs, fmt.Sprintf("%s#%d:%s", d, f.index, faultName[f.kind]))
			}
			x.Outcome(fmt.Sprintf("faults=[%s] carriers=%d dialdelay=%v", strings.Join(fs, " "), w.standby, w.dialDelay))

			clientIDAddrMap = newClientIDMap(16)
			// the real dialContext closure of client/lib/snowflake.go newSession, with its own ClientID
			dial, id := w.captureDialContext()
			w.id = id
			w.pconn = turbotunnel.NewQueuePacketConn(strAddr("server"), clientMapTimeout)
			turbotunnel.VerifClientMapLock(w.pconn).AtomicSections("(*ClientMap).SendQueue")
			clientIDAddrMap.lock.AtomicSections("(*clientIDMap).Get")
			w.redial = turbotunnel.NewRedialPacketConn(strAddr("c"), strAddr("s"), dial)

			up, down := payloadsFor('u'), payloadsFor('d')
			if np := cfgInt(x, "payloads", 2); np < 2 {
				up, down = up[1:], down[1:]
			}
			w.nPayloads = len(up)
			vs.GoRole("client-send", vs.RoleDaemon, func() { w.sender(w.redial, strAddr("s"), 'u', up, w.ackC, w.sentC) })
			vs.GoRole("client-recv", vs.RoleDaemon, func() {
				w.receiver(w.redial, 'C', w.sentS, w.ackedS, w.ackedC, w.ackC, func(p []byte) { w.appS2C = append(w.appS2C, append([]byte(nil), p...)) }, "")
			})
			vs.GoRole("server-send", vs.RoleDaemon, func() {
				// the bridge answers a little later: in the fault-free case the two directions do not
				// overlap, with faults and retransmissions they do
				vs.Sleep(3500 * time.Millisecond)
				w.sender(w.pconn, w.id, 'd', down, w.ackS, w.sentS)
			})
			vs.GoRole("server-recv", vs.RoleDaemon, func() {
				w.receiver(w.pconn, 'S', w.sentC, w.ackedC, w.ackedS, w.ackS, func(p []byte) { w.appC2S = append(w.appC2S, append([]byte(nil), p...)) }, w.id.String())
			})
			vs.Sleep(100 * time.Second)
			// shutdown as SnowflakeConn.Close does: melt the collector, close the packet conn
			w.shutdown()
		},
		Check: func(x *vs.X) {
			w := x.User.(*c01World)
			if x.StepLimitHit() {
				x.Fail("engine", "step-limit", "execution exceeded the step limit")
				return
			}
			for _, t := range x.Threads() {
				if t.Panic != "" {
					x.Fail("no-panic", "panic:"+firstLineS(t.Panic), "thread %s panicked: %s\n%s", t.Name, t.Panic, t.PanicAt)
				}
			}
			for _, b := range w.badPackets {
				x.Fail("packet-integrity", "foreign-or-corrupted-packet", "%s", b)
				break
			}
			if w.redialErr != "" {
				x.Fail("no-surfaced-error", "redial-error-surfaced", "%s", w.redialErr)
			}
			up, down := payloadsFor('u'), payloadsFor('d')
			if w.nPayloads < 2 {
				up, down = up[1:], down[1:]
			}
			prefix := func(name string, got, want [][]byte) bool {
				if len(got) > len(want) {
					x.Fail("stream-exact", "stream-extra-data:"+name, "%s: %d chunks delivered, only %d were sent", name, len(got), len(want))
					return false
				}
				for i := range got {
					if !bytes.Equal(got[i], want[i]) {
						x.Fail("stream-exact", "stream-corrupted-or-reordered:"+name, "%s: chunk %d differs from what was sent (%d vs %d bytes)", name, i, len(got[i]), len(want[i]))
						return false
					}
				}
				return true
			}
			okU := prefix("client-to-server", w.appC2S, up)
			okD := prefix("server-to-client", w.appS2C, down)
			complete := len(w.appC2S) == len(up) && len(w.appS2C) == len(down)
			x.Outcome(fmt.Sprintf("dials=%d up=%d/%d down=%d/%d", w.dialCalls, len(w.appC2S), len(up), len(w.appS2C), len(down)))
			// liveness: with at least as many carriers as faults + 1, a working carrier exists after the
			// last fault, so both directions must have completed by t=100 s
			if okU && okD && !complete && w.standby > len(w.faults) {
				x.Fail("completes", "stalled-although-a-working-carrier-was-available", "faults %v with %d carriers: delivered up %d/%d down %d/%d after 100 s (dial calls: %d)", w.faults, w.standby, len(w.appC2S), len(up), len(w.appS2C), len(down), w.dialCalls)
			}
			// after shutdown nothing of the transport is left running
			for _, t := range x.Threads() {
				if !t.Done && (strings.HasPrefix(t.Name, "common/turbotunnel/redialpacketconn.go") || strings.HasPrefix(t.Name, "server/lib/http.go")) {
					x.Fail("no-leak", "transport-goroutine-alive-after-close:"+t.Name+"@"+t.Site, "goroutine %s still alive at %s after shutdown", t.Name, t.Site)
				}
			}
		},
	})
}
