//go:build go1.21

package turbotunnel

import "sync"

// VerifClientMapLock exposes the ClientMap mutex of a QueuePacketConn to harnesses in other packages
// (overlay-only export shim).
func VerifClientMapLock(c *QueuePacketConn) *sync.Mutex { return &c.clients.lock }
