//go:build go1.21

package snowflake_server

// Scheduler-aware in-memory carriers for the C05/C18/C01 harnesses (instrumented add-file).

import (
	"errors"
	"io"
	"net"
	"sync"
	"time"
)

var errFakeConnClosed = errors.New("fake carrier closed")

// errCarrierReset is what the server reads when the proxy-to-server connection is torn without a
// WebSocket close frame (websocketconn passes abnormal closures through; only normal closures become
// io.EOF).
var errCarrierReset = errors.New("websocket: close 1006 (abnormal closure): unexpected EOF")

// fakeConn is the server's end of one carrier (what websocketconn.Conn is in production): a byte
// stream from the client (chunks arrive as the proxy relays them) and a byte stream to the client.
type fakeConn struct {
	name      string
	in        chan []byte   // upstream chunks; closed = the carrier was cut / ended by the peer
	eofc      chan struct{} // alternative cut signal for feeders that race with the cut (C01)
	rbuf      []byte
	out       chan []byte // downstream writes, in order (nil: recorded in Out only)
	closed    chan struct{}
	closeOnce sync.Once
	// WriteFailAfter: number of bytes accepted before the downstream direction fails (-1: never)
	WriteFailAfter int
	written        int
	Out            []byte // everything written downstream, concatenated
	NClose         int
	cutErr         error // what a cut surfaces as on Read (nil: io.EOF); written before the cut is signalled
}

func newFakeConn(name string) *fakeConn {
	return &fakeConn{name: name, in: make(chan []byte, 64), eofc: make(chan struct{}), closed: make(chan struct{}), WriteFailAfter: -1}
}

func (c *fakeConn) Read(p []byte) (int, error) {
	if len(p) == 0 {
		return 0, nil
	}
	if len(c.rbuf) == 0 {
		select {
		case <-c.closed:
			return 0, errFakeConnClosed
		case chunk, ok := <-c.in:
			if !ok {
				return 0, c.cutError()
			}
			c.rbuf = chunk
		case <-c.eofc:
			// the connection is gone; chunks still in flight are lost with it
			return 0, c.cutError()
		}
	}
	n := copy(p, c.rbuf)
	c.rbuf = c.rbuf[n:]
	return n, nil
}

func (c *fakeConn) Write(p []byte) (int, error) {
	select {
	case <-c.closed:
		return 0, errFakeConnClosed
	default:
	}
	n := len(p)
	if c.WriteFailAfter >= 0 && c.written+n > c.WriteFailAfter {
		n = c.WriteFailAfter - c.written
		if n < 0 {
			n = 0
		}
		c.Out = append(c.Out, p[:n]...)
		c.written += n
		return n, errFakeConnClosed
	}
	c.Out = append(c.Out, p...)
	c.written += n
	if c.out != nil {
		c.out <- append([]byte(nil), p...)
	}
	return n, nil
}

func (c *fakeConn) Close() error {
	c.NClose++
	c.closeOnce.Do(func() { close(c.closed) })
	return nil
}

// Feed hands upstream bytes to the carrier (client side).
func (c *fakeConn) Feed(b []byte) { c.in <- append([]byte(nil), b...) }

// Cut ends the upstream direction with a clean end of stream (the proxy closed its WebSocket).
func (c *fakeConn) Cut() { close(c.in) }

// CutAbrupt ends the upstream direction the way a torn TCP connection does: the reader gets an error
// that is not io.EOF.
func (c *fakeConn) CutAbrupt() { c.cutErr = errCarrierReset; close(c.in) }

func (c *fakeConn) cutError() error {
	if c.cutErr != nil {
		return c.cutErr
	}
	return io.EOF
}

func (c *fakeConn) IsClosed() bool { return c.NClose > 0 }

type strAddr string

func (a strAddr) Network() string { return "fake" }
func (a strAddr) String() string  { return string(a) }

func (c *fakeConn) LocalAddr() net.Addr                { return strAddr("server") }
func (c *fakeConn) RemoteAddr() net.Addr               { return strAddr(c.name) }
func (c *fakeConn) SetDeadline(t time.Time) error      { return nil }
func (c *fakeConn) SetReadDeadline(t time.Time) error  { return nil }
func (c *fakeConn) SetWriteDeadline(t time.Time) error { return nil }

// CutEOF ends the upstream direction without closing the chunk channel (safe against concurrent
// TryFeed); chunks in flight may or may not be delivered before the reader sees EOF.
func (c *fakeConn) CutEOF() { close(c.eofc) }

// CutEOFAbrupt is CutEOF surfacing as a non-EOF error.
func (c *fakeConn) CutEOFAbrupt() { c.cutErr = errCarrierReset; close(c.eofc) }

// TryFeed hands upstream bytes to the carrier unless it has been cut.
func (c *fakeConn) TryFeed(b []byte, dead <-chan struct{}) bool {
	select {
	case c.in <- append([]byte(nil), b...):
		return true
	case <-dead:
		return false
	}
}
