//go:build go1.21

package snowflake_server

// C18 / C20 — the ClientID->address ring map under concurrent carriers (Set) and sessions (Get), with
// a ring so small that it wraps while a Get is in progress.  In normal mode the oracle is that Get
// returns an address that was Set for that very ClientID (or reports absence); in race mode (C20) the
// same executions run under the race detector.

import (
	"fmt"
	"net"
	"strings"
	"time"

	"git.torproject.org/pluggable-transports/snowflake.git/v2/common/turbotunnel"
	vs "git.torproject.org/pluggable-transports/snowflake.git/v2/verifvs"
)

type ringWorld struct {
	m    *clientIDMap
	gets []ringGet
}

type ringGet struct {
	id   int
	addr string
	ok   bool
}

func init() {
	harnesses = append(harnesses, &vs.Harness{
		Name:    "c18-ringconc",
		Horizon: time.Minute,
		Body: func(x *vs.X) {
			capacity := 1 + vs.Choose("capacity", 2)
			nSet := cfgInt(x, "setters", 2)
			w := &ringWorld{m: newClientIDMap(capacity)}
			x.User = w
			ids := []turbotunnel.ClientID{{'A'}, {'B'}, {'C'}, {'D'}}
			x.Outcome(fmt.Sprintf("capacity=%d setters=%d", capacity, nSet))
			// the session whose address is looked up was stored first
			w.m.Set(ids[0], ClientMapAddr("addr-A"))
			for s := 0; s < nSet; s++ {
				s := s
				vs.GoRole(fmt.Sprintf("carrier%d", s), vs.RoleRequest, func() {
					// carriers of other clients arrive: each takes the next ring slot
					w.m.Set(ids[1+s], ClientMapAddr(fmt.Sprintf("addr-%c", 'B'+s)))
					if s == 0 {
						w.m.Set(ids[0], ClientMapAddr("addr-A2")) // and the first client reconnects from elsewhere
					}
				})
			}
			for g := 0; g < 2; g++ {
				g := g
				vs.GoRole(fmt.Sprintf("session%d", g), vs.RoleRequest, func() {
					id := g % 2 // one looks up A, the other B
					a, ok := w.m.Get(ids[id])
					s := "<nil>"
					if a != nil {
						s = a.String()
					}
					w.gets = append(w.gets, ringGet{id, s, ok})
				})
			}
		},
		Check: func(x *vs.X) {
			w := x.User.(*ringWorld)
			for _, t := range x.Threads() {
				if t.Panic != "" {
					x.Fail("no-panic", "ring:panic", "thread %s panicked: %s\n%s", t.Name, t.Panic, t.PanicAt)
				}
				if t.Role == vs.RoleRequest && !t.Done && t.Panic == "" {
					x.Fail("bounded", "ring:blocked@"+t.Site, "thread %s blocked at %s", t.Name, t.Site)
				}
			}
			var oc []string
			for _, g := range w.gets {
				oc = append(oc, fmt.Sprintf("Get(%c)=%s,%v", 'A'+g.id, g.addr, g.ok))
				if !g.ok {
					continue // forgotten (the ring wrapped) or not yet stored: allowed
				}
				want := map[int][]string{0: {"addr-A", "addr-A2"}, 1: {"addr-B"}}[g.id]
				good := false
				for _, wnt := range want {
					good = good || g.addr == wnt
				}
				if !good {
					x.Fail("attribution", "ring:address-of-another-client", "Get(%c) returned %q, which was never stored for that ClientID (stored: %v)", 'A'+g.id, g.addr, want)
				}
			}
			x.Outcome(strings.Join(oc, " "))
		},
	})
}

var _ net.Addr = ClientMapAddr("")
