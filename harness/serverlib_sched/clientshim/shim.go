//go:build go1.21

package snowflake_client

// Overlay-only export shims for the end-to-end harness in server/lib.

import (
	"net"
	"time"

	"git.torproject.org/pluggable-transports/snowflake.git/v2/common/event"
	"github.com/xtaci/smux"
)

// The three concrete pion/io types of WebRTCPeer's fields are retyped to these interfaces by the
// build pipeline (checks/server_common.py, a textual pre-pass on a copy of webrtc.go that fails
// loudly if the declarations change), so that a peer can carry an in-memory transport.
type verifTransport interface {
	Send([]byte) error
	Close() error
}

type verifPipeReader interface {
	Read([]byte) (int, error)
}

type verifPipeWriter interface {
	Write([]byte) (int, error)
	Close() error
	CloseWithError(error) error
}

// VerifNewFakePeer builds a WebRTCPeer the way the repository's own tests do (no pion objects), with
// the given transport and receive pipe.
func VerifNewFakePeer(t verifTransport, r verifPipeReader, w verifPipeWriter) *WebRTCPeer {
	return &WebRTCPeer{closed: make(chan struct{}), transport: t, recvPipe: r, writePipe: w, bytesLogger: &bytesNullLogger{}, eventsLogger: event.NewSnowflakeEventDispatcher()}
}

// VerifNewSession calls the real newSession.  With VerifCapture_newSession set (a hook inserted by
// the instrumenter right after the dialContext closure is defined) it hands out the real closure and
// returns before KCP and smux are started.
func VerifNewSession(c SnowflakeCollector) (net.PacketConn, *smux.Session, error) {
	return newSession(c)
}

// VerifCapture_newSession is called by the hook the instrumenter inserts into newSession.
var VerifCapture_newSession func(map[string]interface{})

// VerifStartStaleness starts the peer's real staleness check, as connect() does once the data channel
// is open.
func VerifStartStaleness(c *WebRTCPeer) { go c.checkForStaleness(SnowflakeTimeout) }

// VerifNoteReceive does what the data channel's OnMessage callback does after handing the message to
// the receive pipe: it refreshes lastReceive.
func VerifNoteReceive(c *WebRTCPeer) {
	c.mu.Lock()
	c.lastReceive = time.Now()
	c.mu.Unlock()
}
