//go:build go1.21

package snowflake_proxy

import "net"

func netSplit(hostport string) (string, string, error) { return net.SplitHostPort(hostport) }
