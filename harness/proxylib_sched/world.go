//go:build go1.21

package snowflake_proxy

// World of the C16 / C06(iii) harness (instrumented add-file): the real tokens_t, runSession,
// datachannelHandler and SignalingServer, a scripted broker transport, and two seams replacing the
// pion-facing functions (makePeerConnectionFromOffer, copyLoop).

import (
	"bytes"
	"errors"
	"fmt"
	"io"
	"net"
	"net/http"
	"net/url"
	"strings"
	"time"

	"git.torproject.org/pluggable-transports/snowflake.git/v2/common/messages"
	"github.com/gorilla/websocket"
	"github.com/pion/webrtc/v3"
)

// exit paths of one session
const (
	pathNoOffer         = iota // the broker's poll response is malformed: no offer
	pathRejectedURL            // the offer comes with a relay URL outside the proxy's pattern
	pathBadOffer               // the offer is not a session description
	pathPCError                // the peer connection cannot be made
	pathAnswerGone             // the broker says "client gone" to the answer
	pathAnswerError            // the answer request fails at the transport
	pathNeverOpens             // the client never opens the data channel (20 s timeout)
	pathRelayDown              // the data channel opens, the relay cannot be reached
	pathNormal                 // the data channel opens, traffic flows, the session ends after 30 s
	pathOpenAtTimeout          // the data channel opens exactly when the 20 s timeout fires
	pathAnswerLostOpens        // the broker passes the answer on but its response to the proxy is lost (transport error after 5 s); the client has opened the data channel meanwhile
	nPaths
)

var pathName = []string{"no-offer", "rejected-relay-url", "undecodable-offer", "peerconnection-error", "answer-client-gone", "answer-transport-error", "datachannel-never-opens", "relay-unreachable", "normal-end", "open-at-timeout-instant", "answer-response-lost-client-connects"}

type pollRec struct {
	clients int
	inUse   int64
	at      time.Duration
}

type proxyWorld struct {
	sf       *SnowflakeProxy
	capacity uint
	script   []int
	session  int // index of the next session to start
	relayURL []string

	polls     []pollRec
	dialled   []string
	problems  []string
	maxInUse  int64
	ended     int // sessions whose handler or runSession fully ended
	copyDone  map[int]chan struct{}
	newPC     func() *webrtc.PeerConnection
	pcs       []*webrtc.PeerConnection
	loopPolls int
	stopAfter int
	windowMax int64 // largest number of slots in use noted since the last poll reached the broker
}

// noteInUse is called by harness threads right before and right after they release a slot.
func (w *proxyWorld) noteInUse(plus int64) {
	if n := tokens.count() + plus; n > w.windowMax {
		w.windowMax = n
	}
}

// scriptedBroker is the http.RoundTripper of the SignalingServer.
type scriptedBroker struct{ w *proxyWorld }

func (s scriptedBroker) RoundTrip(req *http.Request) (*http.Response, error) {
	w := s.w
	body, _ := io.ReadAll(req.Body)
	reply := func(status int, b []byte) (*http.Response, error) {
		return &http.Response{StatusCode: status, Body: io.NopCloser(bytes.NewReader(b)), Header: http.Header{}}, nil
	}
	switch {
	case strings.HasSuffix(req.URL.Path, "/proxy"):
		_, _, _, clients, _, _, err := messages.DecodeProxyPollRequestWithRelayPrefix(body)
		if err != nil {
			w.problems = append(w.problems, "the proxy sent an undecodable poll: "+err.Error())
		}
		// the load was computed some time after the previous poll was answered: the slots in use then
		// were at most the largest number seen since (clients leaving are noted by noteInUse)
		inUse := tokens.count()
		if w.windowMax > inUse {
			inUse = w.windowMax
		}
		w.windowMax = 0
		w.polls = append(w.polls, pollRec{clients: clients, inUse: inUse, at: time.Duration(nowNanosP())})
		if clients%8 != 0 || int64(clients) > inUse {
			w.problems = append(w.problems, fmt.Sprintf("poll reports Clients=%d with %d slots in use", clients, inUse))
		}
		i := w.session
		w.session++
		if i >= len(w.script) {
			// the scripted sessions are over: nothing for this proxy any more
			w.loopPolls++
			b, _ := messages.EncodePollResponse("", false, "")
			return reply(200, b)
		}
		switch w.script[i] {
		case pathNoOffer:
			return reply(200, []byte(`{"Status":`))
		case pathBadOffer:
			b, _ := messages.EncodePollResponseWithRelayURL(`{"type":"offer"`, true, "unknown", w.relayURL[i], "")
			return reply(200, b)
		default:
			b, _ := messages.EncodePollResponseWithRelayURL(`{"type":"offer","sdp":"v=0\r\n"}`, true, "unknown", w.relayURL[i], "")
			return reply(200, b)
		}
	case strings.HasSuffix(req.URL.Path, "/answer"):
		i := w.session - 1
		if i < len(w.script) && w.script[i] == pathAnswerError {
			return nil, errors.New("connection reset by peer")
		}
		if i < len(w.script) && w.script[i] == pathAnswerLostOpens {
			time.Sleep(5 * time.Second)
			return nil, errors.New("net/http: timeout awaiting response headers")
		}
		ok := !(i < len(w.script) && w.script[i] == pathAnswerGone)
		b, _ := messages.EncodeAnswerResponse(ok)
		return reply(200, b)
	}
	return reply(404, nil)
}

// seamPC stands in for makePeerConnectionFromOffer: it fails or returns the shared unconnected
// PeerConnection and plays pion's OnDataChannel contract later, by script.
func (w *proxyWorld) seamPC(sf *SnowflakeProxy, sdp *webrtc.SessionDescription, config webrtc.Configuration, dataChan chan struct{}, handler func(conn *webRTCConn, remoteAddr net.Addr)) (*webrtc.PeerConnection, error) {
	i := w.session - 1
	path := w.script[i]
	if path == pathPCError {
		return nil, errors.New("accept: SetRemoteDescription: bad sdp")
	}
	// a real, unconnected PeerConnection with a local description (sendAnswer reads it; runSession and
	// the handler close it)
	pc := w.newPC()
	w.pcs = append(w.pcs, pc)
	open := func() {
		// what pion does in OnDataChannel
		close(dataChan)
		conn := &webRTCConn{pc: pc, bytesLogger: bytesNullLogger{}, eventLogger: sf.EventDispatcher}
		go func() {
			handler(conn, &net.IPAddr{IP: net.ParseIP("192.0.2.55")})
			w.ended++
		}()
	}
	switch path {
	case pathRelayDown, pathNormal, pathAnswerLostOpens:
		go func() {
			time.Sleep(time.Second)
			open()
		}()
	case pathOpenAtTimeout:
		go func() {
			time.Sleep(dataChannelTimeout)
			open()
		}()
	}
	return pc, nil
}

// seamCopyLoop stands in for copyLoop: the session carries traffic until the harness ends it.
func (w *proxyWorld) seamCopyLoop(c1 io.ReadWriteCloser, c2 io.ReadWriteCloser, shutdown chan struct{}) {
	select {
	case <-time.After(30 * time.Second):
	case <-shutdown:
	}
	c1.Close()
	c2.Close()
}

// pollLoop is Start()'s polling loop (the part after its configuration preamble), verbatim.
func (w *proxyWorld) pollLoop() {
	sf := w.sf
	ticker := time.NewTicker(pollInterval)
	defer ticker.Stop()
	for ; true; <-ticker.C {
		select {
		case <-sf.shutdown:
			return
		default:
			tokens.get()
			if n := tokens.count(); n > w.maxInUse {
				w.maxInUse = n
			}
			sessionID := genSessionID()
			sf.runSession(sessionID)
		}
	}
}

func (w *proxyWorld) stop() { close(w.sf.shutdown) }

// install wires the world into the package's globals.
func (w *proxyWorld) install() {
	u, _ := url.Parse("http://broker.example/")
	broker = &SignalingServer{url: u, transport: scriptedBroker{w}}
	tokens = newTokens(w.capacity)
	config = webrtc.Configuration{}
	VerifSeam_SnowflakeProxy_makePeerConnectionFromOffer = w.seamPC
	VerifSeam_copyLoop = w.seamCopyLoop
	websocket.DefaultDialer = &websocket.Dialer{NetDial: func(network, addr string) (net.Conn, error) {
		w.dialled = append(w.dialled, addr)
		return nil, errors.New("connection refused")
	}}
}

func nowNanosP() int64 { return time.Since(time.Unix(1_600_000_000, 0)).Nanoseconds() }

// The seam variables tested by the guards the instrumenter prepends to makePeerConnectionFromOffer
// and copyLoop ("if VerifSeam_X != nil { return VerifSeam_X(args...) }").
var VerifSeam_SnowflakeProxy_makePeerConnectionFromOffer func(sf *SnowflakeProxy, sdp *webrtc.SessionDescription, config webrtc.Configuration, dataChan chan struct{}, handler func(conn *webRTCConn, remoteAddr net.Addr)) (*webrtc.PeerConnection, error)
var VerifSeam_copyLoop func(c1 io.ReadWriteCloser, c2 io.ReadWriteCloser, shutdown chan struct{})
