//go:build go1.21

package snowflake_proxy

// C16 — the proxy honours its capacity and never leaks a session slot.
// C06 (iii) — the proxy never opens a relay connection to a URL outside its pattern / without TLS.

import (
	"crypto/rand"
	"fmt"
	"io"
	"log"
	"net/url"
	"strconv"
	"strings"
	"testing"
	"time"

	"git.torproject.org/pluggable-transports/snowflake.git/v2/common/event"
	"git.torproject.org/pluggable-transports/snowflake.git/v2/common/namematcher"
	vs "git.torproject.org/pluggable-transports/snowflake.git/v2/verifvs"
	"github.com/pion/webrtc/v3"
)

var harnesses []*vs.Harness

type counterStream struct{ n byte }

func (c *counterStream) Read(p []byte) (int, error) {
	for i := range p {
		c.n++
		p[i] = c.n
	}
	return len(p), nil
}

// livePC builds a real, unconnected pion PeerConnection with a local description.  pion's own
// goroutines are outside the scheduler; they never call into instrumented code.
func livePC() *webrtc.PeerConnection {
	pc, err := webrtc.NewPeerConnection(webrtc.Configuration{})
	if err != nil {
		panic(err)
	}
	if _, err := pc.CreateDataChannel("x", nil); err != nil {
		panic(err)
	}
	offer, err := pc.CreateOffer(nil)
	if err != nil {
		panic(err)
	}
	done := webrtc.GatheringCompletePromise(pc)
	if err := pc.SetLocalDescription(offer); err != nil {
		panic(err)
	}
	<-done
	return pc
}

func closePCs(w *proxyWorld) {
	for _, pc := range w.pcs {
		pc.Close()
	}
}

func TestVerif(t *testing.T) {
	log.SetOutput(io.Discard)
	rand.Reader = &counterStream{}
	vs.Main(harnesses...)
}

func cfgInt(x *vs.X, k string, def int) int {
	if v, ok := x.Cfg[k]; ok {
		if n, err := strconv.Atoi(v); err == nil {
			return n
		}
	}
	return def
}

func init() {
	harnesses = append(harnesses, &vs.Harness{
		Name:     "c16",
		Horizon:  10 * time.Minute,
		MaxSteps: 100000,
		Body: func(x *vs.X) {
			w := &proxyWorld{copyDone: map[int]chan struct{}{}, newPC: livePC}
			x.User = w
			w.capacity = uint(1 + vs.Choose("capacity", cfgInt(x, "capacities", 2)))
			n := 1 + vs.Choose("len", cfgInt(x, "maxlen", 2))
			for i := 0; i < n; i++ {
				w.script = append(w.script, vs.Choose("path", nPaths))
				ru := "wss://snowflake.torproject.net/"
				if w.script[i] == pathRejectedURL {
					ru = "wss://evil.example/"
				}
				w.relayURL = append(w.relayURL, ru)
			}
			var names []string
			for _, p := range w.script {
				names = append(names, pathName[p])
			}
			x.Outcome(fmt.Sprintf("capacity=%d sessions=%s", w.capacity, strings.Join(names, ",")))
			w.sf = &SnowflakeProxy{Capacity: w.capacity, RelayURL: "wss://snowflake.torproject.net/", RelayDomainNamePattern: "snowflake.torproject.net$", ProxyType: "standalone",
				EventDispatcher: event.NewSnowflakeEventDispatcher(), shutdown: make(chan struct{})}
			w.install()
			vs.GoRole("pollLoop", vs.RoleDaemon, w.pollLoop)
			// long enough for every scripted session to run its course, then a while of idle polling
			vs.Sleep(time.Duration(n)*60*time.Second + 60*time.Second)
			w.stopAfter = w.loopPolls
			w.stop()
		},
		Check: func(x *vs.X) {
			w := x.User.(*proxyWorld)
			defer closePCs(w)
			for _, t := range x.Threads() {
				if t.Panic != "" {
					x.Fail("no-panic", "panic:"+firstLineP(t.Panic), "thread %s panicked: %s\n%s", t.Name, t.Panic, t.PanicAt)
				}
			}
			for _, p := range w.problems {
				x.Fail("reported-load", "bad-reported-load", "%s", p)
				break
			}
			if w.maxInUse > int64(w.capacity) {
				x.Fail("capacity", "over-capacity", "%d slots in use with capacity %d", w.maxInUse, w.capacity)
			}
			cnt := tokens.count()
			inCh := len(tokens.ch)
			x.Outcome(fmt.Sprintf("polls=%d idlePolls=%d count=%d tokensInChannel=%d dialled=%v", len(w.polls), w.loopPolls, cnt, inCh, w.dialled))
			if cnt != 0 || inCh != 0 {
				kind := "leaked"
				if cnt < 0 || inCh < int(cnt) {
					kind = "released-twice"
				}
				x.Fail("slots-released-once", "slot-"+kind, "after all sessions ended: %d clients counted, %d tokens held (capacity %d)", cnt, inCh, w.capacity)
			}
			for _, t := range x.Threads() {
				if !t.Done && strings.Contains(t.Site, "tokens.go") {
					x.Fail("slots-released-once", "blocked-in-token-operation@"+t.Site, "thread %s is blocked at %s", t.Name, t.Site)
				}
			}
			if w.loopPolls < 2 {
				x.Fail("polls-again", "stopped-polling", "after the scripted sessions the proxy polled only %d more time(s) in 60 s", w.loopPolls)
			}
			// C06 (iii): whatever was dialled lies inside the pattern
			m := namematcher.NewNameMatcher(w.sf.RelayDomainNamePattern)
			for _, d := range w.dialled {
				host := d
				if i := strings.LastIndexByte(d, ':'); i >= 0 {
					host = d[:i]
				}
				if !m.IsMember(host) {
					x.Fail("relay-pattern", "dialled-outside-pattern", "the proxy dialled %q, which its pattern %q does not accept", d, w.sf.RelayDomainNamePattern)
				}
			}
		},
	})

	// reported load with many clients: capacity 16, 9-15 slots held by served clients that leave at
	// chosen instants while the proxy keeps polling a broker that has no client for it (the same
	// pollOffer call polls again every 5 s): every poll reports a multiple of 8 not above the slots in use
	harnesses = append(harnesses, &vs.Harness{
		Name:     "c16-load",
		Horizon:  5 * time.Minute,
		MaxSteps: 100000,
		Body: func(x *vs.X) {
			w := &proxyWorld{copyDone: map[int]chan struct{}{}, newPC: livePC, capacity: 16}
			x.User = w
			held := []int{7, 8, 9, 15}[vs.Choose("held", 4)]
			leaveAt := []time.Duration{0, 3 * time.Second, 5 * time.Second, 7 * time.Second, 12 * time.Second}[vs.Choose("leave", 5)]
			leaving := []int{1, 2, 8}[vs.Choose("leaving", 3)]
			if leaving > held {
				leaving = held
			}
			x.Outcome(fmt.Sprintf("capacity=16 held=%d, %d of them leave at %v", held, leaving, leaveAt))
			w.sf = &SnowflakeProxy{Capacity: 16, RelayURL: "wss://snowflake.torproject.net/", RelayDomainNamePattern: "snowflake.torproject.net$", ProxyType: "standalone",
				EventDispatcher: event.NewSnowflakeEventDispatcher(), shutdown: make(chan struct{})}
			w.install()
			for i := 0; i < held; i++ {
				tokens.get() // a client being served
			}
			vs.GoRole("clients-leave", vs.RoleDaemon, func() {
				vs.Sleep(leaveAt)
				for i := 0; i < leaving; i++ {
					w.noteInUse(0)
					tokens.ret()
					w.noteInUse(1) // the number in use just before this release (or more, if a slot was taken meanwhile)
				}
			})
			vs.GoRole("pollLoop", vs.RoleDaemon, w.pollLoop)
			vs.Sleep(30 * time.Second)
			w.stop()
		},
		Check: func(x *vs.X) {
			w := x.User.(*proxyWorld)
			for _, t := range x.Threads() {
				if t.Panic != "" {
					x.Fail("no-panic", "panic:"+firstLineP(t.Panic), "thread %s panicked: %s\n%s", t.Name, t.Panic, t.PanicAt)
				}
			}
			for _, p := range w.problems {
				x.Fail("reported-load", "bad-reported-load", "%s", p)
			}
			var oc []string
			for _, p := range w.polls {
				oc = append(oc, fmt.Sprintf("%d/%d", p.clients, p.inUse))
			}
			if len(w.polls) < 4 {
				x.Fail("polls-again", "stopped-polling", "only %d polls in 30 s", len(w.polls))
			}
			x.Outcome("reported/in-use: " + strings.Join(oc, " "))
		},
	})

	// C06 (iii): relay URL grammar through the real runSession + datachannelHandler
	schemes := []string{"wss://", "ws://", "WSS://", "https://", "", "wss:"}
	userinfos := []string{"", "snowflake.torproject.net@", "a:b@"}
	hosts := []string{"snowflake.torproject.net", "evil.example", "evilsnowflake.torproject.net", "snowflake.torproject.net.evil.example", "[2001:db8::1]", "snowflake.torproject.net.", "SNOWFLAKE.TORPROJECT.NET", "snowflake.torproject.net%00.evil.example", "evil.example#snowflake.torproject.net", "evil.example/snowflake.torproject.net", "evil.example?snowflake.torproject.net"}
	ports := []string{"", ":443", ":8080"}
	tails := []string{"/", "", "/x?y=1#@snowflake.torproject.net"}
	patterns := []string{"snowflake.torproject.net$", "^snowflake.torproject.net$", "$"}
	harnesses = append(harnesses, &vs.Harness{
		Name:     "c06-proxy",
		Horizon:  5 * time.Minute,
		MaxSteps: 100000,
		Body: func(x *vs.X) {
			w := &proxyWorld{copyDone: map[int]chan struct{}{}, newPC: livePC, capacity: 1}
			x.User = w
			u := schemes[vs.Choose("scheme", len(schemes))] + userinfos[vs.Choose("userinfo", len(userinfos))] + hosts[vs.Choose("host", len(hosts))] + ports[vs.Choose("port", len(ports))] + tails[vs.Choose("tail", len(tails))]
			pat := patterns[vs.Choose("pattern", len(patterns))]
			nonTLS := vs.Choose("nontls", 2) == 1
			w.script = []int{pathRelayDown}
			w.relayURL = []string{u}
			// optionally an earlier session on the same proxy whose relay URL is a good one (TLS, inside every
			// pattern used here): whatever the proxy remembers from it must not change the verdict on the next
			prior := cfgInt(x, "prior", 0) > 0 && vs.Choose("prior", 2) == 1
			if prior {
				w.script = []int{pathRelayDown, pathRelayDown}
				w.relayURL = []string{"wss://snowflake.torproject.net/", u}
			}
			x.Outcome(fmt.Sprintf("url=%q pattern=%q nonTLS=%v prior=%v", u, pat, nonTLS, prior))
			w.sf = &SnowflakeProxy{Capacity: 1, RelayURL: "wss://snowflake.torproject.net/", RelayDomainNamePattern: pat, AllowNonTLSRelay: nonTLS, ProxyType: "standalone",
				EventDispatcher: event.NewSnowflakeEventDispatcher(), shutdown: make(chan struct{})}
			w.install()
			vs.GoRole("pollLoop", vs.RoleDaemon, w.pollLoop)
			vs.Sleep(90 * time.Second)
			w.stop()
		},
		Check: func(x *vs.X) {
			w := x.User.(*proxyWorld)
			defer closePCs(w)
			for _, t := range x.Threads() {
				if t.Panic != "" {
					x.Fail("no-panic", "panic:"+firstLineP(t.Panic), "thread %s panicked on relay URL %q: %s\n%s", t.Name, w.relayURL[0], t.Panic, t.PanicAt)
				}
			}
			m := namematcher.NewNameMatcher(w.sf.RelayDomainNamePattern)
			x.Outcome(fmt.Sprintf("dialled=%v count=%d", w.dialled, tokens.count()))
			judged := w.dialled
			if len(w.relayURL) == 2 {
				// the earlier session's dial (its URL is acceptable under every pattern used) is not the one judged
				if len(judged) > 0 && judged[0] == "snowflake.torproject.net:443" {
					judged = judged[1:]
				}
				w.relayURL = w.relayURL[1:]
			}
			for _, d := range judged {
				host := d
				if h, _, err := netSplit(d); err == nil {
					host = h
				}
				if !m.IsMember(host) {
					x.Fail("relay-pattern", "dialled-outside-pattern", "broker-supplied relay URL %q: the proxy dialled %q, which its pattern %q does not accept", w.relayURL[0], d, w.sf.RelayDomainNamePattern)
				}
				// scheme: a connection is only allowed over TLS unless non-TLS relays were allowed
				if pu, err := url.Parse(w.relayURL[0]); err == nil && pu.Scheme != "wss" && !w.sf.AllowNonTLSRelay {
					x.Fail("relay-tls", "dialled-without-tls", "relay URL %q (scheme %q) was dialled although non-TLS relays are not allowed", w.relayURL[0], pu.Scheme)
				}
			}
			if tokens.count() != 0 || len(tokens.ch) != 0 {
				x.Fail("slots-released-once", "slot-not-released-after-rejected-url", "relay URL %q: %d clients counted, %d tokens held afterwards", w.relayURL[0], tokens.count(), len(tokens.ch))
			}
		},
	})
}

func firstLineP(s string) string {
	if i := strings.IndexByte(s, '\n'); i >= 0 {
		return s[:i]
	}
	return s
}

// c20-byteslogger: the per-connection traffic logger.  Two data-path threads account sends and
// receives (distinct amounts, so that every byte total identifies its event count) while a third does
// what the data channel's OnClose handler does (ThroughputSummary, then GetStat).  Every summary must
// pair byte totals with the event counts of the same instant; once everything is applied the totals are
// exact.  In race mode (C20) the same executions are watched by the race detector.
func init() {
	type blWorld struct {
		b        *bytesSyncLogger
		summary  []string
		in, out  int
		finalIn  int
		finalOut int
	}
	harnesses = append(harnesses, &vs.Harness{
		Name:     "c20-byteslogger",
		Horizon:  time.Minute,
		MaxSteps: 20000,
		Body: func(x *vs.X) {
			w := &blWorld{}
			x.User = w
			w.b = newBytesSyncLogger()
			nsum := 1 + vs.Choose("summaries", 2)
			vs.GoRole("sender", vs.RoleDaemon, func() {
				w.b.AddOutbound(3)
				w.b.AddOutbound(5)
			})
			vs.GoRole("receiver", vs.RoleDaemon, func() {
				w.b.AddInbound(7)
			})
			vs.GoRole("onclose", vs.RoleDaemon, func() {
				for i := 0; i < nsum; i++ {
					w.summary = append(w.summary, w.b.ThroughputSummary())
				}
				w.in, w.out = w.b.GetStat()
			})
			vs.Sleep(10 * time.Second)
			w.summary = append(w.summary, w.b.ThroughputSummary())
			w.finalIn, w.finalOut = w.b.GetStat()
		},
		Check: func(x *vs.X) {
			w := x.User.(*blWorld)
			for _, t := range x.Threads() {
				if t.Panic != "" {
					x.Fail("no-panic", "panic:"+firstLineP(t.Panic), "thread %s panicked: %s\n%s", t.Name, t.Panic, t.PanicAt)
				}
			}
			outEv := map[int]int{0: 0, 3: 1, 5: 1, 8: 2}
			inEv := map[int]int{0: 0, 7: 1}
			for _, s := range w.summary {
				var in, out, oe, ie, secs int
				var iu, ou string
				if _, err := fmt.Sscanf(s, "Traffic throughput (up|down): %d %s -- (%d OnMessages, %d Sends, over %d seconds)", &in, &iu, &oe, &ie, &secs); err != nil {
					// "%d B|%d B": split by hand
					var rest string
					parts := strings.SplitN(strings.TrimPrefix(s, "Traffic throughput (up|down): "), " -- ", 2)
					if len(parts) != 2 {
						x.Fail("summary", "unparseable-summary", "%q", s)
						continue
					}
					lr := strings.SplitN(parts[0], "|", 2)
					if len(lr) != 2 {
						x.Fail("summary", "unparseable-summary", "%q", s)
						continue
					}
					fmt.Sscanf(lr[0], "%d %s", &in, &iu)
					fmt.Sscanf(lr[1], "%d %s", &out, &ou)
					rest = parts[1]
					if _, err := fmt.Sscanf(rest, "(%d OnMessages, %d Sends, over %d seconds)", &oe, &ie, &secs); err != nil {
						x.Fail("summary", "unparseable-summary", "%q: %v", s, err)
						continue
					}
				}
				wo, ok1 := outEv[out]
				wi, ok2 := inEv[in]
				if !ok1 || !ok2 || wo != oe || wi != ie {
					x.Fail("summary", "torn-throughput-summary", "summary %q pairs byte totals (in %d, out %d) with event counts (%d, %d) that never existed together", s, in, out, ie, oe)
				}
			}
			if _, ok := outEv[w.out]; !ok {
				x.Fail("summary", "impossible-total", "GetStat returned out=%d", w.out)
			}
			if w.finalIn != 7 || w.finalOut != 8 {
				x.Fail("summary", "wrong-final-totals", "after everything was applied GetStat returns (%d,%d), want (7,8)", w.finalIn, w.finalOut)
			}
			x.Outcome(fmt.Sprintf("%v|%d,%d", w.summary, w.in, w.out))
		},
	})
}
