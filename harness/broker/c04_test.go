//go:build go1.21

package main

// C04 — every broker request completes in bounded time; no ghost proxies.

import (
	"fmt"
	"strconv"
	"strings"
	"time"

	"git.torproject.org/pluggable-transports/snowflake.git/v2/common/messages"
	vs "git.torproject.org/pluggable-transports/snowflake.git/v2/verifvs"
)

func cfgInt(x *vs.X, k string, def int) int {
	if v, ok := x.Cfg[k]; ok {
		n, err := strconv.Atoi(v)
		if err == nil {
			return n
		}
	}
	return def
}

var c04Arrivals = []time.Duration{0, 5 * time.Second, ProxyTimeout * time.Second, ProxyTimeout*time.Second + time.Second}

func init() {
	harnesses = append(harnesses, &vs.Harness{
		Name:    "c04",
		Horizon: 200 * time.Second,
		// the only atomics in the broker are the rounded prometheus counters, which no oracle of
		// this harness observes and which do not influence control flow
		NoAtomicPoints: true,
		Body: func(x *vs.X) {
			// configuration choices come first (before any scheduling point) so that the explorer can
			// shard by configuration
			nP := cfgInt(x, "P", 1)
			nC := cfgInt(x, "C", 1)
			nBeh := cfgInt(x, "beh", nAnsBeh)
			type pc struct {
				arr time.Duration
				beh int
			}
			var pcs []pc
			var carr []time.Duration
			for i := 0; i < nP; i++ {
				arr := time.Duration(0)
				if i > 0 {
					// a second proxy may arrive while the first one's poll is about to expire
					arr = []time.Duration{0, 5 * time.Second}[vs.Choose("parr", 2)]
				}
				pcs = append(pcs, pc{arr, vs.Choose("beh", nBeh)})
			}
			for i := 0; i < nC; i++ {
				carr = append(carr, c04Arrivals[vs.Choose("carr", len(c04Arrivals))])
			}
			// a proxy that polls again under a session id whose earlier poll is still pending (a restarted
			// or misbehaving proxy; nothing in the protocol prevents it)
			sameSid, secondNAT := false, NATUnrestricted
			if x.Cfg["dup"] == "1" && nP >= 2 {
				sameSid = vs.Choose("samesid", 2) == 1
				secondNAT = []string{NATUnrestricted, NATRestricted}[vs.Choose("nat2", 2)]
			}
			// NAT types the proxies and the clients report (cfg "nats": how many of the four kinds, default 1)
			natKinds := []string{NATUnrestricted, NATRestricted, NATUnknown, ""}
			nNat := cfgInt(x, "nats", 1)
			firstNAT, clientNAT := NATUnrestricted, "unknown"
			if nNat > 1 {
				firstNAT = natKinds[vs.Choose("pnat", nNat)]
				clientNAT = []string{"unknown", "unrestricted", "restricted"}[vs.Choose("cnat", 3)]
			}
			// the first client may name a well-formed fingerprint that is not in the bridge list (it is refused)
			absentFirst := x.Cfg["fp"] == "2" && vs.Choose("absentfp", 2) == 1
			w := newWorld()
			x.User = w
			for i, p := range pcs {
				nat := firstNAT
				if i == 1 {
					nat = secondNAT
				}
				pr := w.addProxy(nat, "standalone", 0, p.arr, p.beh)
				if i == 1 && sameSid {
					pr.sid = w.proxies[0].sid
				}
			}
			for i, a := range carr {
				fp := ""
				if i == 0 && absentFirst {
					fp = fpAbsent
				}
				w.addClient(clientNAT, fp, a, viaIPC)
			}
			var sb strings.Builder
			for _, p := range w.proxies {
				fmt.Fprintf(&sb, "P%d(%s,arr=%v,%s,%s) ", p.idx, p.sid, p.arrive, p.natWire, ansBehName[p.beh])
			}
			for _, c := range w.clients {
				fmt.Fprintf(&sb, "C%d(arr=%v) ", c.idx, c.arrive)
			}
			x.Outcome(sb.String())
			w.start()
			vs.Sleep(100 * time.Second)
			if w.allDone() {
				w.probeAfter()
			}
		},
		Check: func(x *vs.X) {
			w := x.User.(*world)
			w.outcome(x)
			for _, t := range panics(x) {
				x.Fail("no-panic", "panic:"+firstLine(t.Panic), "thread %s panicked: %s\n%s", t.Name, t.Panic, t.PanicAt)
			}
			if bl := blockedRequests(x); len(bl) > 0 {
				x.Fail("bounded-time", "hang:"+strings.Join(bl, "+"), "request threads never returned: %v", bl)
			}
			const lim = 10 * time.Second
			for _, p := range w.proxies {
				if p.pollDone && p.pollEnd-p.pollStart > lim {
					x.Fail("bounded-time", "latency:poll", "proxy poll took %v", p.pollEnd-p.pollStart)
				}
				for _, a := range p.answers {
					if a.done && a.end-a.start > lim {
						x.Fail("bounded-time", "latency:answer", "proxy answer took %v", a.end-a.start)
					}
				}
			}
			for _, c := range w.clients {
				if c.done && c.end-c.start > lim {
					x.Fail("bounded-time", "latency:client", "client poll took %v", c.end-c.start)
				}
			}
			if !w.probed {
				return
			}
			ctx := w.ctx
			if n := len(ctx.idToSnowflake); n != 0 {
				x.Fail("no-ghost", "ghost:idToSnowflake", "%d registrations left after all requests completed", n)
			}
			if n := ctx.snowflakes.Len() + ctx.restrictedSnowflakes.Len(); n != 0 {
				x.Fail("no-ghost", "ghost:heap", "%d heap entries left after all requests completed", n)
			}
			if w.gauge != 0 {
				x.Fail("no-ghost", "ghost:gauge", "available_proxies gauge sums to %v after all requests completed", w.gauge)
			}
			if !strings.HasPrefix(w.debug, "current snowflakes available: 0\n") {
				x.Fail("no-ghost", "ghost:debug", "/debug reports %q", firstLine(w.debug))
			}
			if !w.probe.done || w.probe.errStr != messages.StrNoProxies {
				x.Fail("no-ghost", "ghost:probe", "fresh client was not told 'no proxies': done=%v answer=%q err=%q", w.probe.done, w.probe.answer, w.probe.errStr)
			}
		},
	})
}

func firstLine(s string) string {
	if i := strings.IndexByte(s, '\n'); i >= 0 {
		return s[:i]
	}
	return s
}
