//go:build go1.21

package main

// C19 — published broker counts are rounded up to 8 and never too low (SCHED parts): the rounded
// prometheus counter under concurrent Inc/Write (linearizability, brute force), the metrics log and
// the rounded counters after driven IPC traffic, per-type unique address figures.

import (
	"bytes"
	"fmt"
	"git.torproject.org/pluggable-transports/snowflake.git/v2/common/ipsetsink"
	"git.torproject.org/pluggable-transports/snowflake.git/v2/common/ipsetsink/sinkcluster"
	"log"
	"regexp"
	"sort"
	"strconv"
	"strings"
	"time"

	"git.torproject.org/pluggable-transports/snowflake.git/v2/common/messages"
	vs "git.torproject.org/pluggable-transports/snowflake.git/v2/verifvs"
	dto "github.com/prometheus/client_model/go"
)

type ctrOp struct {
	inc       bool
	call, ret int
	val       uint64 // value read (Write)
}

type ctrWorld struct {
	c     *roundedCounter
	clock int
	ops   []*ctrOp
	base  int
	nInc  int
}

func ceil8(n uint64) uint64 { return (n + 7) / 8 * 8 }

// linearizable: is there a total order of the operations, consistent with real time (a.ret < b.call
// => a before b), in which every read returns ceil8(base + number of Incs before it)?
func linearizable(ops []*ctrOp, base uint64) bool {
	n := len(ops)
	used := make([]bool, n)
	var rec func(done int, count uint64) bool
	rec = func(done int, count uint64) bool {
		if done == n {
			return true
		}
		for i, o := range ops {
			if used[i] {
				continue
			}
			// o may come next only if no unused operation returned before o was called
			ok := true
			for j, p := range ops {
				if !used[j] && j != i && p.ret < o.call {
					ok = false
					break
				}
			}
			if !ok {
				continue
			}
			if o.inc {
				used[i] = true
				if rec(done+1, count+1) {
					return true
				}
				used[i] = false
			} else if o.val == ceil8(count) {
				used[i] = true
				if rec(done+1, count) {
					return true
				}
				used[i] = false
			}
		}
		return false
	}
	return rec(0, base)
}

func init() {
	harnesses = append(harnesses, &vs.Harness{
		Name:    "c19-counter",
		Horizon: time.Minute,
		Body: func(x *vs.X) {
			w := &ctrWorld{c: &roundedCounter{}}
			x.User = w
			w.base = []int{0, 7, 8}[vs.Choose("base", 3)]
			nThreads := 2 + vs.Choose("threads", cfgInt(x, "threads", 2))
			perThread := 1 + vs.Choose("incs", 2)
			for i := 0; i < w.base; i++ {
				w.c.Inc()
			}
			x.Outcome(fmt.Sprintf("base=%d threads=%d incs=%d", w.base, nThreads, perThread))
			for t := 0; t < nThreads; t++ {
				vs.GoRole(fmt.Sprintf("inc%d", t), vs.RoleRequest, func() {
					for i := 0; i < perThread; i++ {
						op := &ctrOp{inc: true}
						w.clock++
						op.call = w.clock
						w.ops = append(w.ops, op)
						w.c.Inc()
						w.clock++
						op.ret = w.clock
						w.nInc++
					}
				})
			}
			vs.GoRole("reader", vs.RoleRequest, func() {
				for i := 0; i < 2; i++ {
					op := &ctrOp{}
					w.clock++
					op.call = w.clock
					w.ops = append(w.ops, op)
					var m dto.Metric
					w.c.Write(&m)
					op.val = uint64(m.GetCounter().GetValue())
					w.clock++
					op.ret = w.clock
				}
			})
		},
		Check: func(x *vs.X) {
			w := x.User.(*ctrWorld)
			for _, t := range x.Threads() {
				if t.Panic != "" {
					x.Fail("no-panic", "panic:"+firstLine(t.Panic), "%s", t.PanicAt)
				}
				if t.Role == vs.RoleRequest && !t.Done {
					x.Fail("terminates", "counter-op-blocked", "thread %s blocked", t.Name)
					return
				}
			}
			total := uint64(w.base + w.nInc)
			var m dto.Metric
			w.c.Write(&m)
			final := uint64(m.GetCounter().GetValue())
			var reads []uint64
			for _, o := range w.ops {
				if !o.inc {
					reads = append(reads, o.val)
				}
			}
			x.Outcome(fmt.Sprintf("final=%d reads=%v", final, reads))
			if final != ceil8(total) {
				kind := "too-high"
				if final < total {
					kind = "too-low"
				} else if final%8 != 0 {
					kind = "not-multiple-of-8"
				}
				x.Fail("rounded-up-to-8", "rounded-counter-final:"+kind, "after %d events (base %d + %d concurrent Inc) the published value is %d, want %d", total, w.base, w.nInc, final, ceil8(total))
			}
			if !linearizable(w.ops, uint64(w.base)) {
				x.Fail("linearizable", "rounded-counter-not-linearizable", "no linearization of the history explains the values read: base %d, reads %v, %d Incs", w.base, reads, w.nInc)
			}
		},
	})
}

// ---------------------------------------------------------------------------------------------
// metrics log and rounded counters after driven traffic

var c19Counts = []int{0, 1, 7, 8, 9, 16, 17}

const (
	evIdle = iota // proxy poll that times out
	evDeniedRestricted
	evDeniedUnrestricted
	evMatched
	evPollWithExt
	evPollWithoutExt
	evPollRejected
	evDeniedMixed // client denials, restricted and unrestricted in turn
	evIdleMixed   // idle polls, with and without the relay-pattern extension in turn
	nEvents
)

var evName = []string{"idle-poll", "client-denied(restricted)", "client-denied(unrestricted)", "matched", "poll-with-relay-ext", "poll-without-relay-ext", "poll-rejected", "client-denied(restricted/unrestricted in turn)", "idle-poll(with/without relay extension in turn)"}

func parseMetricsLog(s string) map[string]string {
	m := map[string]string{}
	for _, l := range strings.Split(s, "\n") {
		f := strings.SplitN(l, " ", 2)
		if len(f) == 2 {
			m[f[0]] = strings.TrimSpace(f[1])
		}
	}
	return m
}

func (w *world) promCounter(name string, labels map[string]string) float64 {
	mfs, _ := w.ctx.metrics.promMetrics.registry.Gather()
	var sum float64
	for _, mf := range mfs {
		if mf.GetName() != name {
			continue
		}
		for _, m := range mf.Metric {
			ok := true
			for k, v := range labels {
				found := false
				for _, lp := range m.Label {
					if lp.GetName() == k && lp.GetValue() == v {
						found = true
					}
				}
				ok = ok && found
			}
			if ok {
				sum += m.GetCounter().GetValue()
			}
		}
	}
	return sum
}

type c19mWorld struct {
	w        *world
	ev, n    int
	n2       int
	log      string
	log2     string
	prom     float64
	promName string
	promWant int // -1: n
	// a second published series (kinds that feed two label combinations)
	prom2     float64
	prom2Name string
	prom2Want int
}

func init() {
	harnesses = append(harnesses, &vs.Harness{
		Name:     "c19-metrics",
		Horizon:  72 * time.Hour,
		MaxSteps: 100000,
		Body: func(x *vs.X) {
			mw := &c19mWorld{promWant: -1}
			x.User = mw
			mw.ev = vs.Choose("event", nEvents)
			mw.n = c19Counts[vs.Choose("count", len(c19Counts))]
			mw.n2 = []int{0, 1, 9}[vs.Choose("second-period", 3)]
			x.Outcome(fmt.Sprintf("%s x %d, then x %d in the next period", evName[mw.ev], mw.n, mw.n2))
			keepMetricsOrder = true
			w := newWorld()
			keepMetricsOrder = false
			mw.w = w
			var buf bytes.Buffer
			w.ctx.metrics.logger = log.New(&buf, "", 0)
			if mw.ev == evPollRejected {
				w.installPatterns("snowflake.torproject.net$", "")
			}
			doEvent := func(i int) {
				switch mw.ev {
				case evIdle:
					p := w.addProxy(NATUnrestricted, "standalone", 0, 0, ansNever)
					w.runProxy(p)
				case evDeniedRestricted:
					c := w.addClient("restricted", "", 0, viaIPC)
					w.runClient(c)
				case evDeniedUnrestricted:
					c := w.addClient("unrestricted", "", 0, viaIPC)
					w.runClient(c)
				case evMatched:
					p := w.addProxy(NATUnrestricted, "standalone", 0, 0, ansPrompt)
					vs.GoRole(fmt.Sprintf("mproxy%d", i), vs.RoleDaemon, func() { w.runProxy(p) })
					vs.Sleep(time.Second)
					c := w.addClient("unknown", "", 0, viaIPC)
					w.runClient(c)
					vs.Sleep(time.Second)
				case evPollWithExt:
					p := w.addProxy(NATUnrestricted, "standalone", 0, 0, ansNever)
					w.runProxy(p)
				case evPollWithoutExt:
					p := w.addProxy(NATUnrestricted, "standalone", 0, 0, ansNever)
					p.pattern = nil
					w.runProxy(p)
				case evPollRejected:
					p := w.addProxy(NATUnrestricted, "standalone", 0, 0, ansNever)
					bad := "example.com$"
					p.pattern = &bad
					w.runProxy(p)
				case evDeniedMixed:
					nat := "restricted"
					if i%2 == 1 {
						nat = "unrestricted"
					}
					c := w.addClient(nat, "", 0, viaIPC)
					w.runClient(c)
				case evIdleMixed:
					p := w.addProxy(NATUnrestricted, "standalone", 0, 0, ansNever)
					if i%2 == 1 {
						p.pattern = nil
					}
					w.runProxy(p)
				}
			}
			for i := 0; i < mw.n; i++ {
				doEvent(i)
			}
			switch mw.ev {
			case evIdle, evIdleMixed:
				mw.promName, mw.prom = "snowflake_rounded_proxy_poll_total{status=idle}", w.promCounter("snowflake_rounded_proxy_poll_total", map[string]string{"status": "idle"})
			case evDeniedMixed:
				// one published series per NAT label: each is judged on its own
				mw.promName, mw.prom = "snowflake_rounded_client_poll_total{nat=restricted,status=denied}", w.promCounter("snowflake_rounded_client_poll_total", map[string]string{"status": "denied", "nat": "restricted"})
				mw.promWant = (mw.n + 1) / 2
				mw.prom2Name, mw.prom2 = "snowflake_rounded_client_poll_total{nat=unrestricted,status=denied}", w.promCounter("snowflake_rounded_client_poll_total", map[string]string{"status": "denied", "nat": "unrestricted"})
				mw.prom2Want = mw.n / 2
			case evDeniedRestricted, evDeniedUnrestricted:
				mw.promName, mw.prom = "snowflake_rounded_client_poll_total{status=denied}", w.promCounter("snowflake_rounded_client_poll_total", map[string]string{"status": "denied"})
			case evMatched:
				mw.promName, mw.prom = "snowflake_rounded_client_poll_total{status=matched}", w.promCounter("snowflake_rounded_client_poll_total", map[string]string{"status": "matched"})
			case evPollWithExt:
				mw.promName, mw.prom = "snowflake_rounded_proxy_poll_with_relay_url_extension_total", w.promCounter("snowflake_rounded_proxy_poll_with_relay_url_extension_total", nil)
			case evPollWithoutExt:
				mw.promName, mw.prom = "snowflake_rounded_proxy_poll_without_relay_url_extension_total", w.promCounter("snowflake_rounded_proxy_poll_without_relay_url_extension_total", nil)
			case evPollRejected:
				mw.promName, mw.prom = "snowflake_rounded_proxy_poll_rejected_relay_url_extension_total", w.promCounter("snowflake_rounded_proxy_poll_rejected_relay_url_extension_total", nil)
			}
			// the end of the period: the broker's own ticker prints and zeroes (virtual time)
			vs.Sleep(metricsResolution + time.Second - vs.Elapsed())
			mw.log = buf.String()
			buf.Reset()
			// a second period with n2 events of the same kind: its figures start from zero
			for i := 0; i < mw.n2; i++ {
				doEvent(mw.n + i)
			}
			vs.Sleep(2*metricsResolution + time.Second - vs.Elapsed())
			mw.log2 = buf.String()
		},
		Check: func(x *vs.X) {
			mw := x.User.(*c19mWorld)
			for _, t := range x.Threads() {
				if t.Panic != "" {
					x.Fail("no-panic", "panic:"+firstLine(t.Panic), "%s", t.PanicAt)
				}
				if t.Name == "main" && !t.Done {
					x.Fail("terminates", "driver-blocked@"+t.Site, "driver blocked at %s", t.Site)
					return
				}
			}
			var oc []string
			for period, lg := range []string{mw.log, mw.log2} {
				n, start := mw.n, 0
				if period == 1 {
					n, start = mw.n2, mw.n
				}
				if c := strings.Count(lg, "snowflake-stats-end"); c != 1 {
					x.Fail("metrics-log", "period-not-logged-once", "period %d: the metrics log holds %d period headers, want 1", period+1, c)
					continue
				}
				oc = append(oc, mw.judgePeriod(x, period+1, start, n, lg))
			}
			pw := mw.n
			if mw.promWant >= 0 {
				pw = mw.promWant
			}
			if uint64(mw.prom) != ceil8(uint64(pw)) {
				x.Fail("rounded-up-to-8", "prometheus-counter-wrong:"+strings.SplitN(mw.promName, "{", 2)[0], "%d x %s: %s = %v, want ceil8(%d) = %d", mw.n, evName[mw.ev], mw.promName, mw.prom, pw, ceil8(uint64(pw)))
			}
			if mw.prom2Name != "" && uint64(mw.prom2) != ceil8(uint64(mw.prom2Want)) {
				x.Fail("rounded-up-to-8", "prometheus-counter-wrong:"+strings.SplitN(mw.prom2Name, "{", 2)[0], "%d x %s: %s = %v, want ceil8(%d) = %d", mw.n, evName[mw.ev], mw.prom2Name, mw.prom2, mw.prom2Want, ceil8(uint64(mw.prom2Want)))
			}
			x.Outcome(strings.Join(oc, " || ") + fmt.Sprintf(" prom=%v", mw.prom))
		},
	})

	// unique addresses per proxy type
	ipAddrs := []string{"1.2.3.4", "1.2.3.5", "5.6.7.8"}
	ipTypes := []string{"standalone", "webext", "badge", "iptproxy", "foo"}
	harnesses = append(harnesses, &vs.Harness{
		Name:     "c19-ips",
		Horizon:  72 * time.Hour,
		MaxSteps: 100000,
		Body: func(x *vs.X) {
			k := 1 + vs.Choose("len", cfgInt(x, "maxlen", 3))
			// conc: the polls of a period arrive together (their handlers overlap) instead of one after the other
			conc := x.Cfg["conc"] == "1"
			var seq []c19Poll
			for i := 0; i < k; i++ {
				na, nt := len(ipAddrs), len(ipTypes)
				if conc {
					// interleavings multiply: two addresses, the first proxy types up to cfg "types" (default 3)
					na, nt = 2, cfgInt(x, "types", 3)
				}
				ai := vs.Choose("addr", na)
				pl := c19Poll{ipAddrs[ai], ipTypes[vs.Choose("type", nt)], ""}
				if conc {
					// which of two overlapping polls is "first" is not defined: an address always reports one NAT type
					pl.nat = []string{NATUnrestricted, NATRestricted}[ai%2]
				} else {
					pl.nat = []string{NATUnrestricted, NATRestricted}[vs.Choose("nat", 2)]
				}
				seq = append(seq, pl)
			}
			// the next period: nobody / the first proxy of the first period again / a proxy not seen before
			var seq2 []c19Poll
			n2 := 3
			if conc {
				n2 = 2 // nobody, or the first proxy again
			}
			switch vs.Choose("second-period", n2) {
			case 1:
				seq2 = []c19Poll{seq[0]}
			case 2:
				seq2 = []c19Poll{{"5.6.7.9", "webext", NATRestricted}, seq[0]}
			}
			iw := &c19iWorld{}
			x.User = iw
			x.Outcome(fmt.Sprint(seq, " then ", seq2))
			keepMetricsOrder = true
			w := newWorld()
			keepMetricsOrder = false
			if err := w.ctx.metrics.LoadGeoipDatabases("/repo/broker/test_geoip", "/repo/broker/test_geoip6"); err != nil {
				panic(err)
			}
			var buf bytes.Buffer
			w.ctx.metrics.logger = log.New(&buf, "", 0)
			for period, sq := range [][]c19Poll{seq, seq2} {
				ref := c19Period{perType: map[string]map[string]bool{}, nat: map[string]map[string]bool{}}
				for pi, pl := range sq {
					p := w.addProxy(pl.nat, pl.typ, 0, 0, ansNever)
					p.remote = pl.addr + ":4000"
					if conc {
						vs.GoRole(fmt.Sprintf("poll%d.%d", period, pi), vs.RoleRequest, func() { w.runProxy(p) })
					} else {
						w.runProxy(p)
					}
					typ := pl.typ
					if !messages.KnownProxyTypes[typ] {
						typ = "unknown"
					}
					if ref.perType[typ] == nil {
						ref.perType[typ] = map[string]bool{}
					}
					if !ref.perType[typ][pl.addr] {
						// the NAT figures count an address under the NAT type it reported when it was
						// first seen with a proxy type in this period
						if ref.nat[pl.nat] == nil {
							ref.nat[pl.nat] = map[string]bool{}
						}
						ref.nat[pl.nat][pl.addr] = true
					}
					ref.perType[typ][pl.addr] = true
				}
				// the end of the period: the broker's own ticker prints and zeroes (virtual time)
				vs.Sleep(time.Duration(period+1)*metricsResolution + time.Second - vs.Elapsed())
				ref.log = buf.String()
				buf.Reset()
				iw.periods = append(iw.periods, ref)
			}
		},
		Check: func(x *vs.X) {
			iw := x.User.(*c19iWorld)
			for _, t := range x.Threads() {
				if t.Panic != "" {
					x.Fail("no-panic", "panic:"+firstLine(t.Panic), "%s", t.PanicAt)
					return
				}
				if t.Name == "main" && !t.Done {
					x.Fail("terminates", "driver-blocked@"+t.Site, "driver blocked at %s", t.Site)
					return
				}
			}
			var oc []string
			for pi, ref := range iw.periods {
				if c := strings.Count(ref.log, "snowflake-stats-end"); c != 1 {
					x.Fail("metrics-log", "period-not-logged-once", "period %d: the metrics log holds %d period headers, want 1", pi+1, c)
					continue
				}
				m := parseMetricsLog(ref.log)
				total := 0
				for typ := range messages.KnownProxyTypes {
					want := len(ref.perType[typ])
					total += want
					if m["snowflake-ips-"+typ] != strconv.Itoa(want) {
						x.Fail("unique-addresses", "ips-per-type-wrong", "period %d: snowflake-ips-%s = %q, want %d", pi+1, typ, m["snowflake-ips-"+typ], want)
					}
				}
				total += len(ref.perType["unknown"])
				if m["snowflake-ips-total"] != strconv.Itoa(total) {
					x.Fail("unique-addresses", "ips-total-wrong", "period %d: snowflake-ips-total = %q, want %d (once per address and proxy type)", pi+1, m["snowflake-ips-total"], total)
				}
				// country counts: once per (address, type)
				sum := 0
				for _, kv := range regexp.MustCompile(`[A-Za-z?]{2}=(\d+)`).FindAllStringSubmatch(m["snowflake-ips"], -1) {
					n, _ := strconv.Atoi(kv[1])
					sum += n
				}
				if sum != total {
					x.Fail("unique-addresses", "country-counts-wrong", "period %d: country counts %q sum to %d, want %d", pi+1, m["snowflake-ips"], sum, total)
				}
				for nat, line := range map[string]string{NATRestricted: "snowflake-ips-nat-restricted", NATUnrestricted: "snowflake-ips-nat-unrestricted", NATUnknown: "snowflake-ips-nat-unknown"} {
					if m[line] != strconv.Itoa(len(ref.nat[nat])) {
						x.Fail("unique-addresses", "ips-per-nat-wrong", "period %d: %s = %q, want %d", pi+1, line, m[line], len(ref.nat[nat]))
					}
				}
				oc = append(oc, fmt.Sprintf("total=%s ips=%s nat=%s/%s/%s", m["snowflake-ips-total"], m["snowflake-ips"], m["snowflake-ips-nat-restricted"], m["snowflake-ips-nat-unrestricted"], m["snowflake-ips-nat-unknown"]))
			}
			x.Outcome(strings.Join(oc, " || "))
		},
	})
}

type c19Poll struct{ addr, typ, nat string }

type c19Period struct {
	perType map[string]map[string]bool
	nat     map[string]map[string]bool
	log     string
}

// judgePeriod compares one period's metrics log with the true event counts of that period.
func (mw *c19mWorld) judgePeriod(x *vs.X, period, start, n int, lg string) string {
	m := parseMetricsLog(lg)
	// events start..start+n-1 fell into this period; the even-numbered ones are of the first kind
	even := (start+n+1)/2 - (start+1)/2
	odd := n - even
	want := map[string]int{
		"snowflake-idle-count": 0, "client-denied-count": 0, "client-restricted-denied-count": 0, "client-unrestricted-denied-count": 0,
		"client-snowflake-match-count": 0, "snowflake-proxy-poll-with-relay-url-count": 0, "snowflake-proxy-poll-without-relay-url-count": 0, "snowflake-proxy-rejected-for-relay-url-count": 0,
	}
	switch mw.ev {
	case evIdle:
		want["snowflake-idle-count"], want["snowflake-proxy-poll-with-relay-url-count"] = n, n
	case evDeniedRestricted:
		want["client-denied-count"], want["client-restricted-denied-count"] = n, n
	case evDeniedUnrestricted:
		want["client-denied-count"], want["client-unrestricted-denied-count"] = n, n
	case evMatched:
		want["client-snowflake-match-count"], want["snowflake-proxy-poll-with-relay-url-count"] = n, n
	case evPollWithExt:
		want["snowflake-idle-count"], want["snowflake-proxy-poll-with-relay-url-count"] = n, n
	case evPollWithoutExt:
		want["snowflake-idle-count"], want["snowflake-proxy-poll-without-relay-url-count"] = n, n
	case evPollRejected:
		want["snowflake-proxy-poll-with-relay-url-count"], want["snowflake-proxy-rejected-for-relay-url-count"] = n, n
	case evDeniedMixed:
		want["client-denied-count"], want["client-restricted-denied-count"], want["client-unrestricted-denied-count"] = n, even, odd
	case evIdleMixed:
		want["snowflake-idle-count"], want["snowflake-proxy-poll-with-relay-url-count"], want["snowflake-proxy-poll-without-relay-url-count"] = n, even, odd
	}
	var keys []string
	for k := range want {
		keys = append(keys, k)
	}
	sort.Strings(keys)
	var oc []string
	for _, k := range keys {
		got, err := strconv.Atoi(m[k])
		oc = append(oc, fmt.Sprintf("%s=%s", k, m[k]))
		if err != nil {
			x.Fail("metrics-log", "metrics-line-missing:"+k, "period %d: metrics log has no parsable line %q (%q)", period, k, m[k])
			continue
		}
		if uint64(got) != ceil8(uint64(want[k])) {
			x.Fail("rounded-up-to-8", "metrics-log-count-wrong:"+k, "period %d, %d x %s: log says %s=%d, want ceil8(%d)=%d", period, n, evName[mw.ev], k, got, want[k], ceil8(uint64(want[k])))
		}
	}
	return strings.Join(oc, " ")
}

type c19iWorld struct {
	periods []c19Period
}

// c20-ticker: the daily metrics ticker fires while requests are in flight (race mode only matters).
func init() {
	harnesses = append(harnesses, &vs.Harness{
		Name:     "c20-ticker",
		Horizon:  25 * time.Hour,
		MaxSteps: 100000,
		Body: func(x *vs.X) {
			keepMetricsOrder = true
			w := newWorld()
			keepMetricsOrder = false
			x.User = w
			var buf bytes.Buffer
			w.ctx.metrics.logger = log.New(&buf, "", 0)
			day := 24 * time.Hour
			// requests whose metrics updates coincide with the ticker's printMetrics/zeroMetrics
			p := w.addProxy(NATUnrestricted, "standalone", 0, day-10*time.Second, ansNever) // idle poll ends exactly at 24 h
			c := w.addClient("restricted", "", day, viaIPC)                                 // denied exactly at 24 h
			p2 := w.addProxy(NATUnrestricted, "webext", 0, day, ansPrompt)                  // polls exactly at 24 h
			_ = p
			_ = c
			_ = p2
			w.start()
			x.Outcome("ticker")
		},
		Check: func(x *vs.X) {},
	})
}

// c20-journal: several proxy polls at the same instant on a broker that records distinct addresses in
// the journal (ClusterWriter + IPSetSink have no locking of their own; the broker's metrics lock is
// what serialises them).  Race mode is what matters; in normal mode the journal is only required to
// hold one chunk per due interval.
type c20MemFile struct{ bytes.Buffer }

func (*c20MemFile) Sync() error { return nil }

func init() {
	harnesses = append(harnesses, &vs.Harness{
		Name:     "c20-journal",
		Horizon:  time.Hour,
		MaxSteps: 100000,
		Body: func(x *vs.X) {
			n := cfgInt(x, "polls", 3)
			keepMetricsOrder = true
			w := newWorld()
			keepMetricsOrder = false
			x.User = w
			f := &c20MemFile{}
			// interval 0: every recorded address finds a chunk due, so that the roll-over sequence
			// (dump, write, reset, add) of concurrent polls overlaps
			w.ctx.metrics.SetIPAddressRecorder(sinkcluster.NewClusterWriter(f, 0, ipsetsink.NewIPSetSink("verif-key")))
			for i := 0; i < n; i++ {
				p := w.addProxy(NATUnrestricted, "standalone", 0, 0, ansNever)
				p.remote = fmt.Sprintf("10.1.%d.1:4000", i)
			}
			w.start()
			x.Outcome(fmt.Sprintf("%d concurrent polls with a journal", n))
		},
		Check: func(x *vs.X) {
			for _, t := range x.Threads() {
				if t.Panic != "" {
					x.Fail("no-panic", "panic:"+firstLine(t.Panic), "%s", t.PanicAt)
				}
			}
		},
	})
}
