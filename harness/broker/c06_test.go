//go:build go1.21

package main

// C06 (ii) — the broker rejects every proxy poll whose accepted-relay pattern (for legacy proxies the
// operator's presumed pattern) is not a superset of the allowed pattern, and never gives such a proxy
// a client.

import (
	"fmt"
	"strings"
	"time"

	"git.torproject.org/pluggable-transports/snowflake.git/v2/common/messages"
	vs "git.torproject.org/pluggable-transports/snowflake.git/v2/verifvs"
)

var c06Patterns = []string{"snowflake.torproject.net$", "^snowflake.torproject.net$", "torproject.net$", ".torproject.net$", "$", "", "net$", "example.com$", "^example.com$", "flake.torproject.net$"}

// patterns a proxy may send: the above, plus spellings that differ from them in letter case only (the
// matcher compares bytes, so these accept other names than their lower-case forms)
var c06Polled = append(append([]string{}, c06Patterns...), "Snowflake.TorProject.net$", "torproject.NET$", "^SNOWFLAKE.torproject.net$", ".Net$")

// refSuperset: does every hostname accepted by b also get accepted by a?  Independent of the
// implementation: exact patterns accept one name, suffix patterns accept every name with the suffix.
func refSuperset(a, b string) bool {
	parse := func(p string) (exact bool, s string) {
		p = strings.TrimSuffix(p, "$")
		if strings.HasPrefix(p, "^") {
			return true, p[1:]
		}
		return false, p
	}
	ea, sa := parse(a)
	eb, sb := parse(b)
	switch {
	case ea && eb:
		return sa == sb
	case ea && !eb:
		return false // a suffix pattern accepts infinitely many names
	default:
		return strings.HasSuffix(sb, sa)
	}
}

var c06PriorName = []string{"none", "explicit-empty-pattern", "allowed-pattern", "legacy(no pattern)", "same-pattern-explicit"}

type c06World struct {
	w                         *world
	allowed, presumed, polled string
	present                   bool
	p                         *proxyRec
	c                         *clientRec
	registeredAtBarrier       int
}

func init() {
	harnesses = append(harnesses, &vs.Harness{
		Name:           "c06-broker",
		Horizon:        200 * time.Second,
		NoAtomicPoints: true,
		Body: func(x *vs.X) {
			cw := &c06World{}
			x.User = cw
			cw.allowed = c06Patterns[vs.Choose("allowed", len(c06Patterns))]
			cw.polled = c06Polled[vs.Choose("polled", len(c06Polled))]
			cw.present = vs.Choose("present", 2) == 0
			cw.presumed = c06Patterns[vs.Choose("presumed", cfgInt(x, "presumed", 4))]
			// an earlier poll on the same broker (served by a client of its own if it is accepted): whatever
			// the broker remembers from it must not change the verdict on the poll that is judged
			prior := 0
			if n := cfgInt(x, "prior", 0); n > 0 {
				prior = vs.Choose("prior", n)
			}
			x.Outcome(fmt.Sprintf("allowed=%q polled=%q present=%v presumed=%q prior=%s", cw.allowed, cw.polled, cw.present, cw.presumed, c06PriorName[prior]))
			w := newWorld()
			cw.w = w
			w.installPatterns(cw.allowed, cw.presumed)
			if prior > 0 {
				pp := w.addProxy(NATUnrestricted, "standalone", 0, 0, ansPrompt)
				pp.sid = "prior-sid"
				switch prior {
				case 1:
					e := ""
					pp.pattern = &e // pattern-aware proxy accepting every relay
				case 2:
					a := cw.allowed
					pp.pattern = &a
				case 3:
					pp.pattern = nil // legacy proxy
				case 4:
					q := cw.polled
					pp.pattern = &q // the same pattern, sent explicitly
				}
				vs.GoRole("prior-proxy", vs.RoleRequest, func() { w.runProxy(pp) })
				vs.Sleep(time.Second)
				pc := w.addClient("unknown", "", 0, viaIPC)
				vs.GoRole("prior-client", vs.RoleRequest, func() { w.runClient(pc) })
				vs.Sleep(29 * time.Second) // everything about the earlier poll is over
			}
			p := w.addProxy(NATUnrestricted, "standalone", 0, 0, ansPrompt)
			if cw.present {
				pat := cw.polled
				p.pattern = &pat
			} else {
				p.pattern = nil
			}
			cw.p = p
			vs.GoRole("proxy0", vs.RoleRequest, func() { w.runProxy(p) })
			vs.Sleep(time.Second)
			w.ctx.snowflakeLock.Lock()
			cw.registeredAtBarrier = len(w.ctx.idToSnowflake) + w.ctx.snowflakes.Len() + w.ctx.restrictedSnowflakes.Len()
			w.ctx.snowflakeLock.Unlock()
			cw.c = w.addClient("unknown", "", 0, viaIPC)
			vs.GoRole("client0", vs.RoleRequest, func() { w.runClient(cw.c) })
		},
		Check: func(x *vs.X) {
			cw := x.User.(*c06World)
			checkNoPanicNoHang(x)
			eff := cw.polled
			if !cw.present {
				eff = cw.presumed
			}
			mustAccept := refSuperset(eff, cw.allowed)
			p, c := cw.p, cw.c
			rejected := p.pollDone && p.statusErr == "incorrect relay pattern"
			x.Outcome(fmt.Sprintf("rejected=%v registered=%d offer=%q client=%q/%q", rejected, cw.registeredAtBarrier, sdpOf(p.offer), c.errStr, sdpOf(c.answer)))
			if !mustAccept {
				if !rejected {
					x.Fail("poll-rejected", "non-superset-poll-not-rejected", "allowed %q, proxy pattern %q (present=%v, presumed %q): the poll was not answered with 'incorrect relay pattern' (err=%q offer=%q)", cw.allowed, cw.polled, cw.present, cw.presumed, p.statusErr, p.offer)
				}
				if cw.registeredAtBarrier != 0 {
					x.Fail("never-registered", "rejected-poll-registered", "a poll that must be rejected left %d registration entries", cw.registeredAtBarrier)
				}
				if p.offer != "" || c.answer != "" || (c.done && c.errStr != messages.StrNoProxies) {
					x.Fail("never-matched", "rejected-proxy-given-a-client", "the proxy got offer %q, the client answer %q / error %q", sdpOf(p.offer), c.answer, c.errStr)
				}
			} else if rejected {
				// not forbidden by the statement (it only says what must be rejected), but worth counting
				x.Outcome("note: superset poll rejected")
			}
		},
	})
}
