//go:build go1.21

package main

// C02 — the broker never cross-wires offers, answers or bridges.
// C03 — matches respect NAT compatibility, availability and load order.

import (
	"fmt"
	"strings"
	"time"

	"git.torproject.org/pluggable-transports/snowflake.git/v2/common/messages"
	vs "git.torproject.org/pluggable-transports/snowflake.git/v2/verifvs"
)

var c02Fps = []string{"", fpB2, fpAbsent, fpB3, fpDefault, fpB4, fpB2 + "0", fpDefault + "zz", fpB2 + " "}

// c02Unlisted: a fingerprint that names no bridge of the list: well formed but absent, or a listed one with
// junk behind it (not a fingerprint at all).  A client naming it is never matched.
func c02Unlisted(fp string) bool {
	return fp == fpAbsent || (len(fp) > 40 && (strings.HasPrefix(fp, fpB2) || strings.HasPrefix(fp, fpDefault)))
}

var c02Beh = []int{ansPrompt, ansDuplicate, ansUnknownID, ansNever, ansLate}

func expectedURL(c *clientRec) string {
	if c.via == viaLegacy {
		return urlB1
	}
	switch c.fp {
	case "", fpDefault:
		return urlB1
	case fpB2:
		return urlB2
	case fpB3, fpB4:
		return "" // listed without a relay address
	}
	return ""
}

// checkRouting is the C02 oracle, valid for every scenario of the broker world.
func checkRouting(x *vs.X, w *world) {
	// each offer is handed to at most one poll
	holder := map[string]*proxyRec{}
	for _, p := range w.proxies {
		if !p.pollDone || p.offer == "" {
			continue
		}
		if q, dup := holder[p.offer]; dup {
			x.Fail("offer-once", "offer-twice", "offer %s handed to polls %s and %s", sdpOf(p.offer), q.sid, p.sid)
		}
		holder[p.offer] = p
		var owner *clientRec
		for _, c := range w.clients {
			if c.offer == p.offer {
				owner = c
			}
		}
		if w.probe != nil && w.probe.offer == p.offer {
			owner = w.probe
		}
		if owner == nil {
			x.Fail("offer-genuine", "offer-fabricated", "poll %s received an offer no client sent: %q", p.sid, p.offer)
			continue
		}
		if want := expectedURL(owner); p.relayURL != want {
			x.Fail("relay-url", "relay-url-mismatch", "poll %s got relay URL %q for client c%d (fingerprint %q, via %s); want %q", p.sid, p.relayURL, owner.idx, owner.fp, viaName[owner.via], want)
		}
		wantNAT := owner.nat
		if wantNAT == "" || wantNAT == "-" {
			wantNAT = "unknown"
		}
		if !c03Canonical(owner.nat) {
			// a spelling outside the three names: how the broker reads it is left open
		} else if p.offerNAT != wantNAT {
			x.Fail("offer-nat", "offer-nat-mismatch", "poll %s was told client NAT %q, client c%d sent %q", p.sid, p.offerNAT, owner.idx, owner.nat)
		}
	}
	for _, c := range w.clients {
		if !c.done {
			continue
		}
		if c02Unlisted(c.fp) && c.via != viaLegacy {
			if c.answer != "" {
				x.Fail("absent-bridge", "absent-bridge-answered", "client c%d named an absent bridge but got answer %q", c.idx, c.answer)
			}
			if _, ok := holder[c.offer]; ok {
				x.Fail("absent-bridge", "absent-bridge-matched", "client c%d named an absent bridge but its offer reached poll %s", c.idx, holder[c.offer].sid)
			}
		}
		if c.answer == "" {
			continue
		}
		// the answer must be one posted by the poll that was handed this client's offer
		p := holder[c.offer]
		if p == nil {
			x.Fail("answer-routing", "answer-without-match", "client c%d got answer %q but no poll received its offer", c.idx, c.answer)
			continue
		}
		ok := false
		for _, a := range p.answers {
			if a.sid == p.sid && a.body == c.answer {
				ok = true
			}
		}
		if !ok {
			x.Fail("answer-routing", "answer-cross-wired", "client c%d got answer %q, which poll %s (the one handed its offer) did not post under its own id", c.idx, c.answer, p.sid)
		}
	}
}

func checkNoPanicNoHang(x *vs.X) {
	for _, t := range panics(x) {
		x.Fail("no-panic", "panic:"+firstLine(t.Panic), "thread %s panicked: %s\n%s", t.Name, t.Panic, t.PanicAt)
	}
	if bl := blockedRequests(x); len(bl) > 0 {
		x.Fail("bounded-time", "hang:"+strings.Join(bl, "+"), "request threads never returned: %v", bl)
	}
}

func init() {
	harnesses = append(harnesses, &vs.Harness{
		Name:    "c02",
		Horizon: 200 * time.Second,
		// the only atomics in the broker are the rounded prometheus counters, which no oracle of
		// this harness observes and which do not influence control flow
		NoAtomicPoints: true,
		Body: func(x *vs.X) {
			nP := cfgInt(x, "P", 2)
			nC := cfgInt(x, "C", 2)
			nBeh := cfgInt(x, "beh", 3)
			nVia := cfgInt(x, "via", nVia)
			nFp := cfgInt(x, "fp", 3)
			late := cfgInt(x, "arrivals", 1)
			var behs []int
			for i := 0; i < nP; i++ {
				b := c02Beh[vs.Choose("beh", nBeh)]
				if i > 0 && b < behs[i-1] {
					// proxies are interchangeable: explore non-decreasing behaviour vectors only
					b = behs[i-1]
					x.Outcome("sym-skip")
				}
				behs = append(behs, b)
			}
			type cc struct {
				fp  string
				via int
				arr time.Duration
			}
			var ccs []cc
			for i := 0; i < nC; i++ {
				c := cc{fp: c02Fps[vs.Choose("fp", nFp)], via: vs.Choose("via", nVia)}
				if late > 1 {
					c.arr = c04Arrivals[vs.Choose("carr", late)]
				}
				ccs = append(ccs, c)
			}
			w := newWorld()
			x.User = w
			for i := 0; i < nP; i++ {
				w.addProxy(NATUnrestricted, "standalone", 0, 0, behs[i])
			}
			for _, c := range ccs {
				w.addClient("unknown", c.fp, c.arr, c.via)
			}
			var sb strings.Builder
			for _, p := range w.proxies {
				fmt.Fprintf(&sb, "P%d(%s) ", p.idx, ansBehName[p.beh])
			}
			for _, c := range w.clients {
				fmt.Fprintf(&sb, "C%d(fp=%.4s,via=%s,arr=%v) ", c.idx, c.fp, viaName[c.via], c.arrive)
			}
			x.Outcome(sb.String())
			w.start()
		},
		Check: func(x *vs.X) {
			w := x.User.(*world)
			w.outcome(x)
			checkNoPanicNoHang(x)
			checkRouting(x, w)
		},
	})
}

// ---------------------------------------------------------------------------------------------
// C03

var c03ProxyNAT = []string{NATUnrestricted, NATRestricted, NATUnknown, "-"}
var c03Loads = []int{0, 8, 16}

// client NAT values: the three names, empty, absent ("-"), and spellings a decoder might be tempted to
// tolerate (case, surrounding space) or must reject (unrecognised)
var c03ClientNAT = []string{NATUnrestricted, NATRestricted, NATUnknown, "", "-", "Restricted", "UNRESTRICTED", "unknown ", " restricted", "symmetric"}

// canonical names only (the first five) have a defined meaning; for the others the statement leaves
// open whether the broker refuses the request, reads it after normalisation, or treats it as unknown
func c03Canonical(nat string) bool {
	switch nat {
	case NATUnrestricted, NATRestricted, NATUnknown, "", "-":
		return true
	}
	return false
}

// pools from which a client with this NAT value may be served
func clientPools(c *clientRec) []int {
	if c03Canonical(c.nat) {
		return []int{clientPool(c)}
	}
	pools := []int{0} // treated as unknown
	if strings.ToLower(strings.TrimSpace(c.nat)) == NATUnrestricted {
		pools = append(pools, 1) // read after normalisation
	}
	return pools
}

func effNAT(s string) string {
	if s == "" || s == "-" {
		return NATUnknown
	}
	return s
}

// pool 0: proxies for clients that need an unrestricted proxy; pool 1: restricted/unknown proxies
func proxyPool(p *proxyRec) int {
	if effNAT(p.natWire) == NATUnrestricted {
		return 0
	}
	return 1
}

func clientPool(c *clientRec) int {
	if effNAT(c.nat) == NATUnrestricted {
		return 1
	}
	return 0
}

type c03State struct {
	late         bool
	sameSid      bool
	distinctSids int
	w            *world
	regAtBar     int
	debugAtBar   string
	barrierSeen  bool
}

func init() {
	harnesses = append(harnesses, &vs.Harness{
		Name:    "c03",
		Horizon: 200 * time.Second,
		// the only atomics in the broker are the rounded prometheus counters, which no oracle of
		// this harness observes and which do not influence control flow
		NoAtomicPoints: true,
		Body: func(x *vs.X) {
			nP := cfgInt(x, "P", 2)
			nC := cfgInt(x, "C", 2)
			nNat := cfgInt(x, "pnat", len(c03ProxyNAT))
			nLoad := cfgInt(x, "loads", len(c03Loads))
			nCNat := cfgInt(x, "cnat", len(c03ClientNAT))
			type pp struct {
				nat  string
				load int
			}
			var pps []pp
			for i := 0; i < nP; i++ {
				pps = append(pps, pp{c03ProxyNAT[vs.Choose("pnat", nNat)], c03Loads[vs.Choose("load", nLoad)]})
			}
			var cn []string
			for i := 0; i < nC; i++ {
				cn = append(cn, c03ClientNAT[vs.Choose("cnat", nCNat)])
			}
			// the last proxy may poll under the session id of the first one, whose poll is still pending
			sameSid := x.Cfg["dup"] == "1" && nP >= 2 && vs.Choose("samesid", 2) == 1
			// the proxies arrive together, or 100 ms apart (all are waiting when the clients come at 1 s)
			stagger := x.Cfg["stagger"] == "1" && vs.Choose("stagger", 2) == 1
			// late: the clients come at 15 s, when every poll has ended unanswered: nobody is waiting any more
			late := x.Cfg["late"] == "1" && vs.Choose("late", 2) == 1
			w := newWorld()
			st := &c03State{w: w}
			x.User = st
			for i, p := range pps {
				pt := "standalone"
				if i == 1 {
					pt = "exotic" // an unrecognised proxy type: treated as unknown, still matched
				}
				var arrive time.Duration
				if stagger {
					arrive = time.Duration(i) * 100 * time.Millisecond
				}
				pr := w.addProxy(p.nat, pt, p.load, arrive, ansPrompt)
				pr.natWire = p.nat
				if sameSid && i == nP-1 {
					pr.sid = w.proxies[0].sid
				}
			}
			st.distinctSids = nP
			st.sameSid = sameSid
			if sameSid {
				st.distinctSids = nP - 1
			}
			// the first client may name a well-formed fingerprint that is not in the bridge list: it is refused,
			// and that must cost the other clients nothing
			absentFirst := x.Cfg["fp"] == "2" && vs.Choose("absentfp", 2) == 1
			for i, n := range cn {
				fp := ""
				if i == 0 && absentFirst {
					fp = fpAbsent
				}
				at := time.Second
				if late {
					at = 15 * time.Second
				}
				w.addClient(n, fp, at, viaIPC)
			}
			st.late = late
			var sb strings.Builder
			if late {
				sb.WriteString("clients-after-all-polls-ended ")
			}
			for _, p := range w.proxies {
				fmt.Fprintf(&sb, "P%d(%s,%s,%d,arr=%v) ", p.idx, p.sid, p.natWire, p.clients, p.arrive)
			}
			for _, c := range w.clients {
				fmt.Fprintf(&sb, "C%d(%q) ", c.idx, c.nat)
			}
			x.Outcome(sb.String())
			w.start()
			// barrier: at 0.5 s every poll is parked in its select, hence registered
			vs.Sleep(500 * time.Millisecond)
			w.ctx.snowflakeLock.Lock()
			st.regAtBar = len(w.ctx.idToSnowflake)
			w.ctx.snowflakeLock.Unlock()
			w.ipc.Debug(new(interface{}), &st.debugAtBar)
			st.barrierSeen = true
			vs.Sleep(60 * time.Second)
			if w.allDone() {
				w.probeAfter()
			}
		},
		Check: func(x *vs.X) {
			st := x.User.(*c03State)
			w := st.w
			w.outcome(x)
			checkNoPanicNoHang(x)
			if !st.sameSid {
				// answers are routed by session id: with two polls under one id that routing is not defined
				// (C02 is stated for pairwise distinct ids)
				checkRouting(x, w)
			}
			if !st.barrierSeen {
				return
			}
			if st.regAtBar != st.distinctSids {
				x.Fail("registration", "registered-count", "%d polls pending under %d session ids but %d registered", len(w.proxies), st.distinctSids, st.regAtBar)
			}
			// /debug counts against the reference population
			nR, nU, nK := 0, 0, 0
			for _, p := range w.proxies {
				switch effNAT(p.natWire) {
				case NATRestricted:
					nR++
				case NATUnrestricted:
					nU++
				default:
					nK++
				}
			}
			want := fmt.Sprintf("\n\trestricted: %d\n\tunrestricted: %d\n\tunknown: %d", nR, nU, nK)
			// (/debug counts registrations by session id, so it is only compared for distinct ids)
			if !st.sameSid && (!strings.HasPrefix(st.debugAtBar, fmt.Sprintf("current snowflakes available: %d\n", len(w.proxies))) || !strings.HasSuffix(st.debugAtBar, want)) {
				x.Fail("debug-counts", "debug-counts", "/debug reports %q for population R=%d U=%d K=%d", st.debugAtBar, nR, nU, nK)
			}
			// matches
			holder := map[string]*proxyRec{}
			for _, p := range w.proxies {
				if p.offer != "" {
					holder[p.offer] = p
				}
			}
			poolSize := [2]int{}
			for _, p := range w.proxies {
				if !st.late {
					poolSize[proxyPool(p)]++
				}
			}
			if st.late {
				// every poll ended ("no match") five seconds before the clients came: nobody may be matched
				for _, c := range w.clients {
					if p := holder[c.offer]; p != nil {
						x.Fail("availability", "matched-with-a-proxy-that-had-left", "client c%d was matched with proxy %s, whose poll had ended unanswered", c.idx, p.sid)
					}
				}
			}
			matchedFrom := [2]int{}
			for _, c := range w.clients {
				if p := holder[c.offer]; p != nil {
					matchedFrom[proxyPool(p)]++
					okPool := false
					for _, pl := range clientPools(c) {
						okPool = okPool || pl == proxyPool(p)
					}
					if !okPool {
						x.Fail("nat-compat", "nat-incompatible", "client c%d (NAT %q) was matched with proxy %s (NAT %q)", c.idx, c.nat, p.sid, p.natWire)
					}
				}
			}
			for _, c := range w.clients {
				if !c.done {
					continue
				}
				if holder[c.offer] == nil {
					if c.fp == fpAbsent {
						continue // refused because of its bridge, whatever waits
					}
					if !c03Canonical(c.nat) {
						continue // may be refused as invalid, or served like unknown: nothing more is promised
					}
					if c.errStr != messages.StrNoProxies {
						x.Fail("refusal", "unmatched-not-refused", "client c%d unmatched but told %q", c.idx, c.errStr)
					}
					if matchedFrom[clientPool(c)] < poolSize[clientPool(c)] {
						x.Fail("availability", "refused-with-proxy-waiting", "client c%d (NAT %q) refused although only %d of %d eligible proxies were taken", c.idx, c.nat, matchedFrom[clientPool(c)], poolSize[clientPool(c)])
					}
				}
			}
			// least load: a matched proxy never has more clients than an unmatched one of the same pool
			for _, p := range w.proxies {
				if p.offer == "" {
					continue
				}
				for _, q := range w.proxies {
					if q.offer == "" && proxyPool(q) == proxyPool(p) && q.clients < p.clients {
						x.Fail("least-load", "not-least-loaded", "proxy %s (load %d) was matched while %s (load %d) of the same pool stayed idle", p.sid, p.clients, q.sid, q.clients)
					}
				}
			}
			if w.probed {
				if !strings.HasPrefix(w.debug, "current snowflakes available: 0\n") || w.gauge != 0 {
					x.Fail("no-ghost", "ghost-after", "after all requests: /debug %q gauge %v", firstLine(w.debug), w.gauge)
				}
			}
		},
	})
}
