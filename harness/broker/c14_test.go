//go:build go1.21

package main

// C14 — every HTTP request to the broker gets a well-formed response (tier 1: the real handlers on a
// mux populated like main() populates http.DefaultServeMux, under the scheduler with virtual time).

import (
	"bytes"
	"fmt"
	"io"
	"net/http"
	"net/http/httptest"
	"strings"
	"time"

	"git.torproject.org/pluggable-transports/snowflake.git/v2/common/amp"
	"git.torproject.org/pluggable-transports/snowflake.git/v2/common/messages"
	vs "git.torproject.org/pluggable-transports/snowflake.git/v2/verifvs"
	"github.com/prometheus/client_golang/prometheus/promhttp"
)

var c14Methods = []string{"POST", "GET", "OPTIONS", "PUT", "HEAD"}
var c14Paths = []string{"/proxy", "/client", "/answer", "/amp/client/", "/debug", "/metrics", "/prometheus", "/robots.txt", "/amp/client", "/", "/client/", "/proxy/x"}
var c14NAT = []string{"-", "", "unknown", "restricted", "unrestricted", "foo"}

const (
	bodyEmpty = iota
	bodyValid
	bodyValidNoNL
	bodyLegacy
	bodyLegacyBadJSON
	bodyMutVersion
	bodyMutTruncated
	bodyMutType
	bodyGarbage
	body99999
	body100000
	body100001
	body200000
	bodyBadFingerprint
	bodyAbsentFingerprint
	bodyRelayPatternMismatch
	bodyRelayPatternAbsent
	nBodies
)

var bodyName = []string{"empty", "valid", "valid-without-version-line", "legacy", "legacy-bad-json", "mutated-version", "truncated", "mutated-types", "garbage", "99999B", "100000B", "100001B", "200000B", "bad-fingerprint", "absent-bridge-fingerprint", "relay-pattern-mismatch", "relay-pattern-absent"}

func validBodyFor(path string) string {
	switch {
	case strings.HasPrefix(path, "/proxy"):
		return `{"Sid":"c14sid","Version":"1.3","Type":"standalone","NAT":"unrestricted","Clients":0,"AcceptedRelayPattern":"snowflake.torproject.net$"}`
	case strings.HasPrefix(path, "/answer"):
		return `{"Version":"1.3","Sid":"c14sid","Answer":"{\"type\":\"answer\",\"sdp\":\"x\"}"}`
	default:
		return "1.0\n{\"offer\":\"{\\\"type\\\":\\\"offer\\\",\\\"sdp\\\":\\\"c14\\\"}\",\"nat\":\"unknown\"}"
	}
}

func c14Body(kind int, path string) []byte {
	v := validBodyFor(path)
	pad := func(n int) []byte {
		b := []byte(v)
		if len(b) > n {
			return b[:n]
		}
		// keep it a syntactically plausible document: pad inside a string member where possible
		return append(b, bytes.Repeat([]byte(" "), n-len(b))...)
	}
	switch kind {
	case bodyEmpty:
		return nil
	case bodyValid:
		return []byte(v)
	case bodyValidNoNL:
		if i := strings.IndexByte(v, '\n'); i >= 0 {
			return []byte(v[i+1:])
		}
		return []byte(strings.Replace(v, `"Version":"1.3"`, `"Version":""`, 1))
	case bodyLegacy:
		return []byte(`{"type":"offer","sdp":"c14-legacy"}`)
	case bodyLegacyBadJSON:
		return []byte(`{"type":`)
	case bodyMutVersion:
		return []byte(strings.NewReplacer("1.0\n", "2.0\n", `"Version":"1.3"`, `"Version":"2.0"`).Replace(v))
	case bodyMutTruncated:
		return []byte(v[:len(v)/2])
	case bodyMutType:
		return []byte(strings.NewReplacer(`"offer":"`, `"offer":1,"x":"`, `"Sid":"c14sid"`, `"Sid":1`, `"Answer":"`, `"Answer":null,"x":"`).Replace(v))
	case bodyGarbage:
		return []byte("\x00\xff garbage <html>")
	case body99999:
		return pad(99999)
	case body100000:
		return pad(100000)
	case body100001:
		return pad(100001)
	case body200000:
		return pad(200000)
	case bodyBadFingerprint:
		return []byte("1.0\n{\"offer\":\"o\",\"nat\":\"unknown\",\"fingerprint\":\"zz\"}")
	case bodyAbsentFingerprint:
		return []byte("1.0\n{\"offer\":\"o\",\"nat\":\"unknown\",\"fingerprint\":\"" + fpAbsent + "\"}")
	case bodyRelayPatternMismatch:
		// a proxy whose accepted relay pattern does not cover the broker's: refused with a normal response
		return []byte(strings.Replace(v, `"AcceptedRelayPattern":"snowflake.torproject.net$"`, `"AcceptedRelayPattern":"example.org$"`, 1))
	case bodyRelayPatternAbsent:
		// a proxy too old to send the member at all
		return []byte(strings.Replace(v, `,"AcceptedRelayPattern":"snowflake.torproject.net$"`, ``, 1))
	}
	return nil
}

var c14Pattern = "snowflake.torproject.net$"

// c14Mux registers the handlers exactly as main() does on http.DefaultServeMux.
func c14Mux(w *world) *http.ServeMux {
	mux := http.NewServeMux()
	i := w.ipc
	mux.HandleFunc("/robots.txt", robotsTxtHandler)
	mux.Handle("/proxy", SnowflakeHandler{i, proxyPolls})
	mux.Handle("/client", SnowflakeHandler{i, clientOffers})
	mux.Handle("/answer", SnowflakeHandler{i, proxyAnswers})
	mux.Handle("/debug", SnowflakeHandler{i, debugHandler})
	mux.Handle("/metrics", MetricsHandler{"", metricsHandler})
	mux.Handle("/prometheus", promhttp.HandlerFor(w.ctx.metrics.promMetrics.registry, promhttp.HandlerOpts{}))
	mux.Handle("/amp/client/", SnowflakeHandler{i, ampClientOffers})
	return mux
}

type c14Req struct {
	method, path string
	body         int
	nat          string
	chunked      bool // sent with Transfer-Encoding: chunked (the server sees ContentLength -1)
}

func (r c14Req) String() string {
	te := ""
	if r.chunked {
		te = " chunked"
	}
	return fmt.Sprintf("%s %s body=%s nat=%q%s", r.method, r.path, bodyName[r.body], r.nat, te)
}

type c14Result struct {
	req      c14Req
	done     bool
	status   int
	bodyLen  int
	took     time.Duration
	legacyEq string
}

type c14World struct {
	w       *world
	results []*c14Result
	state   int
	probeOK string
}

func (cw *c14World) do(mux *http.ServeMux, rq c14Req) *c14Result {
	res := &c14Result{req: rq}
	cw.results = append(cw.results, res)
	path := rq.path
	var body *bytes.Reader
	b := c14Body(rq.body, rq.path)
	if path == "/amp/client/" {
		// the AMP endpoint carries the poll in the path
		path += amp.EncodePath(b)
		body = bytes.NewReader(nil)
	} else {
		body = bytes.NewReader(b)
	}
	r, err := http.NewRequest(rq.method, "http://broker"+path, body)
	if err != nil {
		res.done = true
		res.status = -1
		return res
	}
	r.RemoteAddr = "192.0.2.7:4321"
	if rq.chunked {
		// what net/http hands to a handler for a request without Content-Length
		r.ContentLength = -1
		r.TransferEncoding = []string{"chunked"}
		r.Body = io.NopCloser(body)
	}
	if rq.nat != "-" {
		r.Header.Set("Snowflake-NAT-Type", rq.nat)
	}
	rec := httptest.NewRecorder()
	t0 := vs.Elapsed()
	mux.ServeHTTP(rec, r)
	res.took = vs.Elapsed() - t0
	res.status = rec.Code
	res.bodyLen = rec.Body.Len()
	res.done = true
	return res
}

func init() {
	harnesses = append(harnesses, &vs.Harness{
		Name:           "c14",
		Horizon:        300 * time.Second,
		NoAtomicPoints: true,
		Body: func(x *vs.X) {
			cw := &c14World{}
			x.User = cw
			var reqs []c14Req
			n := cfgInt(x, "requests", 1)
			for i := 0; i < n; i++ {
				var rq c14Req
				if x.Cfg["alphabet"] == "reduced" {
					red := []c14Req{{"POST", "/client", bodyValid, "-", false}, {"POST", "/client", bodyLegacy, "foo", false}, {"POST", "/client", bodyLegacy, "unknown", false}, {"POST", "/proxy", bodyValid, "-", false}, {"POST", "/answer", bodyValid, "-", false},
						{"GET", "/amp/client/", bodyValid, "-", false}, {"POST", "/proxy", body100001, "-", false}, {"GET", "/debug", bodyEmpty, "-", false}, {"POST", "/client", bodyGarbage, "-", false}, {"OPTIONS", "/client", bodyEmpty, "-", false},
						{"POST", "/client", bodyValid, "-", true}, {"POST", "/answer", bodyValid, "-", true}}
					rq = red[vs.Choose("req", len(red))]
				} else {
					rq.method = c14Methods[vs.Choose("method", len(c14Methods))]
					rq.path = c14Paths[vs.Choose("path", len(c14Paths))]
					rq.body = vs.Choose("body", nBodies)
					rq.nat = c14NAT[vs.Choose("nat", len(c14NAT))]
					rq.chunked = vs.Choose("chunked", 2) == 1
				}
				reqs = append(reqs, rq)
			}
			// several requests: one after the other, all at the same instant, or one second apart (a later one
			// arrives while an earlier one may still be waiting; valid proxy polls share one session id)
			overlap := 0
			if x.Cfg["overlap"] == "1" && n > 1 {
				overlap = 1 + vs.Choose("overlap", 2)
			}
			// broker state before the request: empty / a proxy waiting that answers / a silent one
			cw.state = vs.Choose("state", 3)
			var ds []string
			for _, r := range reqs {
				ds = append(ds, r.String())
			}
			x.Outcome(fmt.Sprintf("state=%d overlap=%d %s", cw.state, overlap, strings.Join(ds, " ; ")))
			w := newWorld()
			cw.w = w
			// as in production (-allowed-relay-pattern, -default-relay-pattern)
			w.installPatterns(c14Pattern, c14Pattern)
			mux := c14Mux(w)
			if cw.state > 0 {
				beh := ansPrompt
				if cw.state == 2 {
					beh = ansNever
				}
				p := w.addProxy(NATUnrestricted, "standalone", 0, 0, beh)
				p.pattern = &c14Pattern
				vs.GoRole("proxy0", vs.RoleDaemon, func() { w.runProxy(p) })
			}
			if overlap == 0 {
				vs.GoRole("requests", vs.RoleRequest, func() {
					vs.Sleep(time.Second)
					for _, rq := range reqs {
						cw.do(mux, rq)
					}
				})
			} else {
				for i, rq := range reqs {
					i, rq := i, rq
					vs.GoRole(fmt.Sprintf("request%d", i), vs.RoleRequest, func() {
						vs.Sleep(time.Second + time.Duration(i*(overlap-1))*time.Second)
						cw.do(mux, rq)
					})
				}
			}
			// afterwards the broker must still work: a full happy path
			vs.Sleep(100 * time.Second)
			pp := w.addProxy(NATUnrestricted, "standalone", 0, 0, ansPrompt)
			pp.pattern = &c14Pattern
			pp.sid = "probe-sid"
			vs.GoRole("probe-proxy", vs.RoleDaemon, func() { w.runProxy(pp) })
			vs.Sleep(time.Second)
			pc := w.addClient("unknown", "", 0, viaPOST)
			w.runClient(pc)
			if pc.answer == "" || !strings.Contains(pc.answer, "probe-sid") {
				cw.probeOK = fmt.Sprintf("probe client got answer=%q err=%q status=%d", pc.answer, pc.errStr, pc.status)
			} else {
				cw.probeOK = "ok"
			}
		},
		Check: func(x *vs.X) {
			cw := x.User.(*c14World)
			for _, t := range x.Threads() {
				if t.Panic != "" {
					what := "?"
					for _, r := range cw.results {
						if !r.done {
							what = r.req.String()
						}
					}
					x.Fail("no-panic", "handler-panic:"+firstLine(t.Panic), "the handler panicked (net/http would drop the connection without a response) on %s: %s\n%s", what, t.Panic, t.PanicAt)
				}
			}
			for _, t := range x.Threads() {
				if t.Role == vs.RoleRequest && !t.Done && t.Panic == "" {
					x.Fail("bounded-time", "request-never-completes@"+t.Site, "request thread blocked at %s", t.Site)
				}
			}
			var oc []string
			for _, r := range cw.results {
				if !r.done {
					continue
				}
				oc = append(oc, fmt.Sprintf("%d/%dB/%v", r.status, r.bodyLen, r.took))
				if r.status < 100 || r.status > 599 {
					x.Fail("well-formed", "bad-status", "%s: status %d", r.req, r.status)
				}
				if r.took > 10*time.Second {
					x.Fail("bounded-time", "response-too-late", "%s took %v", r.req, r.took)
				}
			}
			x.Outcome(strings.Join(oc, ",") + " probe=" + cw.probeOK)
			if cw.probeOK != "ok" && cw.probeOK != "" {
				x.Fail("later-requests", "broker-broken-afterwards", "after the requests a fresh proxy+client happy path fails: %s", cw.probeOK)
			}
			if cw.probeOK == "" {
				// the probe never finished although the horizon leaves it 200 s: unless a request of the
				// scenario itself is still blocked (reported above), the broker mishandles later requests
				blocked := false
				for _, t := range x.Threads() {
					blocked = blocked || (t.Role == vs.RoleRequest && !t.Done)
				}
				if !blocked {
					x.Fail("later-requests", "later-requests-never-complete", "after the requests (all answered) a fresh proxy poll + client offer never completes")
				}
			}
		},
	})

	// legacy vs versioned client request on identical broker states
	harnesses = append(harnesses, &vs.Harness{
		Name:           "c14-legacy",
		Horizon:        300 * time.Second,
		NoAtomicPoints: true,
		Body: func(x *vs.X) {
			state := vs.Choose("state", 3)
			nat := c14NAT[vs.Choose("nat", len(c14NAT))]
			res := &legacyRes{state: state, nat: nat}
			x.User = res
			x.Outcome(fmt.Sprintf("state=%d nat=%q", state, nat))
			for k, via := range []int{viaLegacy, viaPOST} {
				w := newWorld()
				if state > 0 {
					beh := ansPrompt
					if state == 2 {
						beh = ansNever
					}
					p := w.addProxy(NATUnrestricted, "standalone", 0, 0, beh)
					vs.GoRole(fmt.Sprintf("proxy-%d", k), vs.RoleDaemon, func() { w.runProxy(p) })
				}
				vs.Sleep(time.Second)
				c := w.addClient(nat, "", 0, via)
				if via == viaPOST && nat == "-" {
					c.nat = "-"
				}
				res.c[k] = c
				w.runClient(c)
				vs.Sleep(30 * time.Second)
			}
		},
		Check: func(x *vs.X) {
			res := x.User.(*legacyRes)
			for _, t := range x.Threads() {
				if t.Panic != "" {
					x.Fail("no-panic", "handler-panic:"+firstLine(t.Panic), "handler panicked for a legacy/versioned client request with NAT header %q in state %d: %s\n%s", res.nat, res.state, t.Panic, t.PanicAt)
					return
				}
			}
			l, v := res.c[0], res.c[1]
			if l == nil || v == nil || !l.done || !v.done {
				x.Fail("bounded-time", "legacy-request-never-completes", "legacy done=%v versioned done=%v", l != nil && l.done, v != nil && v.done)
				return
			}
			x.Outcome(fmt.Sprintf("legacy: %d %q %q | versioned: %d %q %q", l.status, sdpless(l.answer), l.errStr, v.status, sdpless(v.answer), v.errStr))
			// documented mapping: answer <-> 200+answer; no proxies <-> 503; timed out <-> 504;
			// any other versioned error (e.g. invalid NAT) has no legacy status of its own: the legacy
			// client must get an error status, not a success and not a dropped connection
			switch {
			case v.answer != "":
				if l.status != 200 || l.answer == "" {
					x.Fail("legacy-equivalence", "legacy-differs:answer", "versioned request was answered, legacy got status %d", l.status)
				}
			case v.errStr == messages.StrNoProxies:
				if l.status != http.StatusServiceUnavailable {
					x.Fail("legacy-equivalence", "legacy-differs:no-proxies", "versioned: no proxies; legacy status %d", l.status)
				}
			case v.errStr == messages.StrTimedOut:
				if l.status != http.StatusGatewayTimeout {
					x.Fail("legacy-equivalence", "legacy-differs:timeout", "versioned: timed out; legacy status %d", l.status)
				}
			default:
				if l.status < 400 {
					x.Fail("legacy-equivalence", "legacy-differs:error-as-success", "versioned request failed with %q, legacy got status %d", v.errStr, l.status)
				}
			}
		},
	})
}

type legacyRes struct {
	state int
	nat   string
	c     [2]*clientRec
}

func sdpless(s string) string {
	if len(s) > 12 {
		return s[:12] + "..."
	}
	return s
}
