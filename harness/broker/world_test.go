//go:build go1.21

package main

// Shared broker world for the C02/C03/C04/C06/C11/C14/C19 harnesses: the real BrokerContext, IPC and
// HTTP handlers of /repo/broker (instrumented), driven by scripted proxy and client threads under
// the verifvs scheduler.

import (
	"bytes"
	"encoding/json"
	"fmt"
	"io"
	"log"
	"net/http"
	"net/http/httptest"
	"sort"
	"strings"
	"testing"
	"time"

	"git.torproject.org/pluggable-transports/snowflake.git/v2/common/amp"
	"git.torproject.org/pluggable-transports/snowflake.git/v2/common/messages"
	vs "git.torproject.org/pluggable-transports/snowflake.git/v2/verifvs"
	dto "github.com/prometheus/client_model/go"
)

const (
	fpDefault = "2B280B23E1107BB62ABFC40DDCC8824814F80A72"
	fpB2      = "8838024498816A039FCBBAB14E6F40A0843051FA"
	fpAbsent  = "0123456789ABCDEF0123456789ABCDEF01234567"
	// bridges whose record omits the relay address / gives it as null: configured relay URL = ""
	fpB3  = "AAAA024498816A039FCBBAB14E6F40A0843051FA"
	fpB4  = "BBBB024498816A039FCBBAB14E6F40A0843051FA"
	urlB1 = "wss://r1.example/"
	urlB2 = "wss://r2.example/"
)

var harnesses []*vs.Harness

var sidPrefix = strings.Repeat("s", 64)

var keepMetricsOrder bool

func TestVerif(t *testing.T) {
	log.SetOutput(io.Discard)
	vs.Main(harnesses...)
}

// answer behaviours of a proxy after it received an offer
const (
	ansPrompt    = iota // answer immediately
	ansAtTimeout        // answer exactly ClientTimeout after the match
	ansLate             // answer 15 s after the match
	ansNever            // never answer
	ansDuplicate        // answer immediately, twice
	ansUnknownID        // answer immediately with an id nobody registered, then properly
	ansEarly            // post an answer under the own session id 1 s into the poll, offer or not; then answer properly
	nAnsBeh
)

var ansBehName = []string{"prompt", "at-timeout", "late", "never", "duplicate", "unknown-id", "early"}

type proxyRec struct {
	idx     int
	sid     string
	nat     string
	natWire string // what is put on the wire ("" = absent)
	ptype   string
	clients int
	pattern *string
	arrive  time.Duration
	beh     int
	remote  string

	pollStart, pollEnd time.Duration
	pollDone           bool
	pollErr            error
	pollRaw            []byte
	offer              string
	offerNAT           string
	relayURL           string
	statusErr          string

	answers []*answerRec
}

type answerRec struct {
	sid        string
	body       string
	start, end time.Duration
	done       bool
	err        error
	success    bool
}

const (
	viaIPC = iota
	viaPOST
	viaLegacy
	viaAMP
	nVia
)

var viaName = []string{"ipc", "post", "legacy", "amp"}

type clientRec struct {
	idx    int
	nat    string // "" = absent on the wire
	fp     string // "" = absent
	arrive time.Duration
	via    int
	offer  string

	start, end time.Duration
	done       bool
	err        error
	status     int // HTTP status when via != ipc
	raw        []byte
	answer     string
	errStr     string
}

type world struct {
	bridgeList string
	ctx        *BrokerContext
	ipc        *IPC
	proxies    []*proxyRec
	clients    []*clientRec
	probe      *clientRec
	debug      string
	gauge      float64
	probed     bool
}

func newWorld() *world {
	ctx := NewBrokerContext(log.New(io.Discard, "", 0))
	if !keepMetricsOrder {
		// An earlier bridge list was in force before the one the harnesses use, with other relay URLs for the
		// same bridges and with the bridge the harnesses call "absent" still listed; clients named each of its
		// bridges (nobody was waiting: they were told so).  Whatever the broker learnt then must not outlive
		// the installation of the next list.  (Skipped in the metrics harnesses, which count every poll.)
		old := fmt.Sprintf("{\"displayName\":\"b1\", \"webSocketAddress\":\"wss://old-1.example/\", \"fingerprint\":%q}\n{\"displayName\":\"b2\", \"webSocketAddress\":\"wss://old-2.example/\", \"fingerprint\":%q}\n{\"displayName\":\"retired\", \"webSocketAddress\":\"wss://retired.example/\", \"fingerprint\":%q}\n",
			fpDefault, fpB2, fpAbsent)
		if err := ctx.InstallBridgeListProfile(strings.NewReader(old), "", ""); err != nil {
			panic(err)
		}
		for _, fp := range []string{"", fpB2, fpAbsent, fpB3} {
			member := ""
			if fp != "" {
				member = fmt.Sprintf(",\"fingerprint\":%q", fp)
			}
			var resp []byte
			(&IPC{ctx}).ClientOffers(messages.Arg{Body: []byte("1.0\n{\"offer\":\"earlier\",\"nat\":\"unknown\"" + member + "}")}, &resp)
		}
	}
	bl := fmt.Sprintf("{\"displayName\":\"b1\", \"webSocketAddress\":%q, \"fingerprint\":%q}\n{\"displayName\":\"b2\", \"webSocketAddress\":%q, \"fingerprint\":%q}\n",
		urlB1, fpDefault, urlB2, fpB2)
	// records with members missing, null or reordered (each line is a record of its own)
	bl += fmt.Sprintf("{\"fingerprint\":%q, \"displayName\":\"b3\"}\n{\"displayName\":\"b4\", \"webSocketAddress\":null, \"fingerprint\":%q}\n", fpB3, fpB4)
	if err := ctx.InstallBridgeListProfile(strings.NewReader(bl), "", ""); err != nil {
		panic(err)
	}
	// then the operator tries to install a list that is refused (its second record is malformed); its first
	// record names the fingerprint the harnesses use as "absent from the list".  A refused file changes
	// nothing: the list above stays in force as a whole, and no record of the refused file is used.
	refused := fmt.Sprintf("{\"displayName\":\"refused\", \"webSocketAddress\":\"wss://refused.example/\", \"fingerprint\":%q}\n{\"displayName\":\"broken\", \"webSocketAddress\":\"wss://x.example/\", \"fingerprint\":\"zz\"}\n", fpAbsent)
	_ = ctx.InstallBridgeListProfile(strings.NewReader(refused), "", "")
	w := &world{ctx: ctx, ipc: &IPC{ctx}, bridgeList: bl}
	if !keepMetricsOrder {
		// Critical sections of metrics.lock only increment counters and insert into address sets;
		// these operations commute and none of the C02/C03/C04/C06/C14 oracles reads them, so their
		// order is left out of transition footprints and of the state identity (the lock stays a
		// scheduling point; the runtime checks that the sections contain no scheduling point, which
		// is why these harnesses also run the rounded counters' atomics without points).  C19 and
		// C20 harnesses set keepMetricsOrder.
		// (through an interface: a tree that makes the lock an RWMutex still builds; without the
		// abstraction the exploration is only slower)
		if c, ok := interface{}(&ctx.metrics.lock).(interface{ Commutative() }); ok {
			c.Commutative()
		}
	}
	vs.GoRole("Broker", vs.RoleDaemon, ctx.Broker)
	return w
}

func (w *world) addProxy(nat, ptype string, clients int, arrive time.Duration, beh int) *proxyRec {
	p := &proxyRec{idx: len(w.proxies), nat: nat, natWire: nat, ptype: ptype, clients: clients, arrive: arrive, beh: beh}
	// session ids are opaque strings of any length; these are pairwise distinct but share a long prefix
	p.sid = sidPrefix + fmt.Sprintf("sid%d", p.idx)
	p.remote = fmt.Sprintf("10.0.0.%d:1234", p.idx+1)
	empty := ""
	p.pattern = &empty
	w.proxies = append(w.proxies, p)
	return p
}

func (w *world) addClient(nat, fp string, arrive time.Duration, via int) *clientRec {
	c := &clientRec{idx: len(w.clients), nat: nat, fp: fp, arrive: arrive, via: via}
	c.offer = fmt.Sprintf("{\"type\":\"offer\",\"sdp\":\"off|c%d\"}", c.idx)
	w.clients = append(w.clients, c)
	return c
}

func pollBody(p *proxyRec) []byte {
	var sb strings.Builder
	fmt.Fprintf(&sb, "{\"Sid\":%q,\"Version\":\"1.3\",\"Type\":%q", p.sid, p.ptype)
	if p.natWire != "-" {
		fmt.Fprintf(&sb, ",\"NAT\":%q", p.natWire)
	}
	fmt.Fprintf(&sb, ",\"Clients\":%d", p.clients)
	if p.pattern != nil {
		fmt.Fprintf(&sb, ",\"AcceptedRelayPattern\":%q", *p.pattern)
	}
	sb.WriteString("}")
	return []byte(sb.String())
}

func (w *world) runProxy(p *proxyRec) {
	vs.Sleep(p.arrive)
	p.pollStart = vs.Elapsed()
	if p.beh == ansEarly {
		// a proxy that posts an answer for its own session id while its poll is still pending
		early := &answerRec{sid: p.sid, body: "ans|" + p.sid + "#early|"}
		p.answers = append(p.answers, early)
		vs.GoRole("early-answer-"+p.sid, vs.RoleRequest, func() {
			vs.Sleep(time.Second)
			body, _ := messages.EncodeAnswerRequest(early.body, p.sid)
			early.start = vs.Elapsed()
			var r []byte
			early.err = w.ipc.ProxyAnswers(messages.Arg{Body: body}, &r)
			early.end = vs.Elapsed()
			if early.err == nil {
				early.success, _ = messages.DecodeAnswerResponse(r)
			}
			early.done = true
		})
	}
	var resp []byte
	err := w.ipc.ProxyPolls(messages.Arg{Body: pollBody(p), RemoteAddr: p.remote}, &resp)
	p.pollEnd = vs.Elapsed()
	p.pollErr = err
	p.pollRaw = resp
	if err == nil {
		offer, natT, relay, derr := messages.DecodePollResponseWithRelayURL(resp)
		p.offer, p.offerNAT, p.relayURL = offer, natT, relay
		if derr != nil {
			p.statusErr = derr.Error()
			// what the broker handed out is judged as it is on the wire, even where the strict
			// decoder of a real proxy would refuse it
			var raw struct{ Status, Offer, NAT, RelayURL string }
			if json.Unmarshal(resp, &raw) == nil && raw.Offer != "" {
				p.offer, p.offerNAT, p.relayURL = raw.Offer, raw.NAT, raw.RelayURL
			}
		}
	}
	p.pollDone = true
	if p.offer == "" {
		return
	}
	answer := func(sid string, tag string) {
		a := &answerRec{sid: sid, body: "ans|" + p.sid + tag + "|" + p.offer}
		p.answers = append(p.answers, a)
		body, _ := messages.EncodeAnswerRequest(a.body, sid)
		a.start = vs.Elapsed()
		var r []byte
		a.err = w.ipc.ProxyAnswers(messages.Arg{Body: body}, &r)
		a.end = vs.Elapsed()
		if a.err == nil {
			a.success, _ = messages.DecodeAnswerResponse(r)
		}
		a.done = true
	}
	switch p.beh {
	case ansPrompt:
		answer(p.sid, "")
	case ansAtTimeout:
		vs.Sleep(ClientTimeout * time.Second)
		answer(p.sid, "")
	case ansLate:
		vs.Sleep(15 * time.Second)
		answer(p.sid, "")
	case ansNever:
	case ansDuplicate:
		answer(p.sid, "")
		answer(p.sid, "#2")
	case ansUnknownID:
		answer("nobody", "#x")
		answer(p.sid, "")
	case ansEarly:
		answer(p.sid, "")
	}
}

func clientBody(c *clientRec) []byte {
	var sb strings.Builder
	sb.WriteString("1.0\n{\"offer\":")
	fmt.Fprintf(&sb, "%q", c.offer)
	if c.nat != "-" {
		fmt.Fprintf(&sb, ",\"nat\":%q", c.nat)
	}
	if c.fp != "" {
		fmt.Fprintf(&sb, ",\"fingerprint\":%q", c.fp)
	}
	sb.WriteString("}")
	return []byte(sb.String())
}

func (w *world) runClient(c *clientRec) {
	vs.Sleep(c.arrive)
	c.start = vs.Elapsed()
	switch c.via {
	case viaIPC:
		var resp []byte
		c.err = w.ipc.ClientOffers(messages.Arg{Body: clientBody(c)}, &resp)
		c.raw = resp
		c.status = 200
	case viaPOST:
		rec := httptest.NewRecorder()
		r, _ := http.NewRequest("POST", "http://broker/client", bytes.NewReader(clientBody(c)))
		SnowflakeHandler{w.ipc, clientOffers}.ServeHTTP(rec, r)
		c.status = rec.Code
		c.raw = rec.Body.Bytes()
	case viaLegacy:
		rec := httptest.NewRecorder()
		r, _ := http.NewRequest("POST", "http://broker/client", strings.NewReader(c.offer))
		if c.nat != "-" {
			r.Header.Set("Snowflake-NAT-Type", c.nat)
		}
		SnowflakeHandler{w.ipc, clientOffers}.ServeHTTP(rec, r)
		c.status = rec.Code
		c.raw = rec.Body.Bytes()
	case viaAMP:
		rec := httptest.NewRecorder()
		r, _ := http.NewRequest("GET", "http://broker/amp/client/"+amp.EncodePath(clientBody(c)), nil)
		SnowflakeHandler{w.ipc, ampClientOffers}.ServeHTTP(rec, r)
		c.status = rec.Code
		dec, err := amp.NewArmorDecoder(bytes.NewReader(rec.Body.Bytes()))
		if err == nil {
			c.raw, err = io.ReadAll(dec)
		}
		if err != nil {
			c.errStr = "amp-decode: " + err.Error()
		}
	}
	c.end = vs.Elapsed()
	if c.via == viaLegacy {
		switch c.status {
		case 200:
			c.answer = string(c.raw)
		case http.StatusServiceUnavailable:
			c.errStr = messages.StrNoProxies
		case http.StatusGatewayTimeout:
			c.errStr = messages.StrTimedOut
		default:
			c.errStr = fmt.Sprintf("http %d", c.status)
		}
	} else if c.err == nil && c.status == 200 && c.errStr == "" {
		resp, err := messages.DecodeClientPollResponse(c.raw)
		if err != nil {
			c.errStr = "decode: " + err.Error()
		} else {
			c.answer, c.errStr = resp.Answer, resp.Error
		}
	} else if c.err != nil {
		c.errStr = "ipc-error: " + c.err.Error()
	} else if c.errStr == "" {
		c.errStr = fmt.Sprintf("http %d", c.status)
	}
	c.done = true
}

// start spawns one request thread per proxy and client.
func (w *world) start() {
	for _, p := range w.proxies {
		p := p
		vs.GoRole(fmt.Sprintf("proxy%d", p.idx), vs.RoleRequest, func() { w.runProxy(p) })
	}
	for _, c := range w.clients {
		c := c
		vs.GoRole(fmt.Sprintf("client%d", c.idx), vs.RoleRequest, func() { w.runClient(c) })
	}
}

// allDone reports whether every request of the scenario has completed.
func (w *world) allDone() bool {
	for _, p := range w.proxies {
		if !p.pollDone {
			return false
		}
		for _, a := range p.answers {
			if !a.done {
				return false
			}
		}
		if p.offer != "" && p.beh != ansNever && len(p.answers) == 0 {
			return false
		}
	}
	for _, c := range w.clients {
		if !c.done {
			return false
		}
	}
	return true
}

// probeAfter runs (in the calling thread) the "afterwards" observations: /debug and a fresh client.
func (w *world) probeAfter() {
	var s string
	w.ipc.Debug(new(interface{}), &s)
	w.debug = s
	w.gauge = w.gaugeSum()
	pc := &clientRec{idx: 99, nat: "unknown", via: viaIPC, offer: "{\"type\":\"offer\",\"sdp\":\"off|probe\"}"}
	w.probe = pc
	w.runClient(pc)
	w.probed = true
}

func (w *world) gaugeSum() float64 {
	mfs, err := w.ctx.metrics.promMetrics.registry.Gather()
	if err != nil {
		return -1
	}
	var sum float64
	for _, mf := range mfs {
		if mf.GetName() == "snowflake_available_proxies" && mf.GetType() == dto.MetricType_GAUGE {
			for _, m := range mf.Metric {
				sum += m.GetGauge().GetValue()
			}
		}
	}
	return sum
}

// blockedRequests lists request threads that did not terminate, as "name@site".
func blockedRequests(x *vs.X) []string {
	var out []string
	for _, t := range x.Threads() {
		if t.Role == vs.RoleRequest && !t.Done {
			name := strings.TrimRight(t.Name, "0123456789")
			out = append(out, name+"@"+t.Site)
		}
	}
	sort.Strings(out)
	return dedup(out)
}

func dedup(in []string) []string {
	var out []string
	for i, s := range in {
		if i == 0 || s != in[i-1] {
			out = append(out, s)
		}
	}
	return out
}

// panics lists panics of any thread, as "name: value @ frame".
func panics(x *vs.X) []vs.ThreadInfo {
	var out []vs.ThreadInfo
	for _, t := range x.Threads() {
		if t.Panic != "" {
			out = append(out, t)
		}
	}
	return out
}

func (w *world) outcome(x *vs.X) {
	var sb strings.Builder
	for _, p := range w.proxies {
		fmt.Fprintf(&sb, "p%d[%v %q", p.idx, p.pollDone, sdpOf(p.offer))
		for _, a := range p.answers {
			fmt.Fprintf(&sb, " a:%v/%v", a.done, a.success)
		}
		sb.WriteString("]")
	}
	for _, c := range w.clients {
		fmt.Fprintf(&sb, "c%d[%v %q %q]", c.idx, c.done, c.answer, c.errStr)
	}
	x.Outcome(sb.String())
}

func sdpOf(offer string) string {
	i := strings.Index(offer, "off|")
	if i < 0 {
		return offer
	}
	j := strings.IndexByte(offer[i:], '"')
	if j < 0 {
		return offer[i:]
	}
	return offer[i : i+j]
}

// installPatterns configures the relay patterns the way main() does: through InstallBridgeListProfile
// (with the world's bridge list), not by writing the fields.
func (w *world) installPatterns(allowed, presumed string) {
	if err := w.ctx.InstallBridgeListProfile(strings.NewReader(w.bridgeList), allowed, presumed); err != nil {
		panic(err)
	}
}
