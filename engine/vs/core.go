//go:build go1.21

// Package verifvs is the controlled scheduler runtime of the /verif model checker.
//
// It is mapped into the snowflake module as a virtual package (go build -overlay) and is called
// by mechanically instrumented copies of the repository's sources: every channel operation,
// select, go statement, lock, atomic, timer and context operation of the instrumented packages
// goes through a hook of this package.  In controlled mode exactly one registered thread runs at
// a time (baton passing over per-thread gate channels); before every hooked operation the running
// thread computes the set of enabled transitions of all threads, lets the explorer pick one, and
// either continues or hands the baton over.  The real operation (real channel send, real
// mutex lock ...) is executed after the pick, so the race detector sees the program's own
// happens-before edges (see race_on.go) and instrumented and plain code can share values.
//
// Rule learnt from the prototype: after handing the baton to another thread a thread reads no
// shared scheduler state; everything it needs travels in the command it later receives.
package verifvs

import (
	"fmt"
	"os"
	"reflect"
	"runtime"
	"strings"
	"sync"
	"time"
)

// ---------------------------------------------------------------------------------------------
// modes

// controlled is true while an execution is being driven by the scheduler.  It is written only by
// the driver goroutine between executions (with every thread goroutine joined), so plain reads
// are safe.
var controlled bool

// cur is the execution in progress (controlled mode only).
var cur *Exec

// Controlled reports whether hooks are driven by the scheduler (false: pass-through).
//
//go:norace
func Controlled() bool { return controlled }

type sentinel struct{}

// abortSentinel is the panic value used to unwind threads at the end of an execution.
var abortSentinel = &sentinel{}

// EngineError is raised (as a panic in the driver) for conditions that are bugs of the
// machinery, never property violations: foreign goroutines, replay divergence, watchdog.
type EngineError struct{ Msg string }

func (e *EngineError) Error() string { return "verifvs engine error: " + e.Msg }

//go:norace
func engineFail(format string, a ...interface{}) {
	msg := fmt.Sprintf(format, a...)
	buf := make([]byte, 1<<20)
	n := runtime.Stack(buf, true)
	fmt.Fprintf(os.Stderr, "ENGINE-ERROR: %s\n%s\n", msg, buf[:n])
	os.Exit(2)
}

// ---------------------------------------------------------------------------------------------
// threads and pending operations

type opKind uint8

const (
	opNone opKind = iota
	opStart
	opResume // partner of a rendezvous that already executed its real operation
	opYield  // always enabled (atomics, explicit yields)
	opChan   // send / recv / select
	opLock
	opRLock
	opWait  // WaitGroup.Wait
	opOnce  // Once.Do while another thread is inside
	opSleep // enabled when clock >= deadline
	opCond  // enabled when pred() is true (harness-level blocking on plain state)
)

type caseInfo struct {
	ch   uintptr       // channel identity (0: nil channel)
	cv   reflect.Value // the channel, for len/cap
	send bool
}

type pending struct {
	kind       opKind
	site       string
	pc         uintptr
	cases      []caseInfo
	hasDefault bool
	mu         *MutexModel
	rw         *RWModel
	wg         *WGModel
	once       *OnceModel
	deadline   int64
	pred       func() bool
	result     int     // opResume: the select case that was executed as partner
	obj        uintptr // opYield: identity of the object operated on (atomics, close)
	readOnly   bool    // opYield: the operation only reads obj
}

const (
	stRunning = iota
	stParked
	stDone
)

type cmdKind uint8

const (
	cmdRun cmdKind = iota
	cmdPartner
	cmdAbort
)

type cmd struct {
	kind cmdKind
	idx  int // case index to execute / that was chosen
}

// Role of a thread for the oracles.
const (
	RoleCode    = iota // spawned by a go statement of instrumented code
	RoleRequest        // a harness thread that must terminate
	RoleDaemon         // a harness thread that may stay blocked
)

type thread struct {
	id        int
	name      string
	role      int
	gate      chan cmd
	state     int
	pend      pending
	doExec    []func() // per-case real operations of the pending select (partner execution)
	hash      uint64
	nspawn    int
	opSeq     int32
	commHeld  int
	pendEpoch int32
	panicV    interface{}
	panicS    string
}

// ThreadInfo describes a thread at the end of an execution.
type ThreadInfo struct {
	ID      int
	Name    string
	Role    int
	Done    bool
	Site    string // where it is blocked ("" when done)
	Op      string
	Panic   string // non-empty if the thread died with a panic of the code under test
	PanicAt string
}

type timer struct {
	deadline int64
	seq      int
	period   int64 // >0: ticker
	ch       chan time.Time
	fn       func()
	site     string
	stopped  bool
	fired    bool
}

type point struct {
	n      int32 // number of options
	k      int32 // leading options that belong to the running thread (0: running thread not enabled)
	chosen int32
	kind   uint8 // 0 schedule, 1 choose, 2 deviation-choose
}

const (
	ptSched  = 0
	ptChoose = 1
	ptDev    = 2
)

type closedEnt struct {
	ptr uintptr
	pin interface{}
}

// Exec is one execution under the scheduler.
type Exec struct {
	threads []*thread
	running *thread
	clock   int64
	horizon int64
	timers  []*timer
	tseq    int
	closed  []closedEnt

	prefix   []int32
	points   []point
	steps    int
	maxSteps int

	// state-cache support
	chanVers []chanVer
	cacheCut int // index in points from which children must not be generated (-1: none)
	cacheFn  func(e *Exec, idx int) bool

	obs         []string
	fails       []Failure
	quiesceC    chan int
	wg          sync.WaitGroup
	aborting    bool
	checking    bool
	checkThread *thread
	stepLim     bool
	traceOn     bool
	trace       []string

	// partial-order reduction (sleep sets), see por.go
	por            bool
	sleep          []transID
	sleepInit      []transID
	pinfo          []pointInfo
	sleepBlk       bool
	stepLog        []stepRec
	epochs         int32
	epochStart     []int32
	noAtomicPoints bool

	// earlyStop: the state cache recognised the current state; the rest of this execution (and its
	// final state) was already explored and checked from here by an earlier execution.
	earlyStop bool

	User interface{} // harness state
	Cfg  map[string]string
}

// Failure is one oracle violation found in an execution.
type Failure struct {
	Clause string `json:"clause"`
	Sig    string `json:"sig"`
	Msg    string `json:"msg"`
}

const epoch = int64(1_600_000_000) * int64(time.Second)

// ---------------------------------------------------------------------------------------------
// helpers used by hooks

//go:norace
func self() *thread {
	e := cur
	if e != nil && e.aborting {
		// a deferred function of the code under test reached a hook while its thread is being
		// unwound at the end of the execution
		panic(abortSentinel)
	}
	if e != nil && e.running == nil && e.checking {
		if e.checkThread == nil {
			e.checkThread = &thread{id: -1, name: "check"}
		}
		return e.checkThread
	}
	if e == nil || e.running == nil {
		engineFail("hooked operation outside an execution")
	}
	return e.running
}

//go:norace
func chanPtr(v reflect.Value) uintptr {
	if !v.IsValid() || v.IsNil() {
		return 0
	}
	return v.Pointer()
}

//go:norace
func (e *Exec) isClosed(p uintptr) bool {
	for i := range e.closed {
		if e.closed[i].ptr == p {
			return true
		}
	}
	return false
}

//go:norace
func mix(h uint64, v uint64) uint64 {
	h ^= v + 0x9e3779b97f4a7c15 + (h << 6) + (h >> 2)
	h *= 0xff51afd7ed558ccd
	h ^= h >> 33
	return h
}

//go:norace
func hashStr(s string) uint64 {
	var h uint64 = 14695981039346656037
	for i := 0; i < len(s); i++ {
		h ^= uint64(s[i])
		h *= 1099511628211
	}
	return h
}

// ---------------------------------------------------------------------------------------------
// enabledness

type transition struct {
	t       *thread
	caseIdx int
	partner *thread
	pIdx    int
}

//go:norace
func (e *Exec) threadEnabledSimple(t *thread) bool {
	p := &t.pend
	switch p.kind {
	case opStart, opResume, opYield:
		return true
	case opLock:
		return !p.mu.locked
	case opRLock:
		return !p.rw.writer
	case opWait:
		return p.wg.n <= 0
	case opOnce:
		return p.once.state != onceRunning
	case opSleep:
		return e.clock >= p.deadline
	case opCond:
		return p.pred()
	}
	return false
}

// collect appends the transitions of thread t.  later is the list of threads that come after t
// in canonical order: rendezvous are listed under the earlier thread only.
//
//go:norace
func (e *Exec) collect(out []transition, t *thread, later []*thread) []transition {
	p := &t.pend
	if p.kind != opChan {
		if p.kind == opLock && p.rw != nil {
			if !p.rw.writer && p.rw.readers == 0 {
				out = append(out, transition{t: t, caseIdx: 0})
			}
			return out
		}
		if e.threadEnabledSimple(t) {
			out = append(out, transition{t: t, caseIdx: 0})
		}
		return out
	}
	n0 := len(out)
	for i := range p.cases {
		c := &p.cases[i]
		if c.ch == 0 {
			continue
		}
		closed := e.isClosed(c.ch)
		ln, cp := c.cv.Len(), c.cv.Cap()
		if c.send {
			if closed || ln < cp {
				out = append(out, transition{t: t, caseIdx: i})
				continue
			}
		} else {
			if ln > 0 || closed {
				out = append(out, transition{t: t, caseIdx: i})
				continue
			}
		}
		if cp != 0 {
			continue
		}
		// unbuffered: look for partners among later threads
		for _, u := range later {
			if u.state != stParked || u.pend.kind != opChan {
				continue
			}
			for j := range u.pend.cases {
				d := &u.pend.cases[j]
				if d.ch == c.ch && d.send != c.send {
					out = append(out, transition{t: t, caseIdx: i, partner: u, pIdx: j})
				}
			}
		}
	}
	if len(out) == n0 && p.hasDefault {
		// default is taken only if the thread has no enabled case, including rendezvous listed
		// under an earlier thread; checked by the caller through hasEarlierPartner.
		out = append(out, transition{t: t, caseIdx: -1})
	}
	return out
}

// enabled computes all enabled transitions in canonical order: the running thread first, then
// ascending thread id.  k is the number of leading transitions that belong to the running thread.
//
//go:norace
func (e *Exec) enabled(run *thread, buf []transition, order []*thread) ([]transition, int, []*thread) {
	order = order[:0]
	if run != nil && run.state != stDone {
		order = append(order, run)
	}
	for _, t := range e.threads {
		if t != run && t.state == stParked {
			order = append(order, t)
		}
	}
	out := buf[:0]
	k := 0
	for i, t := range order {
		n0 := len(out)
		out = e.collect(out, t, order[i+1:])
		// A select with default whose only transition is "default" must not take default when a
		// rendezvous with an earlier thread is possible: that rendezvous is already listed under
		// the earlier thread, so drop the default transition in that case.
		if len(out) == n0+1 && out[n0].caseIdx == -1 && t.pend.kind == opChan {
			if e.hasPartnerAmong(t, order[:i]) {
				out = out[:n0]
			}
		}
		if i == 0 && t == run {
			k = len(out)
		}
	}
	return out, k, order
}

//go:norace
func (e *Exec) hasPartnerAmong(t *thread, earlier []*thread) bool {
	for i := range t.pend.cases {
		c := &t.pend.cases[i]
		if c.ch == 0 || c.cv.Cap() != 0 || e.isClosed(c.ch) {
			continue
		}
		for _, u := range earlier {
			if (u.state != stParked && u != e.running) || u.pend.kind != opChan {
				continue
			}
			for j := range u.pend.cases {
				d := &u.pend.cases[j]
				if d.ch == c.ch && d.send != c.send {
					return true
				}
			}
		}
	}
	return false
}

// ---------------------------------------------------------------------------------------------
// choices

//go:norace
func (e *Exec) pick(n, k int, kind uint8) int { return e.pickS(n, k, kind, nil, nil) }

// pickS decides one choice point.  ids/asleep are given for scheduling points in sleep-set mode.
//
//go:norace
func (e *Exec) pickS(n, k int, kind uint8, ids []transID, asleep []bool) int {
	return e.pickF(n, k, kind, ids, asleep, -1)
}

// pickF is pickS with an optional forced choice (local-first rule): the point is recorded (so that
// replay stays aligned) but offers no alternatives.
//
//go:norace
func (e *Exec) pickF(n, k int, kind uint8, ids []transID, asleep []bool, forced int) int {
	if n <= 1 {
		return 0
	}
	idx := len(e.points)
	var c int32
	if idx < len(e.prefix) {
		c = e.prefix[idx]
		if int(c) >= n {
			engineFail("replay divergence at point %d: choice %d of %d options", idx, c, n)
		}
	} else {
		if forced >= 0 {
			c = int32(forced)
		} else if asleep != nil {
			for int(c) < n-1 && asleep[c] {
				c++
			}
		}
		if e.cacheFn != nil && e.cacheCut < 0 && kind == ptSched {
			if e.cacheFn(e, idx) {
				e.cacheCut = idx
				e.earlyStop = true
			}
		}
	}
	e.points = append(e.points, point{n: int32(n), k: int32(k), chosen: c, kind: kind})
	if e.por {
		var pi pointInfo
		if idx >= len(e.prefix) {
			pi.opts, pi.asleep = ids, asleep
			pi.sleepAt = append([]transID(nil), e.sleep...)
			pi.forced = forced >= 0
		}
		e.pinfo = append(e.pinfo, pi)
		if idx == len(e.prefix)-1 {
			// the branching point of this run: from here on the sleep set handed down by the
			// explorer is in effect (for a scheduling point it is filtered by the caller against
			// the transition taken)
			e.sleep = append([]transID(nil), e.sleepInit...)
		}
	}
	return int(c)
}

// ---------------------------------------------------------------------------------------------
// the scheduling function

var trBuf [4][]transition
var ordBuf [4][]*thread

// schedule is called by the running thread t with t.pend set (or with t.state == stDone when the
// thread is exiting).  It returns the case index the thread must now execute for real.
//
//go:norace
func (e *Exec) schedule(t *thread) int {
	for {
		e.steps++
		if e.steps > e.maxSteps {
			e.stepLim = true
			return e.quiesce(t)
		}
		trs, k, _ := e.enabled(t, trBuf[0], ordBuf[0])
		trBuf[0] = trs[:0]
		if len(trs) == 0 {
			if e.advanceClock() {
				continue
			}
			return e.quiesce(t)
		}
		var ids []transID
		var asleep []bool
		forced := -1
		if e.por {
			var any bool
			ids, asleep, any = e.awakeOf(trs)
			if !any && len(e.points) >= len(e.prefix) {
				// every enabled transition is asleep: this execution is redundant
				e.sleepBlk = true
				e.earlyStop = true
				return e.quiesce(t)
			}
			// Local-first rule: a transition with an empty footprint (thread start, resume after a
			// rendezvous, wake-up from Sleep, a yield without object, Lock of a commutative mutex) is
			// independent of every transition any other thread can ever take, so {t} is a persistent
			// set: exploring only t from this state loses no Mazurkiewicz trace.
			if len(trs) > 1 {
				for i := range trs {
					if trs[i].partner == nil && localOp(&trs[i].t.pend) {
						forced = i
						break
					}
				}
				if forced >= 0 && asleep[forced] && len(e.points) >= len(e.prefix) {
					e.sleepBlk = true
					e.earlyStop = true
					return e.quiesce(t)
				}
			}
		}
		c := e.pickF(len(trs), k, ptSched, ids, asleep, forced)
		if e.earlyStop {
			return e.quiesce(t)
		}
		tr := trs[c]
		if e.por {
			if len(e.sleep) > 0 {
				e.sleep = e.sleepAfter(e.sleep, ids[c])
			}
			pt := -1
			if len(trs) > 1 {
				pt = len(e.points) - 1
			}
			e.logStep(tr, pt)
		}
		if e.traceOn {
			e.traceStep(tr, c, len(trs))
		}
		if tr.partner != nil {
			// the partner executes its side for real and then waits to be resumed
			u := tr.partner
			e.noteOp(u, tr.pIdx, true)
			u.pend = pending{kind: opResume, result: tr.pIdx, site: u.pend.site}
			u.pendEpoch = e.epochs
			gateSend(u.gate, cmd{kind: cmdPartner, idx: tr.pIdx})
		}
		e.noteOp(tr.t, tr.caseIdx, false)
		if tr.t == t {
			return tr.caseIdx
		}
		// hand the baton over
		nt := tr.t
		e.running = nt
		if t.state != stDone {
			t.state = stParked
		}
		nt.state = stRunning
		exiting := t.state == stDone
		gateSend(nt.gate, cmd{kind: cmdRun, idx: tr.caseIdx})
		if exiting {
			return 0
		}
		return t.await()
	}
}

// await blocks on the thread's gate until it is told to run.  No shared state is read here.
//
//go:norace
func (t *thread) await() int {
	for {
		c := gateRecv(t.gate)
		switch c.kind {
		case cmdRun:
			return c.idx
		case cmdPartner:
			t.doExec[c.idx]()
		case cmdAbort:
			panic(abortSentinel)
		}
	}
}

// quiesce: nothing is enabled and no timer is due before the horizon.  Tell the driver and park.
//
//go:norace
func (e *Exec) quiesce(t *thread) int {
	e.running = nil
	exiting := t.state == stDone
	if !exiting {
		t.state = stParked
	}
	gateSendInt(e.quiesceC, 1)
	if exiting {
		return 0
	}
	return t.await()
}

// noteOp updates per-thread hashes for the state cache.
//
//go:norace
func (e *Exec) noteOp(t *thread, caseIdx int, partner bool) {
	if e.cacheFn == nil {
		return
	}
	p := &t.pend
	h := mix(t.hash, hashStr(p.site))
	h = mix(h, uint64(p.kind)<<8|uint64(uint8(caseIdx)))
	h = mix(h, uint64(e.clock))
	h = mix(h, uint64(p.pc))
	switch p.kind {
	case opYield:
		if p.obj != 0 {
			h = mix(h, e.objVersion(p.obj, t))
		}
	case opChan:
		if caseIdx >= 0 && caseIdx < len(p.cases) {
			h = mix(h, e.objVersion(p.cases[caseIdx].ch, t))
		}
	case opLock:
		if p.mu != nil {
			h = mix(h, p.mu.bump(e, t))
		} else if p.rw != nil {
			h = mix(h, p.rw.bump(e, t))
		}
	case opRLock:
		h = mix(h, p.rw.bump(e, t))
	case opWait:
		h = mix(h, p.wg.bump(e, t))
	case opOnce:
		h = mix(h, p.once.bump(e, t))
	}
	t.hash = h
}

// e.chanVersions: channel identity -> (canonical id, version).  Slice, not map (norace paths).
type chanVer struct {
	ptr uintptr
	id  uint64
	ver uint64
}

//go:norace
func (e *Exec) objVersion(ch uintptr, t *thread) uint64 {
	for i := range e.chanVers {
		if e.chanVers[i].ptr == ch {
			e.chanVers[i].ver++
			return mix(e.chanVers[i].id, e.chanVers[i].ver)
		}
	}
	id := mix(t.hash, 0xc4a1)
	e.chanVers = append(e.chanVers, chanVer{ptr: ch, id: id, ver: 1})
	return mix(id, 1)
}

// ---------------------------------------------------------------------------------------------
// virtual time

//go:norace
func (e *Exec) advanceClock() bool {
	min := int64(-1)
	for _, tm := range e.timers {
		if tm.stopped || tm.fired {
			continue
		}
		if min < 0 || tm.deadline < min {
			min = tm.deadline
		}
	}
	for _, t := range e.threads {
		if (t.state == stParked || (t == e.running && t.state == stRunning)) && t.pend.kind == opSleep {
			if min < 0 || t.pend.deadline < min {
				min = t.pend.deadline
			}
		}
	}
	if min < 0 || min > e.horizon {
		return false
	}
	if min > e.clock {
		e.clock = min
	}
	e.epochs++
	// fire every timer due now, in creation order
	live := e.timers[:0]
	var fire []*timer
	for _, tm := range e.timers {
		if tm.stopped || tm.fired {
			continue
		}
		if tm.deadline <= e.clock {
			fire = append(fire, tm)
			if tm.period > 0 {
				live = append(live, tm)
			}
		} else {
			live = append(live, tm)
		}
	}
	e.timers = live
	for _, tm := range fire {
		if tm.fn != nil {
			tm.fired = true
			e.spawn("timerfunc:"+tm.site, RoleCode, tm.fn)
			continue
		}
		timerSend(tm.ch, time.Unix(0, e.clock))
		if tm.period > 0 {
			tm.deadline += tm.period
		} else {
			tm.fired = true
		}
	}
	return true
}

//go:norace
func (e *Exec) addTimer(tm *timer) {
	e.tseq++
	tm.seq = e.tseq
	e.timers = append(e.timers, tm)
}

// ---------------------------------------------------------------------------------------------
// thread creation and termination

//go:norace
func (e *Exec) spawn(name string, role int, f func()) *thread {
	var parentHash uint64
	if e.running != nil {
		e.running.nspawn++
		parentHash = mix(e.running.hash, uint64(e.running.nspawn))
	}
	t := &thread{id: len(e.threads), name: name, role: role, gate: make(chan cmd, 1), state: stParked}
	t.hash = mix(parentHash, hashStr(name))
	t.pend = pending{kind: opStart, site: name}
	t.pendEpoch = e.epochs
	e.threads = append(e.threads, t)
	e.wg.Add(1)
	go threadMain(e, t, f)
	return t
}

//go:norace
func threadMain(e *Exec, t *thread, f func()) {
	defer e.wg.Done()
	defer func() {
		r := recover()
		if r == abortSentinel {
			return
		}
		if e.aborting {
			// a panic while unwinding after the end of the execution: ignore
			return
		}
		if r != nil {
			buf := make([]byte, 16384)
			n := runtime.Stack(buf, false)
			t.panicV = r
			t.panicS = trimStack(string(buf[:n]))
		}
		t.state = stDone
		t.pend = pending{}
		e.schedule(t)
	}()
	startAwait(t)
	f()
}

//go:norace
func startAwait(t *thread) {
	t.await()
}

func trimStack(s string) string {
	lines := strings.Split(s, "\n")
	var out []string
	for i := 0; i < len(lines); i++ {
		l := lines[i]
		if strings.Contains(l, "verifvs.") || strings.Contains(l, "/verifvs/") || strings.Contains(l, "runtime/panic.go") || strings.HasPrefix(l, "panic(") || strings.HasPrefix(l, "goroutine ") {
			continue
		}
		out = append(out, l)
		if len(out) > 12 {
			break
		}
	}
	return strings.Join(out, "\n")
}

// ---------------------------------------------------------------------------------------------
// the generic blocking point

// block declares t's pending operation, lets the scheduler decide, and returns the case index to
// execute.  Called by every hook.
//
//go:norace
func block(p pending) int {
	e := cur
	t := e.running
	if t == nil {
		if e.checking {
			// the harness's Check function (driver goroutine, every thread parked) may use hooked
			// objects as long as the operation does not need to wait
			tmp := &thread{id: -1, pend: p}
			var buf [4]transition
			if trs := e.collect(buf[:0], tmp, nil); len(trs) == 0 {
				engineFail("Check function would block in %s at %s%s", opName(p.kind), p.site, pcSite(p.pc))
			} else {
				return trs[0].caseIdx
			}
		}
		engineFail("hook called with no running thread (foreign goroutine?) at %s", p.site)
	}
	if e.aborting {
		panic(abortSentinel)
	}
	if t.commHeld > 0 {
		engineFail("scheduling point (%s %s) inside a critical section of a mutex declared commutative", opName(p.kind), p.site)
	}
	t.pend = p
	t.opSeq++
	t.pendEpoch = e.epochs
	idx := e.schedule(t)
	if e.aborting {
		panic(abortSentinel)
	}
	return idx
}

// Yield is an always-enabled scheduling point.
//
//go:norace
func Yield(site string) {
	if !controlled {
		return
	}
	block(pending{kind: opYield, site: site})
}

// YieldObj is an always-enabled scheduling point before an operation on the object at addr
// (atomics): the order of such operations on one object is part of the state identity.
//
//go:norace
func YieldObj(site string, addr uintptr) {
	if !controlled {
		return
	}
	block(pending{kind: opYield, site: site, obj: addr})
}

// ChanLen is len(ch) of the code under test: a scheduling point that reads the channel's state (it
// conflicts with sends, receives and close on the same channel, so both orders are explored).
//
//go:norace
func ChanLen(site string, ch interface{}) int {
	v := reflect.ValueOf(ch)
	if controlled && v.IsValid() && !v.IsNil() {
		block(pending{kind: opYield, site: site, obj: chanPtr(v), readOnly: true})
	}
	if !v.IsValid() {
		return 0
	}
	return v.Len()
}

// WaitUntil blocks the calling thread until pred() is true.  pred is evaluated by the scheduler
// (by whichever thread holds the baton) and must only read state owned by the harness.
//
//go:norace
func WaitUntil(site string, pred func() bool) {
	if !controlled {
		for !pred() {
			time.Sleep(50 * time.Microsecond)
		}
		return
	}
	block(pending{kind: opCond, site: site, pred: pred})
}

// Choose returns a value in [0,n) chosen by the explorer (an environment choice, never a
// preemption).
//
//go:norace
func Choose(site string, n int) int {
	if !controlled {
		return 0
	}
	e := cur
	if e.aborting {
		panic(abortSentinel)
	}
	c := e.pick(n, n, ptChoose)
	if e.cacheFn != nil {
		e.running.hash = mix(mix(e.running.hash, hashStr(site)), uint64(c))
	}
	return c
}

// ChooseDev is Choose where every non-zero answer counts as a deviation (bounded separately).
//
//go:norace
func ChooseDev(site string, n int) int {
	if !controlled {
		return 0
	}
	e := cur
	if e.aborting {
		panic(abortSentinel)
	}
	c := e.pick(n, n, ptDev)
	if e.cacheFn != nil {
		e.running.hash = mix(mix(e.running.hash, hashStr(site)), uint64(c))
	}
	return c
}

// ---------------------------------------------------------------------------------------------
// hooks: go, channels

// Go starts f as a scheduler thread (or a plain goroutine in pass-through mode).
//
//go:norace
func Go(site string, f func()) {
	if !controlled {
		go f()
		return
	}
	if cur.aborting {
		return
	}
	cur.spawn(site, RoleCode, f)
}

// GoRole starts a harness thread with a name and a role.
//
//go:norace
func GoRole(name string, role int, f func()) {
	if !controlled {
		go f()
		return
	}
	if cur.aborting {
		return
	}
	cur.spawn(name, role, f)
}

// Send performs ch <- v; do executes the real send.
//
//go:norace
func Send(site string, ch interface{}, do func()) {
	if !controlled {
		do()
		return
	}
	t := self()
	cv := reflect.ValueOf(ch)
	ci := [1]caseInfo{{ch: chanPtr(cv), cv: cv, send: true}}
	fs := [1]func(){do}
	t.doExec = fs[:]
	block(pending{kind: opChan, site: site, cases: ci[:]})
	if t.pend.kind == opResume {
		return // executed as rendezvous partner while parked
	}
	do()
}

// Recv performs <-ch.
//
//go:norace
func Recv[T any](site string, ch <-chan T) T {
	if !controlled {
		return <-ch
	}
	var v T
	recv2(site, ch, &v, nil)
	return v
}

// Recv2 performs v, ok := <-ch.
//
//go:norace
func Recv2[T any](site string, ch <-chan T) (T, bool) {
	if !controlled {
		v, ok := <-ch
		return v, ok
	}
	var v T
	var ok bool
	recv2(site, ch, &v, &ok)
	return v, ok
}

//go:norace
func recv2[T any](site string, ch <-chan T, v *T, okp *bool) {
	t := self()
	cv := reflect.ValueOf(ch)
	ci := [1]caseInfo{{ch: chanPtr(cv), cv: cv}}
	do := func() {
		x, ok := <-ch
		*v = x
		if okp != nil {
			*okp = ok
		}
	}
	fs := [1]func(){do}
	t.doExec = fs[:]
	block(pending{kind: opChan, site: site, cases: ci[:]})
	if t.pend.kind == opResume {
		return
	}
	do()
}

// Close performs close(ch) and records closedness for the enabledness model.
//
//go:norace
func Close[T any](site string, ch chan<- T) {
	if !controlled {
		close(ch)
		return
	}
	e := cur
	if !e.aborting {
		// closing is a visible operation: give the scheduler a point before it
		block(pending{kind: opYield, site: site, obj: chanPtr(reflect.ValueOf(ch))})
	}
	cv := reflect.ValueOf(ch)
	p := chanPtr(cv)
	if p != 0 && !e.isClosed(p) {
		e.closed = append(e.closed, closedEnt{ptr: p, pin: ch})
	}
	close(ch) // panics exactly as the real program would on double close / nil
}

// SelCase is one case of an instrumented select.
type SelCase interface {
	info() caseInfo
	exec()
	rcase() reflect.SelectCase
	setRecv(v reflect.Value, ok bool)
}

// RCase is a receive case; V and Ok hold the result after Select returned its index.
type RCase[T any] struct {
	V  T
	Ok bool
	ch <-chan T
}

// RecvCase builds a receive case.
//
//go:norace
func RecvCase[T any](ch <-chan T) *RCase[T] { return &RCase[T]{ch: ch} }

//go:norace
func (c *RCase[T]) info() caseInfo {
	cv := reflect.ValueOf(c.ch)
	return caseInfo{ch: chanPtr(cv), cv: cv}
}

//go:norace
func (c *RCase[T]) exec() { c.V, c.Ok = <-c.ch }

func (c *RCase[T]) rcase() reflect.SelectCase {
	return reflect.SelectCase{Dir: reflect.SelectRecv, Chan: reflect.ValueOf(c.ch)}
}

func (c *RCase[T]) setRecv(v reflect.Value, ok bool) {
	c.Ok = ok
	if v.IsValid() {
		if x, isT := v.Interface().(T); isT {
			c.V = x
		}
	}
}

// SCase is a send case.
type SCase struct {
	ch interface{}
	v  interface{}
	do func()
}

// SendCase builds a send case: do executes the real send of the already evaluated value.
//
//go:norace
func SendCase(ch interface{}, v interface{}, do func()) *SCase { return &SCase{ch: ch, v: v, do: do} }

//go:norace
func (c *SCase) info() caseInfo {
	cv := reflect.ValueOf(c.ch)
	return caseInfo{ch: chanPtr(cv), cv: cv, send: true}
}

//go:norace
func (c *SCase) exec() { c.do() }

func (c *SCase) rcase() reflect.SelectCase {
	cv := reflect.ValueOf(c.ch)
	sc := reflect.SelectCase{Dir: reflect.SelectSend, Chan: cv}
	if cv.IsValid() && !cv.IsNil() {
		if c.v == nil {
			sc.Send = reflect.Zero(cv.Type().Elem())
		} else {
			sc.Send = reflect.ValueOf(c.v)
		}
	}
	return sc
}

func (c *SCase) setRecv(v reflect.Value, ok bool) {}

// Select runs an instrumented select and returns the index of the chosen case, -1 for default.
//
//go:norace
func Select(site string, hasDefault bool, cases ...SelCase) int {
	if !controlled {
		return realSelect(hasDefault, cases)
	}
	t := self()
	ci := make([]caseInfo, len(cases))
	fs := make([]func(), len(cases))
	for i, c := range cases {
		ci[i] = c.info()
		fs[i] = c.exec
	}
	t.doExec = fs
	idx := block(pending{kind: opChan, site: site, cases: ci, hasDefault: hasDefault})
	if t.pend.kind == opResume {
		// executed as partner while parked: the real operation is already done
		return t.pend.result
	}
	if idx >= 0 {
		cases[idx].exec()
	}
	return idx
}

func realSelect(hasDefault bool, cases []SelCase) int {
	rc := make([]reflect.SelectCase, 0, len(cases)+1)
	for _, c := range cases {
		rc = append(rc, c.rcase())
	}
	if hasDefault {
		rc = append(rc, reflect.SelectCase{Dir: reflect.SelectDefault})
	}
	i, v, ok := reflect.Select(rc)
	if hasDefault && i == len(cases) {
		return -1
	}
	cases[i].setRecv(v, ok)
	return i
}

//go:norace
func (e *Exec) traceStep(tr transition, c, n int) {
	p := &tr.t.pend
	site := p.site
	if site == "" {
		site = pcSite(p.pc)
	}
	s := fmt.Sprintf("t=%v [%d/%d] %s: %s case=%d @%s", time.Duration(e.clock-epoch), c, n, tr.t.name, opName(p.kind), tr.caseIdx, site)
	if tr.partner != nil {
		s += fmt.Sprintf(" <-> %s case=%d", tr.partner.name, tr.pIdx)
	}
	e.trace = append(e.trace, s)
}

// ZeroOf returns the zero value of a channel's element type (used by the instrumenter to declare a
// range variable once, outside the rewritten loop).
func ZeroOf[T any](ch <-chan T) T {
	var z T
	return z
}
