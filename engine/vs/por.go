//go:build go1.21

package verifvs

import "unsafe"

// Partial-order reduction by sleep sets (Godefroid), for unbounded-preemption exploration.
//
// Every hooked synchronisation operation is a scheduling point, so a transition is exactly one
// synchronisation operation (plus the thread-local code that follows it).  Its footprint — the
// objects it operates on with a read/write mode — is known from the pending operation of the
// thread *before* it executes.  Two transitions are independent iff they involve disjoint threads
// and their footprints do not conflict.  This is sound for data-race-free code (all inter-thread
// communication goes through hooked objects); C20's race mode checks that assumption on the same
// harness bodies.
//
// After exploring transition t1 from a state, the sibling branch taking t2 carries t1 in its sleep
// set until a transition dependent with t1 is executed; sleeping transitions are not explored
// again.  Sleep sets are passed between executions as transition identities (thread ids, case
// index, per-thread operation sequence number), which are stable across executions that share the
// choice prefix; footprints are always recomputed in the current execution.

type objAcc struct {
	obj   uintptr
	write bool
}

type transID struct {
	t1, t2     int32
	c1, c2     int16
	seq1, seq2 int32
}

// pointInfo is the per-point data the explorer needs to build the sleep sets of children.
type pointInfo struct {
	opts    []transID // ptSched: identity of every option
	asleep  []bool    // ptSched: option was asleep at this point
	sleepAt []transID // sleep set in effect at this point (before the choice)
	forced  bool      // local-first rule applied: no alternatives to explore
}

// localOp reports whether the pending operation has an empty footprint.
//
//go:norace
func localOp(p *pending) bool {
	switch p.kind {
	case opStart, opResume, opSleep:
		return true
	case opYield:
		return p.obj == 0
	case opLock:
		return p.mu != nil && p.mu.nover
	}
	return false
}

//go:norace
func mkTransID(tr transition) transID {
	id := transID{t1: int32(tr.t.id), c1: int16(tr.caseIdx), seq1: tr.t.opSeq, t2: -1}
	if tr.partner != nil {
		id.t2, id.c2, id.seq2 = int32(tr.partner.id), int16(tr.pIdx), tr.partner.opSeq
		if id.t2 < id.t1 {
			id.t1, id.t2 = id.t2, id.t1
			id.c1, id.c2 = id.c2, id.c1
			id.seq1, id.seq2 = id.seq2, id.seq1
		}
	}
	return id
}

// footprint appends the objects the pending operation of t would touch when executing case c.
// wild is returned for operations whose effect the scheduler cannot see (opCond).
//
//go:norace
func footprint(out []objAcc, t *thread, c int) ([]objAcc, bool) {
	p := &t.pend
	switch p.kind {
	case opChan:
		if c >= 0 && c < len(p.cases) {
			out = append(out, objAcc{p.cases[c].ch, true})
		} else {
			for i := range p.cases {
				out = append(out, objAcc{p.cases[i].ch, false})
			}
		}
	case opLock:
		if p.mu != nil {
			if p.mu.atomicSec {
				out = append(out, objAcc{uintptr(unsafe.Pointer(p.mu)), !p.mu.readerSite(p.pc)})
			} else if !p.mu.nover {
				out = append(out, objAcc{uintptr(unsafe.Pointer(p.mu)), true})
			}
		} else if p.rw != nil {
			out = append(out, objAcc{uintptr(unsafe.Pointer(p.rw)), true})
		}
	case opRLock:
		out = append(out, objAcc{uintptr(unsafe.Pointer(p.rw)), false})
	case opWait:
		out = append(out, objAcc{uintptr(unsafe.Pointer(p.wg)), false})
	case opOnce:
		out = append(out, objAcc{uintptr(unsafe.Pointer(p.once)), true})
	case opYield:
		if p.obj != 0 {
			out = append(out, objAcc{p.obj, !p.readOnly})
		}
	case opCond:
		return out, true
	}
	return out, false
}

//go:norace
func (e *Exec) threadByID(id int32, seq int32) *thread {
	if id < 0 || int(id) >= len(e.threads) {
		return nil
	}
	t := e.threads[id]
	if t.opSeq != seq || t.state == stDone {
		return nil
	}
	return t
}

// transFootprint computes threads and footprint of a transition identity in the current state.
// ok is false if the transition does not exist any more (its thread moved).
//
//go:norace
func (e *Exec) transFootprint(id transID, buf []objAcc) (objs []objAcc, wild, ok bool) {
	t := e.threadByID(id.t1, id.seq1)
	if t == nil {
		return buf, false, false
	}
	objs, wild = footprint(buf, t, int(id.c1))
	if id.t2 >= 0 {
		u := e.threadByID(id.t2, id.seq2)
		if u == nil {
			return buf, false, false
		}
		var w2 bool
		objs, w2 = footprint(objs, u, int(id.c2))
		wild = wild || w2
	}
	return objs, wild, true
}

//go:norace
func conflict(a, b []objAcc) bool {
	for i := range a {
		if a[i].obj == 0 {
			continue
		}
		for j := range b {
			if a[i].obj == b[j].obj && (a[i].write || b[j].write) {
				return true
			}
		}
	}
	return false
}

//go:norace
func shareThread(a, b transID) bool {
	if a.t1 == b.t1 || a.t1 == b.t2 {
		return true
	}
	return a.t2 >= 0 && (a.t2 == b.t1 || a.t2 == b.t2)
}

// sleepAfter returns the members of set that stay asleep after executing transition ex: those
// independent with it.  Must be called before ex is executed (footprints come from pending ops).
//
//go:norace
func (e *Exec) sleepAfter(set []transID, ex transID) []transID {
	if len(set) == 0 {
		return nil
	}
	var b1, b2 [8]objAcc
	exObjs, exWild, ok := e.transFootprint(ex, b1[:0])
	if !ok || exWild {
		return nil
	}
	var keep []transID
	for _, s := range set {
		if s == ex || shareThread(s, ex) {
			continue
		}
		sObjs, sWild, ok := e.transFootprint(s, b2[:0])
		if !ok || sWild || conflict(sObjs, exObjs) {
			continue
		}
		keep = append(keep, s)
	}
	return keep
}

// awakeOf marks which options are asleep and drops sleepers that are not enabled any more
// (conservative: an undetected dependency can only cost extra exploration).
//
//go:norace
func (e *Exec) awakeOf(trs []transition) (ids []transID, asleep []bool, anyAwake bool) {
	ids = make([]transID, len(trs))
	asleep = make([]bool, len(trs))
	for i := range trs {
		ids[i] = mkTransID(trs[i])
	}
	if len(e.sleep) > 0 {
		keep := e.sleep[:0]
		for _, s := range e.sleep {
			found := false
			for i := range ids {
				if ids[i] == s {
					asleep[i] = true
					found = true
				}
			}
			if found {
				keep = append(keep, s)
			}
		}
		e.sleep = keep
	}
	for i := range asleep {
		if !asleep[i] {
			anyAwake = true
		}
	}
	return
}
