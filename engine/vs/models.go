//go:build go1.21

package verifvs

import (
	"runtime"
	"strings"
	"sync"
	"sync/atomic"
	"unsafe"
)

// objModel gives a sync object a canonical identity (hash of its first toucher) and a version.
type objModel struct {
	id    uint64
	ver   uint64
	nover bool // declared commutative: the order of operations on it is not part of the state identity
}

//go:norace
func (o *objModel) bump(e *Exec, t *thread) uint64 {
	if o.nover {
		return 0x5eed
	}
	if o.id == 0 {
		o.id = mix(t.hash, 0x51ed) | 1
	}
	o.ver++
	return mix(o.id, o.ver)
}

//go:norace
func callerPC() uintptr {
	var pcs [1]uintptr
	runtime.Callers(3, pcs[:])
	return pcs[0]
}

func pcSite(pc uintptr) string {
	if pc == 0 {
		return ""
	}
	fr, _ := runtime.CallersFrames([]uintptr{pc}).Next()
	return shortFile(fr.File) + ":" + itoa(fr.Line)
}

func shortFile(f string) string {
	n := 0
	for i := len(f) - 1; i >= 0; i-- {
		if f[i] == '/' {
			n++
			if n == 2 {
				return f[i+1:]
			}
		}
	}
	return f
}

func itoa(i int) string {
	if i == 0 {
		return "0"
	}
	var b [20]byte
	p := len(b)
	neg := i < 0
	if neg {
		i = -i
	}
	for i > 0 {
		p--
		b[p] = byte('0' + i%10)
		i /= 10
	}
	if neg {
		p--
		b[p] = '-'
	}
	return string(b[p:])
}

// ---------------------------------------------------------------------------------------------
// Mutex

type MutexModel struct {
	objModel
	locked bool
	owner  *thread
	// atomicSec: critical sections of this mutex contain no scheduling point (checked) and Unlock is
	// not a scheduling point, so the mutex is never observed held; readerFns names the functions whose
	// sections commute with each other (read mode in transition footprints)
	atomicSec  bool
	readerFns  []string
	lastLockPC uintptr
	pcClass    []pcClass
}

type pcClass struct {
	pc     uintptr
	reader bool
}

// readerSite reports whether the Lock call at pc belongs to a function declared commuting.
//
//go:norace
func (m *MutexModel) readerSite(pc uintptr) bool {
	for i := range m.pcClass {
		if m.pcClass[i].pc == pc {
			return m.pcClass[i].reader
		}
	}
	r := false
	if f := runtime.FuncForPC(pc); f != nil {
		name := f.Name()
		for _, fn := range m.readerFns {
			if strings.HasSuffix(name, fn) {
				r = true
			}
		}
	}
	m.pcClass = append(m.pcClass, pcClass{pc, r})
	return r
}

// VMutex replaces sync.Mutex in instrumented code.
type VMutex struct {
	mu sync.Mutex
	m  MutexModel
}

//go:norace
func (m *VMutex) Lock() {
	if !controlled {
		m.mu.Lock()
		return
	}
	if cur.aborting {
		panic(abortSentinel)
	}
	pc := callerPC()
	block(pending{kind: opLock, mu: &m.m, pc: pc})
	m.m.locked = true
	m.m.lastLockPC = pc
	if m.m.nover || (m.m.atomicSec && m.m.readerSite(m.m.lastLockPC)) {
		m.m.owner = cur.running
		m.m.owner.commHeld++
	}
	m.mu.Lock()
}

//go:norace
func (m *VMutex) Unlock() {
	if !controlled {
		m.mu.Unlock()
		return
	}
	if !m.m.locked {
		if cur.aborting {
			return
		}
		m.mu.Unlock() // fatal error exactly as the real program
		return
	}
	if m.m.owner != nil {
		// an atomic section (commutative mutex, or a section entered from a commuting function)
		m.m.owner.commHeld--
		m.m.owner = nil
	} else if !cur.aborting {
		// releasing is a visible operation (it enables waiters): a scheduling point of its own
		block(pending{kind: opYield, pc: callerPC(), obj: uintptr(unsafe.Pointer(&m.m))})
	}
	m.m.locked = false
	m.mu.Unlock()
}

// Commutative declares that critical sections of this mutex commute (they only update counters or
// sets that no oracle of the harness observes) and contain no scheduling point (checked at run
// time: violating it is an engine error).  Lock stays a scheduling point, Unlock is not one, and
// the mutex is left out of transition footprints and of the state identity.  Each use needs a
// written argument in the harness.
//
//go:norace
func (m *VMutex) Commutative() { m.m.nover = true }

// AtomicSections declares that the critical sections of this mutex entered from the named functions
// (suffix match on the fully qualified function name, e.g. "(*ClientMap).SendQueue") contain no
// scheduling point (checked at run time: violating it is an engine error) and commute with each
// other.  Such a section is one transition (its Unlock is not a scheduling point) that accesses the
// mutex in read mode for the partial-order reduction; all other sections of the mutex are ordinary
// (write mode, Unlock is a scheduling point).  Each use needs a written argument in the harness.
//
//go:norace
func (m *VMutex) AtomicSections(commutingFns ...string) {
	m.m.atomicSec = true
	m.m.readerFns = commutingFns
}

//go:norace
func (m *VMutex) TryLock() bool {
	if !controlled {
		return m.mu.TryLock()
	}
	block(pending{kind: opYield, pc: callerPC(), obj: uintptr(unsafe.Pointer(m))})
	if m.m.locked {
		return false
	}
	m.m.locked = true
	m.mu.Lock()
	return true
}

// ---------------------------------------------------------------------------------------------
// RWMutex

type RWModel struct {
	objModel
	writer  bool
	readers int
}

// VRWMutex replaces sync.RWMutex.
type VRWMutex struct {
	mu sync.RWMutex
	m  RWModel
}

//go:norace
func (m *VRWMutex) Lock() {
	if !controlled {
		m.mu.Lock()
		return
	}
	if cur.aborting {
		panic(abortSentinel)
	}
	block(pending{kind: opLock, rw: &m.m, pc: callerPC()})
	m.m.writer = true
	m.mu.Lock()
}

//go:norace
func (m *VRWMutex) Unlock() {
	if !controlled {
		m.mu.Unlock()
		return
	}
	if !m.m.writer {
		if cur.aborting {
			return
		}
		m.mu.Unlock()
		return
	}
	if !cur.aborting {
		block(pending{kind: opYield, pc: callerPC(), obj: uintptr(unsafe.Pointer(&m.m))})
	}
	m.m.writer = false
	m.mu.Unlock()
}

//go:norace
func (m *VRWMutex) RLock() {
	if !controlled {
		m.mu.RLock()
		return
	}
	if cur.aborting {
		panic(abortSentinel)
	}
	block(pending{kind: opRLock, rw: &m.m, pc: callerPC()})
	m.m.readers++
	m.mu.RLock()
}

//go:norace
func (m *VRWMutex) RUnlock() {
	if !controlled {
		m.mu.RUnlock()
		return
	}
	if m.m.readers <= 0 {
		if cur.aborting {
			return
		}
		m.mu.RUnlock()
		return
	}
	if !cur.aborting {
		block(pending{kind: opYield, pc: callerPC(), obj: uintptr(unsafe.Pointer(&m.m)), readOnly: true})
	}
	m.m.readers--
	m.mu.RUnlock()
}

// RLocker mirrors sync.RWMutex.RLocker.
func (m *VRWMutex) RLocker() sync.Locker { return (*rlocker)(m) }

type rlocker VRWMutex

func (r *rlocker) Lock()   { (*VRWMutex)(r).RLock() }
func (r *rlocker) Unlock() { (*VRWMutex)(r).RUnlock() }

// ---------------------------------------------------------------------------------------------
// WaitGroup

type WGModel struct {
	objModel
	n int
}

// VWaitGroup replaces sync.WaitGroup.
type VWaitGroup struct {
	wg sync.WaitGroup
	m  WGModel
}

//go:norace
func (w *VWaitGroup) Add(d int) {
	if controlled {
		if !cur.aborting {
			block(pending{kind: opYield, pc: callerPC(), obj: uintptr(unsafe.Pointer(&w.m))})
		}
		w.m.n += d
	}
	w.wg.Add(d)
}

//go:norace
func (w *VWaitGroup) Done() { w.Add(-1) }

//go:norace
func (w *VWaitGroup) Wait() {
	if !controlled {
		w.wg.Wait()
		return
	}
	if cur.aborting {
		panic(abortSentinel)
	}
	block(pending{kind: opWait, wg: &w.m, pc: callerPC()})
	w.wg.Wait()
}

// ---------------------------------------------------------------------------------------------
// Once

const (
	onceIdle = iota
	onceRunning
	onceDone
)

type OnceModel struct {
	objModel
	state int
}

// VOnce replaces sync.Once.
type VOnce struct {
	once sync.Once
	m    OnceModel
}

//go:norace
func (o *VOnce) Do(f func()) {
	if !controlled {
		o.once.Do(f)
		return
	}
	if cur.aborting {
		if o.m.state == onceIdle {
			o.m.state = onceDone
			o.once.Do(f)
		}
		return
	}
	block(pending{kind: opOnce, once: &o.m, pc: callerPC()})
	if o.m.state == onceDone {
		o.once.Do(func() {}) // acquire edge, as the real Once gives
		return
	}
	o.m.state = onceRunning
	defer onceFinish(&o.m)
	o.once.Do(f)
}

//go:norace
func onceFinish(m *OnceModel) {
	if controlled && !cur.aborting && cur.running != nil && cur.running.state == stRunning {
		block(pending{kind: opYield, obj: uintptr(unsafe.Pointer(m))})
	}
	m.state = onceDone
}

// ---------------------------------------------------------------------------------------------
// atomics (each operation is a scheduling point; the real operation follows)

//go:norace
func atomicPoint(addr unsafe.Pointer) {
	if !controlled || cur.aborting || cur.noAtomicPoints {
		return
	}
	block(pending{kind: opYield, pc: callerPC(), obj: uintptr(addr)})
}

//go:norace
func atomicReadPoint(addr unsafe.Pointer) {
	if !controlled || cur.aborting || cur.noAtomicPoints {
		return
	}
	block(pending{kind: opYield, pc: callerPC(), obj: uintptr(addr), readOnly: true})
}

func AddInt32(a *int32, d int32) int32 { atomicPoint(unsafe.Pointer(a)); return atomic.AddInt32(a, d) }
func AddInt64(a *int64, d int64) int64 { atomicPoint(unsafe.Pointer(a)); return atomic.AddInt64(a, d) }
func AddUint32(a *uint32, d uint32) uint32 {
	atomicPoint(unsafe.Pointer(a))
	return atomic.AddUint32(a, d)
}
func AddUint64(a *uint64, d uint64) uint64 {
	atomicPoint(unsafe.Pointer(a))
	return atomic.AddUint64(a, d)
}
func LoadInt32(a *int32) int32    { atomicReadPoint(unsafe.Pointer(a)); return atomic.LoadInt32(a) }
func LoadInt64(a *int64) int64    { atomicReadPoint(unsafe.Pointer(a)); return atomic.LoadInt64(a) }
func LoadUint32(a *uint32) uint32 { atomicReadPoint(unsafe.Pointer(a)); return atomic.LoadUint32(a) }
func LoadUint64(a *uint64) uint64 { atomicReadPoint(unsafe.Pointer(a)); return atomic.LoadUint64(a) }
func StoreInt32(a *int32, v int32) {
	atomicPoint(unsafe.Pointer(a))
	atomic.StoreInt32(a, v)
}
func StoreInt64(a *int64, v int64) {
	atomicPoint(unsafe.Pointer(a))
	atomic.StoreInt64(a, v)
}
func StoreUint32(a *uint32, v uint32) {
	atomicPoint(unsafe.Pointer(a))
	atomic.StoreUint32(a, v)
}
func StoreUint64(a *uint64, v uint64) {
	atomicPoint(unsafe.Pointer(a))
	atomic.StoreUint64(a, v)
}
func CompareAndSwapInt32(a *int32, o, n int32) bool {
	atomicPoint(unsafe.Pointer(a))
	return atomic.CompareAndSwapInt32(a, o, n)
}
func CompareAndSwapInt64(a *int64, o, n int64) bool {
	atomicPoint(unsafe.Pointer(a))
	return atomic.CompareAndSwapInt64(a, o, n)
}
func CompareAndSwapUint32(a *uint32, o, n uint32) bool {
	atomicPoint(unsafe.Pointer(a))
	return atomic.CompareAndSwapUint32(a, o, n)
}
func CompareAndSwapUint64(a *uint64, o, n uint64) bool {
	atomicPoint(unsafe.Pointer(a))
	return atomic.CompareAndSwapUint64(a, o, n)
}

// VAtomicValue replaces atomic.Value.
type VAtomicValue struct {
	v atomic.Value
}

func (v *VAtomicValue) Load() interface{} {
	atomicReadPoint(unsafe.Pointer(v))
	return v.v.Load()
}
func (v *VAtomicValue) Store(x interface{}) {
	atomicPoint(unsafe.Pointer(v))
	v.v.Store(x)
}
func (v *VAtomicValue) CompareAndSwap(o, n interface{}) bool {
	atomicPoint(unsafe.Pointer(v))
	return v.v.CompareAndSwap(o, n)
}
func (v *VAtomicValue) Swap(n interface{}) interface{} {
	atomicPoint(unsafe.Pointer(v))
	return v.v.Swap(n)
}


// VPool replaces sync.Pool in instrumented code.  Under the scheduler it is a deterministic LIFO that
// never drops an item: Get returns the most recently Put item.  That is one of the behaviours sync.Pool
// allows (the one in which recycling happens as often as possible), and it makes executions that depend
// on recycling reproducible.  Get and Put are scheduling points with the pool as their footprint (the
// order of pool operations of different threads decides who gets which item), unless they happen
// inside a section declared atomic or with atomic points switched off.  A pool is emptied when it is
// first used in a new execution.  Outside the scheduler it is the real pool.
type VPool struct {
	New   func() any
	real  sync.Pool
	items []any
	owner *Exec
	hb    sync.Mutex // gives the race detector the happens-before edge Put -> Get of the real pool
}

//go:norace
func (p *VPool) point() {
	if cur.aborting || cur.checking {
		return
	}
	if t := cur.running; t != nil && t.commHeld == 0 && !cur.noAtomicPoints {
		block(pending{kind: opYield, pc: callerPC(), obj: uintptr(unsafe.Pointer(p))})
	}
}

//go:norace
func (p *VPool) Get() any {
	if !controlled {
		if p.real.New == nil {
			p.real.New = p.New
		}
		return p.real.Get()
	}
	p.point()
	p.hb.Lock()
	defer p.hb.Unlock()
	if p.owner != cur {
		p.owner, p.items = cur, nil
	}
	if n := len(p.items); n > 0 {
		x := p.items[n-1]
		p.items = p.items[:n-1]
		return x
	}
	if p.New != nil {
		return p.New()
	}
	return nil
}

//go:norace
func (p *VPool) Put(x any) {
	if !controlled {
		p.real.Put(x)
		return
	}
	p.point()
	p.hb.Lock()
	defer p.hb.Unlock()
	if p.owner != cur {
		p.owner, p.items = cur, nil
	}
	p.items = append(p.items, x)
}
