//go:build go1.21 && race

package verifvs

import (
	"runtime"
	"time"
)

// RaceBuild reports whether the binary was built with -race.
const RaceBuild = true

// The scheduler's own hand-offs are hidden from the race detector: synchronisation events of the
// current goroutine are ignored between RaceDisable and RaceEnable, so a baton hand-off creates no
// happens-before edge.  The program's own real operations (executed by the hooks outside these
// brackets) still produce exactly the program's edges.

//go:norace
func gateSend(g chan cmd, c cmd) {
	runtime.RaceDisable()
	g <- c
	runtime.RaceEnable()
}

//go:norace
func gateRecv(g chan cmd) cmd {
	runtime.RaceDisable()
	c := <-g
	runtime.RaceEnable()
	return c
}

//go:norace
func gateSendInt(g chan int, v int) {
	runtime.RaceDisable()
	g <- v
	runtime.RaceEnable()
}

//go:norace
func timerSend(ch chan time.Time, v time.Time) {
	runtime.RaceDisable()
	select {
	case ch <- v:
	default:
	}
	runtime.RaceEnable()
}

func raceErrors() int { return runtime.RaceErrors() }
