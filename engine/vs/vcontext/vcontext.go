//go:build go1.21

// Package vcontext replaces "context" in instrumented sources.
package vcontext

import (
	"context"
	"time"

	vs "git.torproject.org/pluggable-transports/snowflake.git/v2/verifvs"
)

type (
	Context    = context.Context
	CancelFunc = context.CancelFunc
)

var (
	Canceled         = context.Canceled
	DeadlineExceeded = context.DeadlineExceeded
)

func Background() Context                             { return context.Background() }
func TODO() Context                                   { return context.TODO() }
func WithCancel(parent Context) (Context, CancelFunc) { return vs.WithCancel(parent) }
func WithTimeout(parent Context, d time.Duration) (Context, CancelFunc) {
	return vs.WithTimeout(parent, d)
}
func WithDeadline(parent Context, d time.Time) (Context, CancelFunc) {
	return vs.WithDeadline(parent, d)
}
func WithValue(parent Context, k, v interface{}) Context { return context.WithValue(parent, k, v) }
