//go:build go1.21 && !race

package verifvs

import "time"

// RaceBuild reports whether the binary was built with -race.
const RaceBuild = false

func gateSend(g chan cmd, c cmd)    { g <- c }
func gateRecv(g chan cmd) cmd       { return <-g }
func gateSendInt(g chan int, v int) { g <- v }
func timerSend(ch chan time.Time, v time.Time) {
	select {
	case ch <- v:
	default:
	}
}
func raceErrors() int { return 0 }
