//go:build go1.21

package verifvs

import "fmt"

// Dynamic partial-order reduction (Flanagan & Godefroid, POPL 2005) combined with sleep sets.
//
// Instead of exploring every enabled alternative at every scheduling point (which, with sleep sets
// alone, makes most executions end "sleep-set blocked"), alternatives are scheduled only where the
// executed trace shows a race: two dependent transitions of different threads that are not ordered
// by happens-before.  For such a pair (i, j) the thread of j (or, conservatively, every enabled
// thread) is added to the backtrack set of the state from which i was executed.
//
// Happens-before is the transitive closure of program order and of "dependent and earlier in the
// trace" (footprint conflict), computed with vector clocks; a clock advance of the virtual time is a
// barrier (it only happens at quiescence, so everything before it happens-before everything
// after).  Soundness rests on the same assumption as sleep sets: data-race freedom of the code
// between scheduling points (checked by C20 on the same harness bodies).

type stepRec struct {
	pt     int32 // index of the recorded point that decided this step, -1 if there was no alternative
	t1, t2 int32
	objs   []objAcc
	wild   bool
	epoch  int32 // number of clock advances before this step
}

//go:norace
func (e *Exec) logStep(tr transition, pt int) {
	var buf [8]objAcc
	id := mkTransID(tr)
	objs, wild, _ := e.transFootprint(id, buf[:0])
	// epoch: the clock epoch in which the operation was declared (not the one in which it finally
	// executes): an operation that stayed pending across a clock advance is not ordered after the
	// steps of the epochs it was pending in.
	s := stepRec{pt: int32(pt), t1: int32(tr.t.id), t2: -1, wild: wild, epoch: tr.t.pendEpoch}
	if tr.partner != nil {
		s.t2 = int32(tr.partner.id)
		if tr.partner.pendEpoch < s.epoch {
			s.epoch = tr.partner.pendEpoch
		}
	}
	for int(e.epochs) >= len(e.epochStart) {
		e.epochStart = append(e.epochStart, int32(len(e.stepLog)))
	}
	if len(objs) > 0 {
		s.objs = append([]objAcc(nil), objs...)
	}
	e.stepLog = append(e.stepLog, s)
}

// pendingSteps returns virtual steps for the operations of threads that are still blocked at the
// end of the execution: they take part in race detection like executed transitions.
func (e *Exec) pendingSteps() []stepRec {
	var out []stepRec
	for _, t := range e.threads {
		if t.state != stParked {
			continue
		}
		var buf [8]objAcc
		objs := buf[:0]
		wild := false
		p := &t.pend
		if p.kind == opChan {
			for i := range p.cases {
				objs = append(objs, objAcc{p.cases[i].ch, true})
			}
		} else {
			objs, wild = footprint(objs, t, 0)
		}
		if len(objs) == 0 && !wild {
			continue
		}
		out = append(out, stepRec{pt: -1, t1: int32(t.id), t2: -1, objs: append([]objAcc(nil), objs...), wild: wild, epoch: t.pendEpoch})
	}
	return out
}

type objAccess struct {
	step  int
	write bool
}

// objHist is the access history of one object in trace order.
type objHist struct {
	acc []objAccess
}

// raceReq is a backtrack request: at point pt, schedule an option involving thread th (or any
// option if th < 0 or the thread has no option there).
type raceReq struct {
	pt int32
	th [2]int32
}

// analyzeRaces computes the backtrack requests of one executed trace.
func analyzeRaces(steps []stepRec, pend []stepRec, nthreads int, epochStart []int32) (reqs []raceReq, anyWild bool) {
	n := len(steps)
	all := steps
	if len(pend) > 0 {
		all = append(append([]stepRec(nil), steps...), pend...)
	}
	// vector clocks: vc[k][t] = index+1 of the latest step of thread t that happens-before-or-equals step k
	vcs := make([][]int32, len(all))
	last := make([]int, nthreads) // last step index of each thread, -1
	for i := range last {
		last[i] = -1
	}
	hist := map[uintptr]*objHist{}
	join := func(dst, src []int32) {
		for i := range dst {
			if src[i] > dst[i] {
				dst[i] = src[i]
			}
		}
	}
	for k := range all {
		s := &all[k]
		virtual := k >= n
		if s.wild {
			anyWild = true
		}
		// steps before the first step of the epoch in which this operation was declared happen-before it
		barrier := n
		if int(s.epoch) < len(epochStart) {
			barrier = int(epochStart[s.epoch])
		}
		vc := make([]int32, nthreads)
		// program order
		for _, t := range [2]int32{s.t1, s.t2} {
			if t >= 0 && int(t) < nthreads && last[t] >= 0 {
				join(vc, vcs[last[t]])
			}
		}
		// Race detection uses the clock before dependency edges are added.  Every earlier conflicting
		// access by another thread that does not already happen-before the thread(s) of s is a race and
		// yields a backtrack request at the state it was executed from.  (Flanagan-Godefroid take only
		// the last such access that "may be co-enabled"; without a precise co-enabledness relation -
		// e.g. Unlock(m) vs Lock(m) are dependent but never co-enabled - taking all of them is the
		// sound over-approximation.)  Scanning an object's history backwards can stop at the first
		// write that happens-before s: everything older happens-before that write.
		for _, o := range s.objs {
			h := hist[o.obj]
			if h == nil {
				continue
			}
			for x := len(h.acc) - 1; x >= 0; x-- {
				ac := h.acc[x]
				i := ac.step
				if i < barrier {
					break
				}
				if !o.write && !ac.write {
					continue
				}
				a := &all[i]
				shares := a.t1 == s.t1 || a.t1 == s.t2 || (a.t2 >= 0 && (a.t2 == s.t1 || a.t2 == s.t2))
				ordered := shares || vc[a.t1] >= int32(i+1)
				if ordered {
					if ac.write {
						break
					}
					continue
				}
				if a.pt >= 0 {
					reqs = append(reqs, raceReq{pt: a.pt, th: [2]int32{s.t1, s.t2}})
				}
			}
		}
		// dependency edges: join with every earlier conflicting access (back to the last write)
		for _, o := range s.objs {
			h := hist[o.obj]
			if h == nil {
				h = &objHist{}
				hist[o.obj] = h
			}
			for x := len(h.acc) - 1; x >= 0; x-- {
				ac := h.acc[x]
				if o.write || ac.write {
					join(vc, vcs[ac.step])
				}
				if ac.write {
					break
				}
			}
		}
		if !virtual {
			for _, t := range [2]int32{s.t1, s.t2} {
				if t >= 0 && int(t) < nthreads {
					vc[t] = int32(k + 1)
					last[t] = k
				}
			}
			for _, o := range s.objs {
				h := hist[o.obj]
				h.acc = append(h.acc, objAccess{k, o.write})
			}
		}
		vcs[k] = vc
	}
	return reqs, anyWild
}

// ---------------------------------------------------------------------------------------------
// explicit-stack explorer

type frame struct {
	n, kind   int32
	chosen    int32
	opts      []transID
	asleep    []bool
	sleepAt   []transID
	forced    bool
	done      []bool
	backtrack []bool
	devBefore int
}

// dpor explores all executions below the configuration prefix cfg.
func (E *explorer) dpor(cfg []int32) {
	var stack []frame
	choices := append([]int32(nil), cfg...)
	var sleepInit []transID
	var spent int64
	for {
		if E.timeUp() {
			return
		}
		if E.opt.MaxExecPerCfg > 0 && spent >= E.opt.MaxExecPerCfg {
			E.capped++
			return
		}
		spent++
		e := E.runOneS(choices, false, sleepInit)
		E.account(e, choices)
		if dumpFile != nil {
			fmt.Fprintf(dumpFile, "RUN blocked=%v choices=%s\n", e.sleepBlk, fmtChoices(choicesOf(e)))
		}
		// extend the stack with the new points of this run
		dev := 0
		for i := 0; i < len(e.points); i++ {
			p := e.points[i]
			if i >= len(stack) {
				f := frame{n: p.n, kind: int32(p.kind), chosen: p.chosen, done: make([]bool, p.n), backtrack: make([]bool, p.n), devBefore: dev}
				if i < len(e.pinfo) {
					pi := e.pinfo[i]
					f.opts, f.asleep, f.sleepAt, f.forced = pi.opts, pi.asleep, pi.sleepAt, pi.forced
				}
				f.done[p.chosen] = true
				if i < len(cfg) {
					// configuration prefix: fixed by the caller, never backtracked here
					f.forced = true
				} else if p.kind != ptSched {
					for a := range f.backtrack {
						f.backtrack[a] = true
					}
				} else {
					f.sameThreadAlternatives(int(p.chosen))
				}
				stack = append(stack, f)
			}
			if p.kind == ptDev && p.chosen > 0 {
				dev++
			}
		}
		// race analysis → backtrack requests
		reqs, wild := analyzeRaces(e.stepLog, e.pendingSteps(), len(e.threads), e.epochStart)
		if wild {
			for i := range stack {
				if stack[i].kind == ptSched {
					for a := range stack[i].backtrack {
						stack[i].backtrack[a] = true
					}
				}
			}
		}
		for _, rq := range reqs {
			if int(rq.pt) >= len(stack) {
				continue
			}
			f := &stack[rq.pt]
			if f.kind != ptSched || f.opts == nil {
				continue
			}
			found := false
			for a, id := range f.opts {
				for _, th := range rq.th {
					if th >= 0 && (id.t1 == th || id.t2 == th) {
						f.backtrack[a] = true
						found = true
					}
				}
			}
			if !found {
				for a := range f.backtrack {
					f.backtrack[a] = true
				}
			}
		}
		e = nil
		// backtrack to the deepest frame with work left
		for {
			if len(stack) == 0 {
				return
			}
			top := len(stack) - 1
			f := &stack[top]
			next := -1
			if !f.forced {
				for a := 0; a < int(f.n); a++ {
					if !f.backtrack[a] || f.done[a] {
						continue
					}
					if f.kind == ptSched && f.asleep != nil && f.asleep[a] {
						continue
					}
					if f.kind == ptDev && a > 0 && E.opt.DevBound >= 0 && f.devBefore+1 > E.opt.DevBound {
						continue
					}
					next = a
					break
				}
			}
			if next < 0 {
				stack = stack[:top]
				continue
			}
			// sleep set of the branch: what slept here plus everything already explored from here
			sleepInit = append([]transID(nil), f.sleepAt...)
			if f.kind == ptSched {
				for a := 0; a < int(f.n); a++ {
					if f.done[a] && f.opts != nil {
						sleepInit = append(sleepInit, f.opts[a])
					}
				}
			}
			f.done[next] = true
			f.chosen = int32(next)
			if f.kind == ptSched {
				f.sameThreadAlternatives(next)
			}
			choices = choices[:0]
			for i := 0; i <= top; i++ {
				choices = append(choices, stack[i].chosen)
			}
			choices = append([]int32(nil), choices...)
			break
		}
	}
}

// sameThreadAlternatives: a thread may have several enabled transitions at a point (select cases,
// rendezvous partners).  Unlike the choice between threads, this choice is not resolved by race
// detection: whenever one transition of a thread is explored from a state, all other transitions
// sharing a thread with it are scheduled for exploration from that state too.
func (f *frame) sameThreadAlternatives(a int) {
	if f.opts == nil {
		return
	}
	for b, id := range f.opts {
		if b != a && shareThread(id, f.opts[a]) {
			f.backtrack[b] = true
		}
	}
}
