//go:build go1.21

package verifvs

import (
	"context"
	"time"
)

// ---------------------------------------------------------------------------------------------
// virtual time

// Now returns the virtual time (wall clock in pass-through mode).
//
//go:norace
func Now() time.Time {
	if !controlled {
		return time.Now()
	}
	return time.Unix(0, cur.clock)
}

// Elapsed returns the virtual time since the start of the execution.
//
//go:norace
func Elapsed() time.Duration {
	if !controlled {
		return 0
	}
	return time.Duration(cur.clock - epoch)
}

//go:norace
func Since(t time.Time) time.Duration { return Now().Sub(t) }

//go:norace
func Until(t time.Time) time.Duration { return t.Sub(Now()) }

//go:norace
func Sleep(d time.Duration) {
	if !controlled {
		time.Sleep(d)
		return
	}
	e := cur
	if e.aborting {
		panic(abortSentinel)
	}
	if d < 0 {
		d = 0
	}
	block(pending{kind: opSleep, deadline: e.clock + int64(d), pc: callerPC()})
}

// VTimer replaces time.Timer.
type VTimer struct {
	C  <-chan time.Time
	tm *timer
	rt *time.Timer
}

//go:norace
func newTimer(d time.Duration, period int64, fn func()) *timer {
	e := cur
	if d < 0 {
		d = 0
	}
	tm := &timer{deadline: e.clock + int64(d), period: period, fn: fn}
	if fn == nil {
		tm.ch = make(chan time.Time, 1)
	}
	e.addTimer(tm)
	return tm
}

//go:norace
func NewTimer(d time.Duration) *VTimer {
	if !controlled {
		rt := time.NewTimer(d)
		return &VTimer{C: rt.C, rt: rt}
	}
	tm := newTimer(d, 0, nil)
	return &VTimer{C: tm.ch, tm: tm}
}

//go:norace
func After(d time.Duration) <-chan time.Time {
	if !controlled {
		return time.After(d)
	}
	return newTimer(d, 0, nil).ch
}

//go:norace
func AfterFunc(d time.Duration, f func()) *VTimer {
	if !controlled {
		return &VTimer{rt: time.AfterFunc(d, f)}
	}
	tm := newTimer(d, 0, f)
	tm.site = pcSite(callerPC())
	return &VTimer{tm: tm}
}

//go:norace
func (t *VTimer) Stop() bool {
	if t.rt != nil {
		return t.rt.Stop()
	}
	active := !t.tm.stopped && !t.tm.fired
	t.tm.stopped = true
	return active
}

//go:norace
func (t *VTimer) Reset(d time.Duration) bool {
	if t.rt != nil {
		return t.rt.Reset(d)
	}
	e := cur
	active := !t.tm.stopped && !t.tm.fired
	t.tm.stopped = true
	nt := &timer{deadline: e.clock + int64(d), ch: t.tm.ch, fn: t.tm.fn, site: t.tm.site}
	e.addTimer(nt)
	t.tm = nt
	return active
}

// VTicker replaces time.Ticker.
type VTicker struct {
	C  <-chan time.Time
	tm *timer
	rt *time.Ticker
}

//go:norace
func NewTicker(d time.Duration) *VTicker {
	if !controlled {
		rt := time.NewTicker(d)
		return &VTicker{C: rt.C, rt: rt}
	}
	if d <= 0 {
		panic("non-positive interval for NewTicker")
	}
	tm := newTimer(d, int64(d), nil)
	return &VTicker{C: tm.ch, tm: tm}
}

//go:norace
func Tick(d time.Duration) <-chan time.Time {
	if !controlled {
		return time.Tick(d)
	}
	if d <= 0 {
		return nil
	}
	return NewTicker(d).C
}

//go:norace
func (t *VTicker) Stop() {
	if t.rt != nil {
		t.rt.Stop()
		return
	}
	t.tm.stopped = true
}

//go:norace
func (t *VTicker) Reset(d time.Duration) {
	if t.rt != nil {
		t.rt.Reset(d)
		return
	}
	e := cur
	t.tm.stopped = true
	nt := &timer{deadline: e.clock + int64(d), period: int64(d), ch: t.tm.ch}
	e.addTimer(nt)
	t.tm = nt
}

// ---------------------------------------------------------------------------------------------
// context (only what the repository uses: Background/TODO, WithCancel, WithTimeout, WithDeadline)

type vctx struct {
	context.Context // parent
	done            chan struct{}
	err             error
	mu              VMutex
	timer           *VTimer
	deadline        time.Time
	hasDL           bool
}

func (c *vctx) Done() <-chan struct{} { return c.done }
func (c *vctx) Err() error {
	c.mu.Lock()
	defer c.mu.Unlock()
	return c.err
}
func (c *vctx) Deadline() (time.Time, bool) {
	if c.hasDL {
		return c.deadline, true
	}
	return c.Context.Deadline()
}

func (c *vctx) cancel(err error) {
	c.mu.Lock()
	if c.err != nil {
		c.mu.Unlock()
		return
	}
	c.err = err
	c.mu.Unlock()
	if c.timer != nil {
		c.timer.Stop()
	}
	Close("vcontext.cancel", c.done)
}

// WithCancel mirrors context.WithCancel on scheduler-visible channels.
func WithCancel(parent context.Context) (context.Context, context.CancelFunc) {
	if !controlled {
		return context.WithCancel(parent)
	}
	c := &vctx{Context: parent, done: make(chan struct{})}
	propagate(parent, c)
	return c, func() { c.cancel(context.Canceled) }
}

func propagate(parent context.Context, c *vctx) {
	pd := parent.Done()
	if pd == nil {
		return
	}
	Go("vcontext.propagate", func() {
		c0 := RecvCase(pd)
		c1 := RecvCase((<-chan struct{})(c.done))
		if Select("vcontext.propagate", false, c0, c1) == 0 {
			c.cancel(parent.Err())
		}
	})
}

// WithDeadline mirrors context.WithDeadline.
func WithDeadline(parent context.Context, d time.Time) (context.Context, context.CancelFunc) {
	if !controlled {
		return context.WithDeadline(parent, d)
	}
	c := &vctx{Context: parent, done: make(chan struct{}), deadline: d, hasDL: true}
	propagate(parent, c)
	c.timer = AfterFunc(Until(d), func() { c.cancel(context.DeadlineExceeded) })
	return c, func() { c.cancel(context.Canceled) }
}

// WithTimeout mirrors context.WithTimeout.
func WithTimeout(parent context.Context, d time.Duration) (context.Context, context.CancelFunc) {
	if !controlled {
		return context.WithTimeout(parent, d)
	}
	return WithDeadline(parent, Now().Add(d))
}
