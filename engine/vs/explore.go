//go:build go1.21

package verifvs

import (
	"encoding/json"
	"fmt"
	"os"
	"runtime"
	"sort"
	"strconv"
	"strings"
	"time"
)

// Harness is one closed driver around real code.
type Harness struct {
	Name     string
	Horizon  time.Duration // virtual horizon; timers beyond it never fire
	MaxSteps int
	// Body runs as thread 0 under the scheduler.  It typically builds fresh objects, stores them in
	// x.User and spawns threads with GoRole.
	Body func(x *X)
	// Check runs in the driver after quiescence, with every thread parked.
	Check func(x *X)
	// NoAtomicPoints: sync/atomic operations of instrumented code are executed without a scheduling
	// point.  Only for harnesses whose oracles cannot observe the values involved (argued there).
	NoAtomicPoints bool
}

// X is the harness's view of one execution.
type X struct {
	e    *Exec
	User interface{}
	Cfg  map[string]string
}

// Fail records an oracle violation.  sig is the stable signature used for known findings.
//
//go:norace
func (x *X) Fail(clause, sig, format string, a ...interface{}) {
	x.e.fails = append(x.e.fails, Failure{Clause: clause, Sig: sig, Msg: fmt.Sprintf(format, a...)})
}

// Observe appends to the observation log (used for determinism checks and outcome counting).
//
//go:norace
func (x *X) Observe(format string, a ...interface{}) {
	x.e.obs = append(x.e.obs, fmt.Sprintf(format, a...))
}

// Outcome adds to the outcome string of the execution without formatting cost.
//
//go:norace
func (x *X) Outcome(s string) { x.e.obs = append(x.e.obs, s) }

// StepLimitHit reports whether the execution was cut by the step limit.
func (x *X) StepLimitHit() bool { return x.e.stepLim }

// Threads describes all threads at the end of the execution.
func (x *X) Threads() []ThreadInfo {
	var out []ThreadInfo
	for _, t := range x.e.threads {
		ti := ThreadInfo{ID: t.id, Name: t.name, Role: t.role, Done: t.state == stDone}
		if !ti.Done {
			ti.Site = t.pend.site
			if ti.Site == "" {
				ti.Site = pcSite(t.pend.pc)
			}
			ti.Op = opName(t.pend.kind)
		}
		if t.panicV != nil {
			ti.Panic = fmt.Sprint(t.panicV)
			ti.PanicAt = t.panicS
		}
		out = append(out, ti)
	}
	return out
}

func opName(k opKind) string {
	switch k {
	case opStart:
		return "start"
	case opResume:
		return "resume"
	case opYield:
		return "yield"
	case opChan:
		return "chan"
	case opLock:
		return "lock"
	case opRLock:
		return "rlock"
	case opWait:
		return "wgwait"
	case opOnce:
		return "once"
	case opSleep:
		return "sleep"
	case opCond:
		return "cond"
	}
	return "?"
}

// Elapsed is the virtual time since the start of the execution.
func (x *X) Elapsed() time.Duration { return time.Duration(x.e.clock - epoch) }

// ---------------------------------------------------------------------------------------------

// Options of one exploration pass.
type Options struct {
	Bound     int  // preemption bound (-1: unbounded)
	DevBound  int  // deviation bound for ChooseDev (-1: unbounded)
	Cache     bool // happens-before state cache
	Shard     int
	NShards   int
	Deadline  time.Time
	MaxExec   int64
	Cfg       map[string]string
	MaxFails  int
	FrontierK int
	Race      bool // race mode: skip Check, collect detector reports
	ClaimDir  string
	POR       bool // sleep-set partial-order reduction (requires Bound == -1)
	// MaxExecPerCfg caps the executions spent on one configuration (0: none), so that a time budget
	// is spread over all configurations instead of being used up by the first ones; a configuration
	// that hits the cap makes the pass non-exhaustive.
	MaxExecPerCfg int64
}

// Violation is a failing execution with its replayable choice list.
type Violation struct {
	Failure
	Choices []int32  `json:"choices"`
	Obs     []string `json:"obs,omitempty"`
	Steps   []string `json:"steps,omitempty"`
}

// Result of one exploration pass.
type Result struct {
	Harness       string         `json:"harness"`
	Bound         int            `json:"bound"`
	DevBound      int            `json:"dev_bound"`
	Cache         bool           `json:"cache"`
	Shard         int            `json:"shard"`
	NShards       int            `json:"nshards"`
	Executions    int64          `json:"executions"`
	Transitions   int64          `json:"transitions"`
	States        int64          `json:"states"`
	CacheHits     int64          `json:"cache_hits"`
	MaxDepth      int            `json:"max_depth"`
	MaxThreads    int            `json:"max_threads"`
	Outcomes      map[string]int `json:"outcomes"`
	NOutcomes     int            `json:"n_outcomes"`
	Exhaustive    bool           `json:"exhaustive"`
	StopReason    string         `json:"stop_reason,omitempty"`
	Violations    []Violation    `json:"violations"`
	SigCounts     map[string]int `json:"sig_counts"`
	WallS         float64        `json:"wall_s"`
	Samples       [][]string     `json:"samples,omitempty"`
	RaceErrors    int            `json:"race_errors"`
	StepLimited   int64          `json:"step_limited"`
	CutEarly      int64          `json:"cut_early"`
	SleepBlocked  int64          `json:"sleep_blocked"`
	POR           bool           `json:"por"`
	ShardMode     string         `json:"shard_mode,omitempty"`
	ConfigsCapped int            `json:"configs_capped"`
	Configs       int            `json:"configs,omitempty"`
}

var findOutcome = os.Getenv("VERIF_FIND")
var findCount int
var dumpFile = func() *os.File {
	if p := os.Getenv("VERIF_DUMP"); p != "" {
		f, _ := os.Create(p)
		return f
	}
	return nil
}()

type explorer struct {
	h      *Harness
	opt    Options
	res    *Result
	cache  map[uint64]uint16 // state key -> min (preemptions<<8 | deviations) seen; only dominated entries prune
	stop   bool
	capped int
	nodeNo int64
	curPre int // preemptions used by the current run up to the point being decided (maintained in cacheFn)
}

const watchdog = 60 * time.Second

// runOne executes the harness once following prefix, defaults afterwards.
func (E *explorer) runOne(prefix []int32, useCache bool) *Exec {
	return E.runOneS(prefix, useCache, nil)
}

//go:norace
func (E *explorer) runOneS(prefix []int32, useCache bool, sleepInit []transID) *Exec {
	h := E.h
	e := &Exec{prefix: prefix, clock: epoch, cacheCut: -1, traceOn: traceNext}
	if E.opt.POR {
		e.por = true
		e.sleepInit = sleepInit
		if len(prefix) == 0 {
			e.sleep = append([]transID(nil), sleepInit...)
		}
	}
	e.horizon = epoch + int64(h.Horizon)
	e.maxSteps = h.MaxSteps
	if e.maxSteps == 0 {
		e.maxSteps = 20000
	}
	e.quiesceC = make(chan int, 1)
	e.noAtomicPoints = h.NoAtomicPoints
	e.Cfg = E.opt.Cfg
	if useCache {
		e.cacheFn = E.cacheCheck
	} else if E.opt.Cache {
		e.cacheFn = func(*Exec, int) bool { return false } // keep hashes flowing for States count
	}
	x := &X{e: e, Cfg: E.opt.Cfg}
	cur = e
	controlled = true
	main := e.spawn("main", RoleDaemon, func() { h.Body(x) })
	e.running = main
	main.state = stRunning
	gateSend(main.gate, cmd{kind: cmdRun})
	select {
	case <-e.quiesceC:
	case <-time.After(watchdog):
		engineFail("watchdog: execution did not reach quiescence in %v (prefix %v)", watchdog, prefix)
	}
	if e.stepLim {
		E.res.StepLimited++
	}
	if e.sleepBlk {
		E.res.SleepBlocked++
	} else if e.earlyStop {
		E.res.CutEarly++
	} else if h.Check != nil && !E.opt.Race {
		e.checking = true
		h.Check(x)
		e.checking = false
	}
	// collect panics of code threads as observations; the harness decides in Check what they mean
	e.aborting = true
	for _, t := range e.threads {
		if t.state != stDone {
			gateSend(t.gate, cmd{kind: cmdAbort})
		}
	}
	e.wg.Wait()
	controlled = false
	cur = nil
	return e
}

// stateKey combines thread hashes (commutatively), the clock and the running thread.
//
//go:norace
func stateKey(e *Exec) uint64 {
	var sum uint64
	for _, t := range e.threads {
		var d uint64
		if t.state == stDone {
			d = 1
		}
		v := mix(t.hash, d)
		sum += mix(v, 0x7)
	}
	k := mix(sum, uint64(e.clock))
	if e.running != nil {
		k = mix(k, e.running.hash)
	}
	return k
}

// cacheCheck is called at every fresh scheduling point with >1 options.  It returns true if the
// state was already expanded with no more preemptions/deviations used.
//
//go:norace
func (E *explorer) cacheCheck(e *Exec, idx int) bool {
	pre, dev := 0, 0
	for i := 0; i < idx; i++ {
		p := e.points[i]
		if p.kind == ptSched && p.k > 0 && p.chosen >= p.k {
			pre++
		}
		if p.kind == ptDev && p.chosen > 0 {
			dev++
		}
	}
	if pre > 255 {
		pre = 255
	}
	if dev > 255 {
		dev = 255
	}
	key := stateKey(e)
	used := uint16(pre<<8 | dev)
	if old, ok := E.cache[key]; ok {
		if int(old>>8) <= pre && int(old&0xff) <= dev {
			E.res.CacheHits++
			return true
		}
		// keep the entry that dominates if comparable, else keep old (sound: we just re-explore)
		if int(old>>8) >= pre && int(old&0xff) >= dev {
			E.cache[key] = used
		}
		return false
	}
	E.cache[key] = used
	return false
}

func (E *explorer) account(e *Exec, prefix []int32) {
	r := E.res
	r.Executions++
	r.Transitions += int64(e.steps)
	if len(e.points) > r.MaxDepth {
		r.MaxDepth = len(e.points)
	}
	if len(e.threads) > r.MaxThreads {
		r.MaxThreads = len(e.threads)
	}
	if e.earlyStop {
		return
	}
	oc := strings.Join(e.obs, ";")
	if findOutcome != "" && strings.Contains(oc, findOutcome) {
		fmt.Printf("FOUND outcome %q\n  choices=%s\n", oc, fmtChoices(choicesOf(e)))
		findCount++
		if findCount >= 3 {
			os.Exit(0)
		}
	}
	if len(r.Outcomes) < 4096 {
		r.Outcomes[oc]++
	} else if _, ok := r.Outcomes[oc]; ok {
		r.Outcomes[oc]++
	}
	if len(r.Samples) < 3 && len(e.obs) > 0 {
		r.Samples = append(r.Samples, append([]string{"choices=" + fmtChoices(choicesOf(e))}, e.obs...))
	}
	for _, f := range e.fails {
		r.SigCounts[f.Sig]++
		// keep the first few violations per signature
		n := 0
		for _, v := range r.Violations {
			if v.Sig == f.Sig {
				n++
			}
		}
		if n < E.opt.MaxFails {
			r.Violations = append(r.Violations, Violation{Failure: f, Choices: choicesOf(e), Obs: e.obs})
		}
	}
}

func choicesOf(e *Exec) []int32 {
	out := make([]int32, len(e.points))
	for i, p := range e.points {
		out[i] = p.chosen
	}
	// trailing zeros are implied
	n := len(out)
	for n > 0 && out[n-1] == 0 {
		n--
	}
	return out[:n]
}

func fmtChoices(c []int32) string {
	var sb strings.Builder
	for i, v := range c {
		if i > 0 {
			sb.WriteByte(',')
		}
		sb.WriteString(strconv.Itoa(int(v)))
	}
	return sb.String()
}

type node struct {
	prefix []int32
}

// children of an executed node: for every point at or beyond len(prefix) (and before the cache
// cut), every alternative within the bounds.
func (E *explorer) children(e *Exec, plen int) [][]int32 {
	var out [][]int32
	pre, dev := 0, 0
	for i, p := range e.points {
		if i >= plen && (e.cacheCut < 0 || i < e.cacheCut) {
			for alt := int32(0); alt < p.n; alt++ {
				if alt == p.chosen {
					continue
				}
				if i < plen {
					continue
				}
				// alternatives below the chosen one were explored by an ancestor only if this point is
				// inside the prefix; beyond the prefix the chosen one is always 0
				cp, cd := pre, dev
				if p.kind == ptSched && p.k > 0 && alt >= p.k {
					cp++
				}
				if p.kind == ptDev && alt > 0 {
					cd++
				}
				if E.opt.Bound >= 0 && cp > E.opt.Bound {
					continue
				}
				if E.opt.DevBound >= 0 && cd > E.opt.DevBound {
					continue
				}
				c := make([]int32, i+1)
				for j := 0; j < i; j++ {
					c[j] = e.points[j].chosen
				}
				c[i] = alt
				out = append(out, c)
			}
		}
		if p.kind == ptSched && p.k > 0 && p.chosen >= p.k {
			pre++
		}
		if p.kind == ptDev && p.chosen > 0 {
			dev++
		}
	}
	return out
}

func (E *explorer) timeUp() bool {
	if E.stop {
		return true
	}
	if !E.opt.Deadline.IsZero() && time.Now().After(E.opt.Deadline) {
		E.stop = true
		E.res.StopReason = "time budget"
		return true
	}
	if E.opt.MaxExec > 0 && E.res.Executions >= E.opt.MaxExec {
		E.stop = true
		E.res.StopReason = "execution budget"
		return true
	}
	return false
}

func (E *explorer) dfs(prefix []int32) {
	if E.timeUp() {
		return
	}
	e := E.runOne(prefix, E.opt.Cache)
	E.account(e, prefix)
	kids := E.children(e, len(prefix))
	e = nil
	for _, k := range kids {
		E.dfs(k)
		if E.stop {
			return
		}
	}
}

// enumConfigs enumerates the configurations of a harness: the value vectors of its leading
// Choose points (those before the first scheduling point).  It stops early (returning what it has)
// once more than limit*64 configurations exist... it never does: configurations are always
// enumerated completely, the limit only skips the enumeration when the harness has too few.
func (E *explorer) enumConfigs(min int) [][]int32 {
	var out [][]int32
	var rec func(prefix []int32)
	rec = func(prefix []int32) {
		e := E.runOne(prefix, false)
		m := 0
		for m < len(e.points) && e.points[m].kind != ptSched {
			m++
		}
		cfg := make([]int32, m)
		dev := 0
		for i := 0; i < m; i++ {
			cfg[i] = e.points[i].chosen
		}
		out = append(out, cfg)
		for i := 0; i < m; i++ {
			p := e.points[i]
			if i >= len(prefix) {
				for alt := int32(1); alt < p.n; alt++ {
					if p.kind == ptDev && E.opt.DevBound >= 0 && dev+1 > E.opt.DevBound {
						continue
					}
					c := append(append([]int32{}, cfg[:i]...), alt)
					rec(c)
				}
			}
			if p.kind == ptDev && p.chosen > 0 {
				dev++
			}
		}
	}
	rec(nil)
	return out
}

// dfsSleep is the sleep-set variant of dfs (unbounded preemptions only).
func (E *explorer) dfsSleep(prefix []int32, sleepInit []transID) {
	if E.timeUp() {
		return
	}
	e := E.runOneS(prefix, false, sleepInit)
	E.account(e, prefix)
	if dumpFile != nil {
		fmt.Fprintf(dumpFile, "RUN prefixlen=%d blocked=%v choices=", len(prefix), e.sleepBlk)
		for i, p := range e.points {
			as := ""
			if i < len(e.pinfo) && e.pinfo[i].asleep != nil {
				for _, a := range e.pinfo[i].asleep {
					if a {
						as += "z"
					} else {
						as += "."
					}
				}
			}
			fmt.Fprintf(dumpFile, "%d/%d%s ", p.chosen, p.n, as)
		}
		fmt.Fprintf(dumpFile, " sleepInit=%v\n", sleepInit)
	}
	points, pinfo := e.points, e.pinfo
	e = nil
	dev := 0
	for i := 0; i < len(points); i++ {
		p := points[i]
		if i >= len(prefix) {
			pi := pinfo[i]
			mk := func(alt int32) []int32 {
				c := make([]int32, i+1)
				for j := 0; j < i; j++ {
					c[j] = points[j].chosen
				}
				c[i] = alt
				return c
			}
			if p.kind != ptSched {
				for alt := int32(0); alt < p.n; alt++ {
					if alt == p.chosen {
						continue
					}
					if p.kind == ptDev && E.opt.DevBound >= 0 && dev+1 > E.opt.DevBound {
						continue
					}
					E.dfsSleep(mk(alt), pi.sleepAt)
					if E.stop {
						return
					}
				}
			} else if !pi.forced {
				explored := []transID{pi.opts[p.chosen]}
				for alt := int32(0); alt < p.n; alt++ {
					if alt == p.chosen || pi.asleep[alt] {
						continue
					}
					init := make([]transID, 0, len(pi.sleepAt)+len(explored))
					init = append(init, pi.sleepAt...)
					init = append(init, explored...)
					E.dfsSleep(mk(alt), init)
					if E.stop {
						return
					}
					explored = append(explored, pi.opts[alt])
				}
			}
		}
		if p.kind == ptDev && p.chosen > 0 {
			dev++
		}
	}
}

// Explore runs one pass.  With NShards > 1 the tree is first expanded breadth-first (identically
// in every shard) until at least FrontierK open nodes exist; shard s then explores the subtrees of
// the open nodes with index ≡ s (mod NShards).  Nodes executed during the expansion are accounted
// by shard 0 only.
func Explore(h *Harness, opt Options) *Result {
	if opt.MaxFails == 0 {
		opt.MaxFails = 2
	}
	if opt.NShards <= 0 {
		opt.NShards = 1
	}
	if opt.FrontierK == 0 {
		opt.FrontierK = 64 * opt.NShards
	}
	res := &Result{Harness: h.Name, Bound: opt.Bound, DevBound: opt.DevBound, Cache: opt.Cache, Shard: opt.Shard, NShards: opt.NShards,
		Outcomes: map[string]int{}, SigCounts: map[string]int{}}
	E := &explorer{h: h, opt: opt, res: res, cache: map[uint64]uint16{}}
	start := time.Now()
	race0 := raceErrors()
	var cfgs [][]int32
	if opt.NShards > 1 {
		cfgs = E.enumConfigs(4 * opt.NShards)
	}
	res.POR = opt.POR
	if opt.POR && opt.Bound >= 0 {
		engineFail("sleep-set reduction cannot be combined with a preemption bound")
	}
	run := E.dfs
	if opt.POR {
		run = func(p []int32) { E.dpor(p) }
		if os.Getenv("VERIF_SLEEPONLY") != "" {
			run = func(p []int32) { E.dfsSleep(p, nil) }
		}
	}
	if opt.NShards == 1 {
		run(nil)
	} else if (len(cfgs) >= opt.NShards || opt.POR) && opt.ClaimDir != "" {
		// Configuration sharding: the leading Choose points of a harness select its configuration;
		// each worker claims whole configurations (dynamic balancing through O_EXCL claim files), so
		// that its state cache sees complete subtrees.
		res.ShardMode = "config"
		res.Configs = len(cfgs)
		for i, c := range cfgs {
			if E.stop {
				break
			}
			f, err := os.OpenFile(fmt.Sprintf("%s/claim-%d", opt.ClaimDir, i), os.O_CREATE|os.O_EXCL|os.O_WRONLY, 0o644)
			if err != nil {
				continue
			}
			f.Close()
			run(c)
		}
	} else {
		res.ShardMode = "frontier"
		// deterministic breadth-first expansion without cache (so that all shards agree)
		queue := [][]int32{nil}
		for len(queue) > 0 && len(queue) < opt.FrontierK {
			p := queue[0]
			queue = queue[1:]
			e := E.runOne(p, false)
			if opt.Shard == 0 {
				E.account(e, p)
			}
			queue = append(queue, E.children(e, len(p))...)
			if E.timeUp() {
				break
			}
		}
		for i, p := range queue {
			if i%opt.NShards != opt.Shard {
				continue
			}
			if opt.POR {
				engineFail("sleep-set mode needs configuration sharding (harness has fewer configurations than shards)")
			}
			E.dfs(p)
			if E.stop {
				break
			}
		}
	}
	res.Exhaustive = !E.stop && E.capped == 0
	res.ConfigsCapped = E.capped
	res.States = int64(len(E.cache))
	res.NOutcomes = len(res.Outcomes)
	res.WallS = time.Since(start).Seconds()
	res.RaceErrors = raceErrors() - race0
	// keep the outcome table small in the output
	if len(res.Outcomes) > 400 {
		type kv struct {
			k string
			v int
		}
		var l []kv
		for k, v := range res.Outcomes {
			l = append(l, kv{k, v})
		}
		sort.Slice(l, func(i, j int) bool { return l[i].v > l[j].v || (l[i].v == l[j].v && l[i].k < l[j].k) })
		res.Outcomes = map[string]int{}
		for _, e := range l[:400] {
			res.Outcomes[e.k] = e.v
		}
	}
	return res
}

// Replay runs one execution from a choice list and returns failures, observations and a
// human-readable step list.
func Replay(h *Harness, cfg map[string]string, choices []int32) (fails []Failure, obs []string, n int, steps []string) {
	res := &Result{Outcomes: map[string]int{}, SigCounts: map[string]int{}}
	E := &explorer{h: h, opt: Options{Cfg: cfg, Bound: -1, DevBound: -1}, res: res, cache: map[uint64]uint16{}}
	traceNext = true
	e := E.runOne(choices, false)
	traceNext = false
	return e.fails, e.obs, len(e.points), e.trace
}

var traceNext bool

// sigsOf is the set of failure signatures of an execution (order and multiplicity ignored: Check
// functions may iterate over maps).
func sigsOf(fs []Failure) string {
	var l []string
	for _, f := range fs {
		l = append(l, f.Clause+"|"+f.Sig)
	}
	sort.Strings(l)
	var sb strings.Builder
	prev := ""
	for _, x := range l {
		if x != prev {
			sb.WriteString(x + ";")
		}
		prev = x
	}
	return sb.String()
}

// ---------------------------------------------------------------------------------------------
// command-line entry used by every harness test binary

// Main dispatches on the environment variable VERIF_ARGS (JSON) and writes the result to the file
// named there.  It is called from a Test function of the harness binary.
func Main(harnesses ...*Harness) {
	raw := os.Getenv("VERIF_ARGS")
	if raw == "" {
		fmt.Println("VERIF_ARGS not set; harnesses:")
		for _, h := range harnesses {
			fmt.Println("  ", h.Name)
		}
		return
	}
	var a struct {
		Harness       string            `json:"harness"`
		Mode          string            `json:"mode"` // explore | replay
		Bound         int               `json:"bound"`
		DevBound      int               `json:"dev_bound"`
		Cache         bool              `json:"cache"`
		Shard         int               `json:"shard"`
		NShards       int               `json:"nshards"`
		BudgetS       float64           `json:"budget_s"`
		MaxExec       int64             `json:"max_exec"`
		Cfg           map[string]string `json:"cfg"`
		Choices       []int32           `json:"choices"`
		Out           string            `json:"out"`
		Race          bool              `json:"race"`
		Repeat        int               `json:"repeat"`
		ClaimDir      string            `json:"claim_dir"`
		POR           bool              `json:"por"`
		MaxExecPerCfg int64             `json:"max_exec_per_cfg"`
	}
	if err := json.Unmarshal([]byte(raw), &a); err != nil {
		engineFail("bad VERIF_ARGS: %v", err)
	}
	var h *Harness
	for _, c := range harnesses {
		if c.Name == a.Harness {
			h = c
		}
	}
	if h == nil {
		engineFail("unknown harness %q", a.Harness)
	}
	runtime.GOMAXPROCS(1)
	var out interface{}
	switch a.Mode {
	case "replay":
		type rep struct {
			Fails  []Failure `json:"fails"`
			Obs    []string  `json:"obs"`
			Points int       `json:"points"`
			Stable bool      `json:"stable"`
			Steps  []string  `json:"steps"`
		}
		r := rep{Stable: true}
		n := a.Repeat
		if n <= 0 {
			n = 1
		}
		for i := 0; i < n; i++ {
			f, o, p, st := Replay(h, a.Cfg, a.Choices)
			if i == 0 {
				r.Fails, r.Obs, r.Points, r.Steps = f, o, p, st
			} else if sigsOf(f) != sigsOf(r.Fails) || strings.Join(o, ";") != strings.Join(r.Obs, ";") {
				// messages may contain addresses (panic stacks); signatures and observations must agree
				r.Stable = false
			}
		}
		out = r
	default:
		opt := Options{Bound: a.Bound, DevBound: a.DevBound, Cache: a.Cache, Shard: a.Shard, NShards: a.NShards, MaxExec: a.MaxExec, Cfg: a.Cfg, Race: a.Race, ClaimDir: a.ClaimDir, POR: a.POR, MaxExecPerCfg: a.MaxExecPerCfg}
		if a.BudgetS > 0 {
			opt.Deadline = time.Now().Add(time.Duration(a.BudgetS * float64(time.Second)))
		}
		out = Explore(h, opt)
	}
	b, _ := json.Marshal(out)
	if a.Out == "" {
		fmt.Println(string(b))
		return
	}
	if err := os.WriteFile(a.Out, b, 0o644); err != nil {
		engineFail("write %s: %v", a.Out, err)
	}
}
