//go:build go1.21

// Package vatomic replaces "sync/atomic" in instrumented sources.
package vatomic

import (
	vs "git.torproject.org/pluggable-transports/snowflake.git/v2/verifvs"
)

type Value = vs.VAtomicValue

func AddInt32(a *int32, d int32) int32                 { return vs.AddInt32(a, d) }
func AddInt64(a *int64, d int64) int64                 { return vs.AddInt64(a, d) }
func AddUint32(a *uint32, d uint32) uint32             { return vs.AddUint32(a, d) }
func AddUint64(a *uint64, d uint64) uint64             { return vs.AddUint64(a, d) }
func LoadInt32(a *int32) int32                         { return vs.LoadInt32(a) }
func LoadInt64(a *int64) int64                         { return vs.LoadInt64(a) }
func LoadUint32(a *uint32) uint32                      { return vs.LoadUint32(a) }
func LoadUint64(a *uint64) uint64                      { return vs.LoadUint64(a) }
func StoreInt32(a *int32, v int32)                     { vs.StoreInt32(a, v) }
func StoreInt64(a *int64, v int64)                     { vs.StoreInt64(a, v) }
func StoreUint32(a *uint32, v uint32)                  { vs.StoreUint32(a, v) }
func StoreUint64(a *uint64, v uint64)                  { vs.StoreUint64(a, v) }
func CompareAndSwapInt32(a *int32, o, n int32) bool    { return vs.CompareAndSwapInt32(a, o, n) }
func CompareAndSwapInt64(a *int64, o, n int64) bool    { return vs.CompareAndSwapInt64(a, o, n) }
func CompareAndSwapUint32(a *uint32, o, n uint32) bool { return vs.CompareAndSwapUint32(a, o, n) }
func CompareAndSwapUint64(a *uint64, o, n uint64) bool { return vs.CompareAndSwapUint64(a, o, n) }
