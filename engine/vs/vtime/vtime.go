//go:build go1.21

// Package vtime replaces "time" in instrumented sources: clocks and timers are virtual, every
// other identifier is the real one.
package vtime

import (
	"time"

	vs "git.torproject.org/pluggable-transports/snowflake.git/v2/verifvs"
)

type (
	Time     = time.Time
	Duration = time.Duration
	Month    = time.Month
	Weekday  = time.Weekday
	Location = time.Location
	Timer    = vs.VTimer
	Ticker   = vs.VTicker
)

const (
	Nanosecond  = time.Nanosecond
	Microsecond = time.Microsecond
	Millisecond = time.Millisecond
	Second      = time.Second
	Minute      = time.Minute
	Hour        = time.Hour

	RFC3339     = time.RFC3339
	RFC3339Nano = time.RFC3339Nano
	RFC1123     = time.RFC1123
)

var (
	UTC   = time.UTC
	Local = time.Local
)

func Now() Time                             { return vs.Now() }
func Since(t Time) Duration                 { return vs.Since(t) }
func Until(t Time) Duration                 { return vs.Until(t) }
func Sleep(d Duration)                      { vs.Sleep(d) }
func After(d Duration) <-chan Time          { return vs.After(d) }
func AfterFunc(d Duration, f func()) *Timer { return vs.AfterFunc(d, f) }
func NewTimer(d Duration) *Timer            { return vs.NewTimer(d) }
func NewTicker(d Duration) *Ticker          { return vs.NewTicker(d) }
func Tick(d Duration) <-chan Time           { return vs.Tick(d) }
func Unix(sec int64, nsec int64) Time       { return time.Unix(sec, nsec) }
func Date(y int, m Month, d, h, mi, s, ns int, loc *Location) Time {
	return time.Date(y, m, d, h, mi, s, ns, loc)
}
func Parse(layout, value string) (Time, error) { return time.Parse(layout, value) }
func ParseDuration(s string) (Duration, error) { return time.ParseDuration(s) }
