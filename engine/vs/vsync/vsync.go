//go:build go1.21

// Package vsync replaces "sync" in instrumented sources.
package vsync

import (
	"sync"

	vs "git.torproject.org/pluggable-transports/snowflake.git/v2/verifvs"
)

type (
	Mutex     = vs.VMutex
	RWMutex   = vs.VRWMutex
	WaitGroup = vs.VWaitGroup
	Once      = vs.VOnce
	Locker    = sync.Locker
	Map       = sync.Map
	Pool      = vs.VPool
)
