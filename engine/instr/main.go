// Command instr rewrites Go packages of the snowflake repository so that every concurrency
// operation goes through the verifvs runtime.  See /verif/DESIGN.md §2.2.
//
// The rewrite is purely mechanical and type-directed.  Unsupported constructs abort loudly.
package main

import (
	"bytes"
	"encoding/json"
	"flag"
	"fmt"
	"go/ast"
	"go/format"
	"go/token"
	"go/types"
	"os"
	"path/filepath"
	"strconv"
	"strings"

	"golang.org/x/tools/go/ast/astutil"
	"golang.org/x/tools/go/packages"
)

const vsPath = "git.torproject.org/pluggable-transports/snowflake.git/v2/verifvs"

var swap = map[string]string{
	"sync":        vsPath + "/vsync",
	"sync/atomic": vsPath + "/vatomic",
	"time":        vsPath + "/vtime",
	"context":     vsPath + "/vcontext",
}

type multi []string

func (m *multi) String() string     { return strings.Join(*m, ",") }
func (m *multi) Set(s string) error { *m = append(*m, s); return nil }

func die(format string, a ...interface{}) {
	fmt.Fprintf(os.Stderr, "instr: "+format+"\n", a...)
	os.Exit(3)
}

func main() {
	repo := flag.String("repo", "/repo", "repository root")
	modfile := flag.String("modfile", "", "alternate go.mod")
	out := flag.String("out", "", "output directory for rewritten sources")
	var pkgs, adds, seams, captures multi
	flag.Var(&pkgs, "pkg", "package pattern relative to repo (repeatable)")
	flag.Var(&adds, "add", "virtualpath=realpath: extra non-test source file to load into its package and instrument (repeatable)")
	flag.Var(&seams, "seam", "pkgpath:Func or pkgpath:(*T).Method: give the function an injectable seam (repeatable)")
	flag.Var(&captures, "capture", "pkgpath:Func:var1,var2: after the statement defining var1 in Func, hand the named local variables to VerifCapture_Func (if set) and return nil results (repeatable)")
	noTime := flag.String("keep-time", "", "comma separated package dirs whose time import is not swapped")
	flag.Parse()
	if *out == "" || len(pkgs) == 0 {
		die("usage: instr -out DIR -pkg ./broker ...")
	}
	keepTime := map[string]bool{}
	for _, d := range strings.Split(*noTime, ",") {
		if d != "" {
			keepTime[d] = true
		}
	}
	overlay := map[string][]byte{}
	addSet := map[string]string{}
	for _, a := range adds {
		kv := strings.SplitN(a, "=", 2)
		if len(kv) != 2 {
			die("bad -add %q", a)
		}
		b, err := os.ReadFile(kv[1])
		if err != nil {
			die("%v", err)
		}
		overlay[kv[0]] = b
		addSet[kv[0]] = kv[1]
	}
	cfg := &packages.Config{
		Mode:    packages.NeedName | packages.NeedFiles | packages.NeedCompiledGoFiles | packages.NeedSyntax | packages.NeedTypes | packages.NeedTypesInfo | packages.NeedImports | packages.NeedDeps,
		Dir:     *repo,
		Overlay: overlay,
		Env:     append(os.Environ(), "GOFLAGS=-mod=mod", "GOPROXY=off", "GOSUMDB=off", "GOTOOLCHAIN=local"),
	}
	if *modfile != "" {
		cfg.BuildFlags = []string{"-modfile=" + *modfile}
	}
	loaded, err := packages.Load(cfg, pkgs...)
	if err != nil {
		die("load: %v", err)
	}
	mapping := map[string]string{}
	for _, p := range loaded {
		if len(p.Errors) > 0 {
			for _, e := range p.Errors {
				fmt.Fprintln(os.Stderr, "instr: load error:", e)
			}
			die("package %s has errors", p.PkgPath)
		}
		for i, f := range p.Syntax {
			fn := p.CompiledGoFiles[i]
			if strings.HasSuffix(fn, "_test.go") {
				continue
			}
			rel, err := filepath.Rel(*repo, fn)
			if err != nil || strings.HasPrefix(rel, "..") {
				die("file outside repo: %s", fn)
			}
			r := &rewriter{fset: p.Fset, info: p.TypesInfo, file: f, rel: rel, pkg: p, keepTime: keepTime[filepath.Dir(rel)]}
			r.seams = seamsFor(p.PkgPath, seams)
			r.captures = capturesFor(p.PkgPath, captures)
			r.run()
			var buf bytes.Buffer
			if err := format.Node(&buf, p.Fset, f); err != nil {
				die("print %s: %v", rel, err)
			}
			src := buf.Bytes()
			if !bytes.Contains(src, []byte("//go:build")) {
				src = append([]byte("//go:build go1.21\n\n"), src...)
			} else if !bytes.Contains(src, []byte("//go:build go1.21\n")) {
				die("%s: has a build constraint; not supported", rel)
			}
			dst := filepath.Join(*out, rel)
			os.MkdirAll(filepath.Dir(dst), 0o755)
			if err := os.WriteFile(dst, src, 0o644); err != nil {
				die("%v", err)
			}
			mapping[fn] = dst
		}
	}
	b, _ := json.MarshalIndent(mapping, "", " ")
	os.WriteFile(filepath.Join(*out, "mapping.json"), b, 0o644)
}

func capturesFor(pkgPath string, caps []string) map[string][]string {
	m := map[string][]string{}
	for _, s := range caps {
		kv := strings.SplitN(s, ":", 3)
		if len(kv) == 3 && (kv[0] == pkgPath || strings.HasSuffix(pkgPath, "/"+kv[0])) {
			m[kv[1]] = strings.Split(kv[2], ",")
		}
	}
	return m
}

func seamsFor(pkgPath string, seams []string) map[string]bool {
	m := map[string]bool{}
	for _, s := range seams {
		kv := strings.SplitN(s, ":", 2)
		if len(kv) == 2 && (kv[0] == pkgPath || strings.HasSuffix(pkgPath, "/"+kv[0])) {
			m[kv[1]] = true
		}
	}
	return m
}

type rewriter struct {
	fset     *token.FileSet
	info     *types.Info
	file     *ast.File
	rel      string
	pkg      *packages.Package
	keepTime bool
	skip     map[ast.Node]bool
	recvCall map[*ast.CallExpr]bool
	used     bool
	tmp      int
	seams    map[string]bool
	captures map[string][]string
	captured map[string]bool
}

func (r *rewriter) site(n ast.Node) *ast.BasicLit {
	p := r.fset.Position(n.Pos())
	return &ast.BasicLit{Kind: token.STRING, Value: strconv.Quote(fmt.Sprintf("%s:%d", r.rel, p.Line))}
}

func (r *rewriter) vs(name string) ast.Expr {
	r.used = true
	return &ast.SelectorExpr{X: ast.NewIdent("verifvs"), Sel: ast.NewIdent(name)}
}

func (r *rewriter) fresh(prefix string) *ast.Ident {
	r.tmp++
	return ast.NewIdent(fmt.Sprintf("vs_%s%d", prefix, r.tmp))
}

func (r *rewriter) fail(n ast.Node, msg string) {
	die("%s: %s", r.fset.Position(n.Pos()), msg)
}

// pure reports whether e can be re-evaluated later without hoisting (constants, nil).
func (r *rewriter) pure(e ast.Expr) bool {
	tv, ok := r.info.Types[e]
	if !ok {
		return false
	}
	return tv.Value != nil || tv.IsNil()
}

func (r *rewriter) isChan(e ast.Expr) bool {
	t := r.info.TypeOf(e)
	if t == nil {
		return false
	}
	_, ok := t.Underlying().(*types.Chan)
	return ok
}

func (r *rewriter) run() {
	f := r.file
	r.skip = map[ast.Node]bool{}
	r.recvCall = map[*ast.CallExpr]bool{}
	// imports
	for _, im := range f.Imports {
		p, _ := strconv.Unquote(im.Path.Value)
		np, ok := swap[p]
		if !ok {
			continue
		}
		if p == "time" && r.keepTime {
			continue
		}
		if im.Name != nil && (im.Name.Name == "_" || im.Name.Name == ".") {
			r.fail(im, "dot/blank import of a swapped package")
		}
		if im.Name == nil {
			base := p[strings.LastIndex(p, "/")+1:]
			im.Name = ast.NewIdent(base)
		}
		im.Path.Value = strconv.Quote(np)
		im.EndPos = 0
	}
	// keep only comments before the package clause
	var keep []*ast.CommentGroup
	for _, cg := range f.Comments {
		if cg.End() < f.Package {
			keep = append(keep, cg)
		}
	}
	f.Comments = keep
	f.Doc = nil

	astutil.Apply(f, r.pre, r.post)

	if r.used {
		astutil.AddNamedImport(r.fset, f, "verifvs", vsPath)
	}
}

func (r *rewriter) pre(c *astutil.Cursor) bool {
	switch n := c.Node().(type) {
	case *ast.SelectStmt:
		for _, cl := range n.Body.List {
			cc := cl.(*ast.CommClause)
			switch s := cc.Comm.(type) {
			case nil:
			case *ast.SendStmt:
				r.skip[s] = true
			case *ast.ExprStmt:
				r.skip[unparen(s.X)] = true
			case *ast.AssignStmt:
				r.skip[unparen(s.Rhs[0])] = true
			default:
				r.fail(cc, "unexpected comm clause")
			}
		}
	case *ast.FuncDecl:
		if n.Body != nil && len(r.seams) > 0 {
			r.maybeSeam(n)
		}
		if n.Body != nil && n.Recv == nil {
			if vars, ok := r.captures[n.Name.Name]; ok {
				r.capture(n, vars)
			}
		}
	}
	return true
}

func unparen(e ast.Expr) ast.Expr {
	for {
		p, ok := e.(*ast.ParenExpr)
		if !ok {
			return e
		}
		e = p.X
	}
}

func (r *rewriter) inStmtList(c *astutil.Cursor) bool {
	switch c.Parent().(type) {
	case *ast.BlockStmt, *ast.CaseClause, *ast.CommClause:
		return c.Index() >= 0
	case *ast.LabeledStmt:
		return true
	}
	return false
}

func (r *rewriter) post(c *astutil.Cursor) bool {
	switch n := c.Node().(type) {
	case *ast.UnaryExpr:
		if n.Op == token.ARROW && !r.skip[n] {
			call := &ast.CallExpr{Fun: r.vs("Recv"), Args: []ast.Expr{r.site(n), n.X}}
			r.recvCall[call] = true
			c.Replace(call)
		}
	case *ast.AssignStmt:
		if len(n.Lhs) == 2 && len(n.Rhs) == 1 {
			if call, ok := unparen(n.Rhs[0]).(*ast.CallExpr); ok && r.recvCall[call] {
				call.Fun = r.vs("Recv2")
			}
		}
	case *ast.ValueSpec:
		if len(n.Names) == 2 && len(n.Values) == 1 {
			if call, ok := unparen(n.Values[0]).(*ast.CallExpr); ok && r.recvCall[call] {
				call.Fun = r.vs("Recv2")
			}
		}
	case *ast.CallExpr:
		if id, ok := n.Fun.(*ast.Ident); ok && id.Name == "close" && len(n.Args) == 1 {
			if _, isB := r.info.Uses[id].(*types.Builtin); isB {
				c.Replace(&ast.CallExpr{Fun: r.vs("Close"), Args: []ast.Expr{r.site(n), n.Args[0]}})
			}
		}
		if id, ok := n.Fun.(*ast.Ident); ok && id.Name == "len" && len(n.Args) == 1 && r.isChan(n.Args[0]) {
			// len(ch): a read of the channel's state (check-then-act on a queue's fullness)
			if _, isB := r.info.Uses[id].(*types.Builtin); isB {
				c.Replace(&ast.CallExpr{Fun: r.vs("ChanLen"), Args: []ast.Expr{r.site(n), n.Args[0]}})
			}
		}
	case *ast.SendStmt:
		if r.skip[n] {
			return true
		}
		if !r.inStmtList(c) {
			r.fail(n, "send statement outside a statement list")
		}
		c.Replace(r.sendBlock(n))
	case *ast.GoStmt:
		if !r.inStmtList(c) {
			r.fail(n, "go statement outside a statement list")
		}
		c.Replace(r.goBlock(n))
	case *ast.RangeStmt:
		if r.isChan(n.X) {
			if !r.inStmtList(c) {
				r.fail(n, "range over channel outside a statement list")
			}
			if _, lab := c.Parent().(*ast.LabeledStmt); lab {
				r.fail(n, "labelled range over channel")
			}
			c.Replace(r.rangeBlock(n))
		}
	case *ast.SelectStmt:
		if !r.inStmtList(c) {
			r.fail(n, "select outside a statement list")
		}
		if _, lab := c.Parent().(*ast.LabeledStmt); lab {
			r.fail(n, "labelled select")
		}
		c.Replace(r.selectBlock(n))
	}
	return true
}

func define(lhs ast.Expr, rhs ast.Expr) ast.Stmt {
	return &ast.AssignStmt{Lhs: []ast.Expr{lhs}, Tok: token.DEFINE, Rhs: []ast.Expr{rhs}}
}

// sendBlock: { c := ch; v := val; verifvs.Send(site, c, func(){ c <- v }) }
func (r *rewriter) sendBlock(n *ast.SendStmt) ast.Stmt {
	var list []ast.Stmt
	ch := r.fresh("c")
	list = append(list, define(ch, n.Chan))
	val := n.Value
	if !r.pure(n.Value) {
		v := r.fresh("v")
		list = append(list, define(v, n.Value))
		val = v
	}
	fn := &ast.FuncLit{Type: &ast.FuncType{Params: &ast.FieldList{}}, Body: &ast.BlockStmt{List: []ast.Stmt{&ast.SendStmt{Chan: ch, Value: val}}}}
	list = append(list, &ast.ExprStmt{X: &ast.CallExpr{Fun: r.vs("Send"), Args: []ast.Expr{r.site(n), ch, fn}}})
	return &ast.BlockStmt{List: list}
}

// goBlock: { f := fun; a0 := arg0; verifvs.Go(site, func(){ f(a0) }) }
func (r *rewriter) goBlock(n *ast.GoStmt) ast.Stmt {
	var list []ast.Stmt
	call := n.Call
	var fun ast.Expr
	if id, ok := call.Fun.(*ast.Ident); ok {
		if _, isFn := r.info.Uses[id].(*types.Func); isFn {
			fun = id // plain package-level function: no need to hoist
		}
	}
	if fun == nil {
		f := r.fresh("f")
		list = append(list, define(f, call.Fun))
		fun = f
	}
	var args []ast.Expr
	for _, a := range call.Args {
		if r.pure(a) {
			args = append(args, a)
			continue
		}
		v := r.fresh("a")
		list = append(list, define(v, a))
		args = append(args, v)
	}
	inner := &ast.CallExpr{Fun: fun, Args: args, Ellipsis: call.Ellipsis}
	fn := &ast.FuncLit{Type: &ast.FuncType{Params: &ast.FieldList{}}, Body: &ast.BlockStmt{List: []ast.Stmt{&ast.ExprStmt{X: inner}}}}
	list = append(list, &ast.ExprStmt{X: &ast.CallExpr{Fun: r.vs("Go"), Args: []ast.Expr{r.site(n), fn}}})
	return &ast.BlockStmt{List: list}
}

// rangeBlock rewrites "for k := range ch { body }" into
//
//	{ c := ch; k := verifvs.ZeroOf(c); var ok bool; for { k, ok = verifvs.Recv2(site, c); if !ok { break }; body } }
//
// The iteration variable is declared ONCE, outside the loop: in this module (go 1.13 semantics,
// instrumented files are pinned to language version go1.21) a range variable is shared by all
// iterations, and closures capturing it must keep seeing that sharing.
func (r *rewriter) rangeBlock(n *ast.RangeStmt) ast.Stmt {
	ch := r.fresh("c")
	ok := r.fresh("ok")
	var key ast.Expr = ast.NewIdent("_")
	var pre []ast.Stmt
	pre = append(pre, define(ch, n.X))
	if n.Key != nil {
		key = n.Key
		if n.Tok == token.DEFINE {
			if id, isID := n.Key.(*ast.Ident); !isID || id.Name == "_" {
				key = ast.NewIdent("_")
			} else {
				pre = append(pre, define(ast.NewIdent(id.Name), &ast.CallExpr{Fun: r.vs("ZeroOf"), Args: []ast.Expr{ch}}))
				// silence "declared and not used" if the body ignores it
				pre = append(pre, &ast.AssignStmt{Lhs: []ast.Expr{ast.NewIdent("_")}, Tok: token.ASSIGN, Rhs: []ast.Expr{ast.NewIdent(id.Name)}})
			}
		}
	}
	pre = append(pre, &ast.DeclStmt{Decl: &ast.GenDecl{Tok: token.VAR, Specs: []ast.Spec{&ast.ValueSpec{Names: []*ast.Ident{ok}, Type: ast.NewIdent("bool")}}}})
	recv := &ast.CallExpr{Fun: r.vs("Recv2"), Args: []ast.Expr{r.site(n), ch}}
	var head []ast.Stmt
	head = append(head, &ast.AssignStmt{Lhs: []ast.Expr{key, ok}, Tok: token.ASSIGN, Rhs: []ast.Expr{recv}})
	head = append(head, &ast.IfStmt{Cond: &ast.UnaryExpr{Op: token.NOT, X: ok}, Body: &ast.BlockStmt{List: []ast.Stmt{&ast.BranchStmt{Tok: token.BREAK}}}})
	body := &ast.BlockStmt{List: append(head, n.Body.List...)}
	return &ast.BlockStmt{List: append(pre, &ast.ForStmt{Body: body})}
}

// selectBlock builds the case descriptors and a switch over verifvs.Select.
func (r *rewriter) selectBlock(n *ast.SelectStmt) ast.Stmt {
	var list []ast.Stmt
	var descs []ast.Expr
	var clauses []ast.Stmt
	hasDefault := false
	idx := 0
	for _, cl := range n.Body.List {
		cc := cl.(*ast.CommClause)
		if cc.Comm == nil {
			hasDefault = true
			clauses = append(clauses, &ast.CaseClause{List: nil, Body: cc.Body})
			continue
		}
		d := r.fresh("s")
		var bind []ast.Stmt
		switch s := cc.Comm.(type) {
		case *ast.SendStmt:
			ch := r.fresh("c")
			list = append(list, define(ch, s.Chan))
			val := s.Value
			var valIface ast.Expr = s.Value
			if !r.pure(s.Value) {
				v := r.fresh("v")
				list = append(list, define(v, s.Value))
				val = v
				valIface = v
			} else if tv := r.info.Types[s.Value]; tv.IsNil() {
				valIface = ast.NewIdent("nil")
			}
			fn := &ast.FuncLit{Type: &ast.FuncType{Params: &ast.FieldList{}}, Body: &ast.BlockStmt{List: []ast.Stmt{&ast.SendStmt{Chan: ch, Value: val}}}}
			list = append(list, define(d, &ast.CallExpr{Fun: r.vs("SendCase"), Args: []ast.Expr{ch, valIface, fn}}))
		case *ast.ExprStmt:
			u := unparen(s.X).(*ast.UnaryExpr)
			list = append(list, define(d, &ast.CallExpr{Fun: r.vs("RecvCase"), Args: []ast.Expr{u.X}}))
		case *ast.AssignStmt:
			u := unparen(s.Rhs[0]).(*ast.UnaryExpr)
			list = append(list, define(d, &ast.CallExpr{Fun: r.vs("RecvCase"), Args: []ast.Expr{u.X}}))
			rhs := []ast.Expr{&ast.SelectorExpr{X: d, Sel: ast.NewIdent("V")}}
			if len(s.Lhs) == 2 {
				rhs = append(rhs, &ast.SelectorExpr{X: d, Sel: ast.NewIdent("Ok")})
			}
			bind = append(bind, &ast.AssignStmt{Lhs: s.Lhs, Tok: s.Tok, Rhs: rhs})
			if s.Tok == token.DEFINE {
				// silence "declared and not used" when the body ignores a bound name
				for _, l := range s.Lhs {
					if id, ok := l.(*ast.Ident); ok && id.Name != "_" {
						bind = append(bind, &ast.AssignStmt{Lhs: []ast.Expr{ast.NewIdent("_")}, Tok: token.ASSIGN, Rhs: []ast.Expr{ast.NewIdent(id.Name)}})
					}
				}
			}
		}
		descs = append(descs, d)
		clauses = append(clauses, &ast.CaseClause{List: []ast.Expr{&ast.BasicLit{Kind: token.INT, Value: strconv.Itoa(idx)}}, Body: append(bind, cc.Body...)})
		idx++
	}
	hd := "false"
	if hasDefault {
		hd = "true"
	} else {
		// keeps the statement terminating when every case of the select returns
		clauses = append(clauses, &ast.CaseClause{List: nil, Body: []ast.Stmt{&ast.ExprStmt{X: &ast.CallExpr{Fun: ast.NewIdent("panic"), Args: []ast.Expr{&ast.BasicLit{Kind: token.STRING, Value: `"verifvs: select returned no case"`}}}}}})
	}
	args := append([]ast.Expr{r.site(n), ast.NewIdent(hd)}, descs...)
	sw := &ast.SwitchStmt{Tag: &ast.CallExpr{Fun: r.vs("Select"), Args: args}, Body: &ast.BlockStmt{List: clauses}}
	list = append(list, sw)
	return &ast.BlockStmt{List: list}
}

// maybeSeam prepends "if Seam_X != nil { return Seam_X(args...) }" to selected functions and
// declares the variable.  Only functions without variadic parameters are supported.
func (r *rewriter) maybeSeam(fd *ast.FuncDecl) {
	name := fd.Name.Name
	key := name
	var recvExpr ast.Expr
	var recvField *ast.Field
	if fd.Recv != nil && len(fd.Recv.List) == 1 {
		recvField = fd.Recv.List[0]
		recvExpr = recvField.Type
		var b bytes.Buffer
		format.Node(&b, r.fset, recvExpr)
		key = "(" + b.String() + ")." + name
	}
	if !r.seams[key] {
		return
	}
	seamName := "VerifSeam_" + strings.NewReplacer("(", "", ")", "", "*", "", ".", "_").Replace(key)
	// build func type: receiver (if any) first, then params
	ft := &ast.FuncType{Params: &ast.FieldList{}, Results: fd.Type.Results}
	var args []ast.Expr
	n := 0
	nameOf := func(f *ast.Field, i int) *ast.Ident {
		if i < len(f.Names) && f.Names[i].Name != "_" {
			return f.Names[i]
		}
		n++
		id := ast.NewIdent(fmt.Sprintf("vs_p%d", n))
		if i < len(f.Names) {
			f.Names[i] = id
		} else {
			f.Names = append(f.Names, id)
		}
		return id
	}
	if recvField != nil {
		id := nameOf(recvField, 0)
		ft.Params.List = append(ft.Params.List, &ast.Field{Type: recvField.Type})
		args = append(args, id)
	}
	for _, p := range fd.Type.Params.List {
		if _, isEll := p.Type.(*ast.Ellipsis); isEll {
			r.fail(fd, "seam on variadic function")
		}
		cnt := len(p.Names)
		if cnt == 0 {
			cnt = 1
		}
		for i := 0; i < cnt; i++ {
			id := nameOf(p, i)
			ft.Params.List = append(ft.Params.List, &ast.Field{Type: p.Type})
			args = append(args, id)
		}
	}
	call := &ast.CallExpr{Fun: ast.NewIdent(seamName), Args: args}
	var ret ast.Stmt
	if fd.Type.Results == nil || len(fd.Type.Results.List) == 0 {
		ret = &ast.BlockStmt{List: []ast.Stmt{&ast.ExprStmt{X: call}, &ast.ReturnStmt{}}}
	} else {
		ret = &ast.BlockStmt{List: []ast.Stmt{&ast.ReturnStmt{Results: []ast.Expr{call}}}}
	}
	guard := &ast.IfStmt{Cond: &ast.BinaryExpr{X: ast.NewIdent(seamName), Op: token.NEQ, Y: ast.NewIdent("nil")}, Body: ret.(*ast.BlockStmt)}
	fd.Body.List = append([]ast.Stmt{guard}, fd.Body.List...)
	if r.pkg.Types != nil && r.pkg.Types.Scope().Lookup(seamName) != nil {
		return // declared by the harness's add-file
	}
	decl := &ast.GenDecl{Tok: token.VAR, Specs: []ast.Spec{&ast.ValueSpec{Names: []*ast.Ident{ast.NewIdent(seamName)}, Type: ft}}}
	r.file.Decls = append(r.file.Decls, decl)
}

// capture inserts, after the statement that defines vars[0] in fd's body:
//
//	if VerifCapture_F != nil { VerifCapture_F(map[string]interface{}{"v1": v1, ...}); return nil, ... }
//
// and declares the hook variable.  All results of fd must be nil-able.
func (r *rewriter) capture(fd *ast.FuncDecl, vars []string) {
	idx := -1
	for i, st := range fd.Body.List {
		if as, ok := st.(*ast.AssignStmt); ok && as.Tok == token.DEFINE {
			for _, l := range as.Lhs {
				if id, ok := l.(*ast.Ident); ok && id.Name == vars[0] {
					idx = i
				}
			}
		}
	}
	if idx < 0 {
		r.fail(fd, "capture: no top-level definition of "+vars[0]+" in "+fd.Name.Name)
	}
	hook := "VerifCapture_" + fd.Name.Name
	var elts []ast.Expr
	for _, v := range vars {
		elts = append(elts, &ast.KeyValueExpr{Key: &ast.BasicLit{Kind: token.STRING, Value: strconv.Quote(v)}, Value: ast.NewIdent(v)})
	}
	mapType := &ast.MapType{Key: ast.NewIdent("string"), Value: &ast.InterfaceType{Methods: &ast.FieldList{}}}
	call := &ast.ExprStmt{X: &ast.CallExpr{Fun: ast.NewIdent(hook), Args: []ast.Expr{&ast.CompositeLit{Type: mapType, Elts: elts}}}}
	ret := &ast.ReturnStmt{}
	if fd.Type.Results != nil {
		for _, f := range fd.Type.Results.List {
			n := len(f.Names)
			if n == 0 {
				n = 1
			}
			for i := 0; i < n; i++ {
				ret.Results = append(ret.Results, ast.NewIdent("nil"))
			}
		}
	}
	guard := &ast.IfStmt{Cond: &ast.BinaryExpr{X: ast.NewIdent(hook), Op: token.NEQ, Y: ast.NewIdent("nil")}, Body: &ast.BlockStmt{List: []ast.Stmt{call, ret}}}
	list := append([]ast.Stmt{}, fd.Body.List[:idx+1]...)
	list = append(list, guard)
	list = append(list, fd.Body.List[idx+1:]...)
	fd.Body.List = list
	if r.pkg.Types != nil && r.pkg.Types.Scope().Lookup(hook) != nil {
		return // declared by a shim file of the harness (so that other packages type-check against it)
	}
	decl := &ast.GenDecl{Tok: token.VAR, Specs: []ast.Spec{&ast.ValueSpec{Names: []*ast.Ident{ast.NewIdent(hook)}, Type: &ast.FuncType{Params: &ast.FieldList{List: []*ast.Field{{Type: mapType}}}}}}}
	r.file.Decls = append(r.file.Decls, decl)
}
