//go:build go1.21

// Package verifenum supports the bounded-exhaustive (ENUM) checks: counting evaluations and
// distinct non-trivial cases, collecting findings with stable signatures, sharding and budgets.
package verifenum

import (
	"encoding/json"
	"fmt"
	"hash/fnv"
	"os"
	"runtime"
	"sort"
	"strings"
	"time"
)

type Finding struct {
	Sig   string      `json:"sig"`
	Msg   string      `json:"msg"`
	Input interface{} `json:"input"`
}

type Section struct {
	Evaluations int64 `json:"evaluations"`
	Distinct    int64 `json:"distinct_nontrivial"`
	Exhaustive  bool  `json:"exhaustive"`
	Note        string `json:"note,omitempty"`
}

type R struct {
	Evaluations int64               `json:"evaluations"`
	Distinct    int64               `json:"distinct_nontrivial"`
	Samples     []interface{}       `json:"samples"`
	Findings    []Finding           `json:"findings"`
	SigCounts   map[string]int      `json:"sig_counts"`
	Exhaustive  bool                `json:"exhaustive"`
	Sections    map[string]*Section `json:"sections"`
	Order       []string            `json:"section_order"`
	StopReason  string              `json:"stop_reason,omitempty"`
	WallS       float64             `json:"wall_s"`

	seen     map[uint64]struct{}
	cur      *Section
	start    time.Time
	deadline time.Time
	shard    int
	nshards  int
	tier     string
	out      string
	counter  int64
}

// Args from the environment (VERIF_ENUM_ARGS: JSON {tier, out, shard, nshards, budget_s}).
func New() *R {
	r := &R{SigCounts: map[string]int{}, Sections: map[string]*Section{}, seen: map[uint64]struct{}{}, Exhaustive: true, start: time.Now(), nshards: 1, tier: "quick"}
	var a struct {
		Tier    string  `json:"tier"`
		Out     string  `json:"out"`
		Shard   int     `json:"shard"`
		NShards int     `json:"nshards"`
		BudgetS float64 `json:"budget_s"`
	}
	if raw := os.Getenv("VERIF_ENUM_ARGS"); raw != "" {
		if err := json.Unmarshal([]byte(raw), &a); err != nil {
			fmt.Fprintln(os.Stderr, "bad VERIF_ENUM_ARGS:", err)
			os.Exit(2)
		}
		r.tier, r.out, r.shard = a.Tier, a.Out, a.Shard
		if a.NShards > 0 {
			r.nshards = a.NShards
		}
		if a.BudgetS > 0 {
			r.deadline = r.start.Add(time.Duration(a.BudgetS * float64(time.Second)))
		}
	}
	runtime.GOMAXPROCS(2)
	return r
}

func (r *R) Tier() string    { return r.tier }
func (r *R) Thorough() bool  { return r.tier == "thorough" }
func (r *R) Shard() (int, int) { return r.shard, r.nshards }

// Mine reports whether the next unit of work belongs to this shard (round robin over calls).
func (r *R) Mine() bool {
	c := r.counter
	r.counter++
	return int(c%int64(r.nshards)) == r.shard
}

// Shard0 is for cheap sections that are not worth splitting.
func (r *R) Shard0() bool { return r.shard == 0 }

// TimeUp reports whether the budget is exhausted; the current section and the whole run are then
// marked non-exhaustive.
func (r *R) TimeUp() bool {
	if r.deadline.IsZero() || time.Now().Before(r.deadline) {
		return false
	}
	r.Exhaustive = false
	r.StopReason = "time budget"
	if r.cur != nil {
		r.cur.Exhaustive = false
	}
	return true
}

// Begin starts a named section (for per-section counts in the evidence).
func (r *R) Begin(name string, note string) {
	s, ok := r.Sections[name]
	if !ok {
		s = &Section{Exhaustive: true, Note: note}
		r.Sections[name] = s
		r.Order = append(r.Order, name)
	}
	r.cur = s
}

// Case counts one evaluated case.  key identifies the case after canonicalisation; nontrivial says
// whether it counts towards distinct_nontrivial.
func (r *R) Case(key string, nontrivial bool) {
	r.Evaluations++
	if r.cur != nil {
		r.cur.Evaluations++
	}
	if !nontrivial {
		return
	}
	h := fnv.New64a()
	h.Write([]byte(key))
	k := h.Sum64()
	if _, ok := r.seen[k]; ok {
		return
	}
	r.seen[k] = struct{}{}
	r.Distinct++
	if r.cur != nil {
		r.cur.Distinct++
	}
}

// CaseN counts n evaluated cases at once, all distinct and non-trivial by construction (used by
// tight loops over integer ranges, where hashing every key would dominate).
func (r *R) CaseN(n int64) {
	r.Evaluations += n
	r.Distinct += n
	if r.cur != nil {
		r.cur.Evaluations += n
		r.cur.Distinct += n
	}
}

func (r *R) Sample(v interface{}) {
	if len(r.Samples) < 12 {
		r.Samples = append(r.Samples, v)
	}
}

func (r *R) Fail(sig, msg string, input interface{}) {
	sig = strings.ReplaceAll(sig, " ", "_")
	r.SigCounts[sig]++
	if r.SigCounts[sig] <= 2 {
		r.Findings = append(r.Findings, Finding{Sig: sig, Msg: msg, Input: input})
	}
}

// Incomplete marks the run as not exhaustive for a stated reason.
func (r *R) Incomplete(reason string) {
	r.Exhaustive = false
	r.StopReason = reason
	if r.cur != nil {
		r.cur.Exhaustive = false
	}
}

func (r *R) Done() {
	r.WallS = time.Since(r.start).Seconds()
	sort.Slice(r.Findings, func(i, j int) bool { return r.Findings[i].Sig < r.Findings[j].Sig })
	b, err := json.Marshal(r)
	if err != nil {
		fmt.Fprintln(os.Stderr, "marshal:", err)
		os.Exit(2)
	}
	if r.out == "" {
		fmt.Println(string(b))
		return
	}
	if err := os.WriteFile(r.out, b, 0o644); err != nil {
		fmt.Fprintln(os.Stderr, err)
		os.Exit(2)
	}
}

// Try runs f and reports a panic as (true, value, trimmed stack).
func Try(f func()) (panicked bool, val string, stack string) {
	defer func() {
		if x := recover(); x != nil {
			panicked = true
			val = fmt.Sprint(x)
			buf := make([]byte, 8192)
			n := runtime.Stack(buf, false)
			stack = trim(string(buf[:n]))
		}
	}()
	f()
	return
}

func trim(s string) string {
	lines := strings.Split(s, "\n")
	var out []string
	for _, l := range lines {
		if strings.Contains(l, "verifenum") || strings.Contains(l, "runtime/panic.go") || strings.HasPrefix(l, "panic(") || strings.HasPrefix(l, "goroutine ") || strings.Contains(l, "runtime/debug") {
			continue
		}
		out = append(out, strings.TrimSpace(l))
		if len(out) >= 8 {
			break
		}
	}
	return strings.Join(out, " | ")
}

// PanicSite extracts "file.go:line" of the first snowflake frame of a trimmed stack.
func PanicSite(stack string) string {
	for _, part := range strings.Split(stack, " | ") {
		if i := strings.Index(part, "snowflake.git/v2/"); i >= 0 && strings.Contains(part, ".go:") {
			p := part[i+len("snowflake.git/v2/"):]
			if j := strings.IndexByte(p, ' '); j >= 0 {
				p = p[:j]
			}
			return p
		}
		if strings.HasPrefix(part, "/repo/") && strings.Contains(part, ".go:") {
			p := strings.TrimPrefix(part, "/repo/")
			if j := strings.IndexByte(p, ' '); j >= 0 {
				p = p[:j]
			}
			return p
		}
	}
	return "unknown"
}

// Odometer enumerates all vectors v with 0 <= v[i] < radix[i]; call Next until it returns false.
type Odometer struct {
	V     []int
	radix []int
	first bool
}

func NewOdometer(radix ...int) *Odometer {
	for _, r := range radix {
		if r <= 0 {
			return &Odometer{V: nil, radix: nil, first: false}
		}
	}
	return &Odometer{V: make([]int, len(radix)), radix: radix, first: true}
}

func (o *Odometer) Next() bool {
	if o.radix == nil && !o.first {
		return false
	}
	if o.first {
		o.first = false
		return true
	}
	for i := len(o.V) - 1; i >= 0; i-- {
		o.V[i]++
		if o.V[i] < o.radix[i] {
			return true
		}
		o.V[i] = 0
	}
	return false
}

// Strings enumerates all strings over alphabet (of string tokens) with at most maxLen tokens,
// shortest first, calling f with the token list; f returns false to stop.
func Strings(alphabet []string, maxLen int, f func(tokens []string) bool) {
	for n := 0; n <= maxLen; n++ {
		radix := make([]int, n)
		for i := range radix {
			radix[i] = len(alphabet)
		}
		o := NewOdometer(radix...)
		if n == 0 {
			if !f(nil) {
				return
			}
			continue
		}
		toks := make([]string, n)
		for o.Next() {
			for i, v := range o.V {
				toks[i] = alphabet[v]
			}
			if !f(toks) {
				return
			}
		}
	}
}

// Tape is a recorded sequence of environment choices (reader behaviours, write splits ...).  A
// run consumes choices with Choose; beyond the prefix the default answer 0 is taken.  ExploreTape
// enumerates all tapes whose number of non-default answers (deviations) is at most maxDev.
type Tape struct {
	prefix []int
	pos    int
	n      []int
	chosen []int
}

func (t *Tape) Choose(n int) int {
	c := 0
	if t.pos < len(t.prefix) {
		c = t.prefix[t.pos]
		if c >= n {
			panic(fmt.Sprintf("tape divergence at %d: %d of %d", t.pos, c, n))
		}
	}
	t.pos++
	t.n = append(t.n, n)
	t.chosen = append(t.chosen, c)
	return c
}

// Choices returns the answers given so far (for reporting).
func (t *Tape) Choices() []int { return append([]int(nil), t.chosen...) }

// ExploreTape runs run for every tape with at most maxDev deviations (depth-first, fewest
// deviations first within a subtree).  It returns the number of runs.
func ExploreTape(maxDev int, run func(t *Tape)) int {
	count := 0
	var rec func(prefix []int, devs int)
	rec = func(prefix []int, devs int) {
		t := &Tape{prefix: prefix}
		run(t)
		count++
		if devs >= maxDev {
			return
		}
		for i := len(prefix); i < len(t.n); i++ {
			for alt := 1; alt < t.n[i]; alt++ {
				c := make([]int, i+1)
				copy(c, t.chosen[:i])
				c[i] = alt
				rec(c, devs+1)
			}
		}
	}
	rec(nil, 0)
	return count
}
