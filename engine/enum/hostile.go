//go:build go1.21

package verifenum

import "strings"

// JSONMemberValues is a lattice of JSON values for one object member ("" = member absent).
var JSONMemberValues = []string{
	"", // absent
	"null", "true", "false", "0", "1", "1.5", "-1e999", `""`,
	`"offer"`, `"pranswer"`, `"answer"`, `"rollback"`, `"bogus"`, `"Offer"`, `"OFFER"`, `"offer "`,
	`[]`, `{}`, `["offer"]`, `{"a":1}`, `[[]]`, `"v=0\r\n"`, `"\u0000"`,
}

// HostileSessionDescriptions enumerates strings a remote party may send where a serialised session
// description is expected: every combination of JSON values for the members "type" and "sdp",
// other top-level shapes, duplicate keys, case variants, extra members, non-JSON.
func HostileSessionDescriptions() []string {
	var out []string
	for _, ty := range JSONMemberValues {
		for _, sd := range JSONMemberValues {
			var parts []string
			if ty != "" {
				parts = append(parts, `"type":`+ty)
			}
			if sd != "" {
				parts = append(parts, `"sdp":`+sd)
			}
			out = append(out, "{"+strings.Join(parts, ",")+"}")
		}
	}
	out = append(out,
		``, ` `, `null`, `true`, `0`, `1.5`, `"offer"`, `[]`, `[{"type":"offer","sdp":""}]`, `{`, `}`, `{"type"`, `garbage`, `{"type":"offer","sdp":"x"}}`,
		`{"type":"offer","type":1,"sdp":"x"}`, `{"type":1,"type":"offer","sdp":"x"}`, `{"sdp":"x","sdp":null,"type":"offer"}`,
		`{"type":"offer","sdp":"x","extra":{"deep":[1,2,{"a":null}]}}`, `{"TYPE":"offer","SDP":"x"}`, `{"Type":1,"Sdp":2}`, "\xff\xfe", `{"type":"offer","sdp":"`+strings.Repeat("a", 70000)+`"}`,
	)
	return out
}
