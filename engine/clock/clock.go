//go:build go1.21

// Package verifclock is a settable clock used to drive code that calls time.Now from sequential
// (ENUM) harnesses: the build overlays the file under test with a copy whose "time" import is
// verifclock/vtime.
package verifclock

import "time"

var now = time.Unix(1_600_000_000, 0).UTC()

func Set(t time.Time) { now = t }
func Now() time.Time  { return now }
