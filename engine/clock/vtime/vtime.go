//go:build go1.21

// Package vtime re-exports "time" with Now taken from verifclock.
package vtime

import (
	"time"

	"git.torproject.org/pluggable-transports/snowflake.git/v2/verifclock"
)

type (
	Time     = time.Time
	Duration = time.Duration
)

const (
	Nanosecond  = time.Nanosecond
	Millisecond = time.Millisecond
	Second      = time.Second
	Minute      = time.Minute
	Hour        = time.Hour
)

func Now() Time { return verifclock.Now() }
func Since(t Time) Duration { return verifclock.Now().Sub(t) }
