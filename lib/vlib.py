"""Shared driver library for the /verif checks (build pipeline, sharded exploration, evidence,
known findings).  See DESIGN.md §2."""
import glob
import hashlib
import json
import os
import re
import shutil
import subprocess
import sys
import time

VERIF = os.path.dirname(os.path.dirname(os.path.abspath(__file__)))
REPO = os.environ.get("VERIF_REPO", "/repo")
WORK = os.environ.get("VERIF_WORK") or os.path.join(VERIF, ".work")
# evidence and replays of trial runs against another tree (VERIF_REPO) go elsewhere (VERIF_EVIDENCE)
EVIDENCE = os.environ.get("VERIF_EVIDENCE") or os.path.join(VERIF, "evidence")
MODPATH = "git.torproject.org/pluggable-transports/snowflake.git/v2"
NPROC = int(os.environ.get("VERIF_NPROC", str(os.cpu_count() or 4)))

GOENV = dict(os.environ)
GOENV.update({
    "GOFLAGS": "-mod=mod", "GOPROXY": "off", "GOSUMDB": "off", "GOTOOLCHAIN": "local",
    "CGO_ENABLED": GOENV.get("CGO_ENABLED", "1"),
})


def _excepthook(tp, val, tb):
    """An exception of the driver itself is an engine error (exit 2), never a verdict (exit 1)."""
    import traceback
    traceback.print_exception(tp, val, tb)
    print("ENGINE-ERROR: uncaught %s in the check driver" % tp.__name__, flush=True)
    os._exit(2)


sys.excepthook = _excepthook


def log(*a):
    print(*a, file=sys.stderr, flush=True)


def run(cmd, cwd=None, env=None, timeout=None, check=True, capture=True):
    p = subprocess.run(cmd, cwd=cwd, env=env or GOENV, timeout=timeout,
                       stdout=subprocess.PIPE if capture else None,
                       stderr=subprocess.STDOUT if capture else None, text=True)
    if check and p.returncode != 0:
        log("command failed:", " ".join(cmd))
        log(p.stdout or "")
        raise SystemExit(2)
    return p


def ensure_tools():
    """Build the instrumenter if missing or stale."""
    binp = os.path.join(WORK, "bin", "instr")
    src = os.path.join(VERIF, "engine", "instr", "main.go")
    if not os.path.exists(binp) or os.path.getmtime(binp) < os.path.getmtime(src):
        os.makedirs(os.path.dirname(binp), exist_ok=True)
        run(["go", "build", "-o", binp, "."], cwd=os.path.join(VERIF, "engine", "instr"))
    return binp


def workdir(name):
    d = os.path.join(WORK, name)
    os.makedirs(d, exist_ok=True)
    return d


def modfile(work):
    """Copy of /repo/go.mod next to the build (a plain build would rewrite /repo/go.mod)."""
    shutil.copy(os.path.join(REPO, "go.mod"), os.path.join(work, "go.mod"))
    shutil.copy(os.path.join(REPO, "go.sum"), os.path.join(work, "go.sum"))
    return os.path.join(work, "go.mod")


def vs_overlay():
    """The runtime as a virtual package inside the module."""
    m = {}
    base = os.path.join(VERIF, "engine", "vs")
    for root, _, files in os.walk(base):
        for f in files:
            if f.endswith(".go"):
                rel = os.path.relpath(os.path.join(root, f), base)
                m[os.path.join(REPO, "verifvs", rel)] = os.path.join(root, f)
    return m


# ------------------------------------------------------------------------------------------------
# harness identifiers colliding with identifiers of the package under test

COLLISION = re.compile(r"\b(\w+) redeclared in this block")


def rename_copies(files, renames, work):
    """files: {key: real path of a harness source file}.  Returns the same dict pointing at copies in
    which every identifier in renames is replaced (gofmt -r), so that a harness keeps building when
    the package under test starts using one of the harness's package-level names."""
    if not renames:
        return files
    d = os.path.join(work, "renamed")
    os.makedirs(d, exist_ok=True)
    out = {}
    for k, real in files.items():
        dst = os.path.join(d, "%s_%s" % (abs(hash(real)) % 100000, os.path.basename(real)))
        shutil.copy(real, dst)
        for old, new in renames.items():
            p = subprocess.run(["gofmt", "-r", "%s -> %s" % (old, new), "-w", dst], stdout=subprocess.PIPE, stderr=subprocess.STDOUT, text=True)
            if p.returncode != 0:
                log("gofmt -r failed on %s: %s" % (dst, p.stdout))
                raise SystemExit(2)
        out[k] = dst
    return out


def collisions(output, renames):
    """New colliding identifiers named by a failed build's output."""
    return sorted(set(COLLISION.findall(output or "")) - set(renames))


def build_harness(name, pkgs, test_pkg, harness_files, instrument=True, adds=None, seams=None,
                  race=False, hide_repo_tests=True, extra_overlay=None, keep_time=None, tags=None, captures=None):
    """Instrument pkgs (list of repo-relative dirs), overlay harness files into test_pkg and build a
    test binary.  harness_files: {filename-in-test_pkg: real path}.  adds: {repo-relative virtual
    path: real path} non-test files that are loaded into their package and instrumented.
    Returns the path of the test binary.  A package-level harness identifier that collides with one
    of the package under test is renamed in a copy of the harness files and the build is repeated."""
    t0 = time.time()
    work = workdir(name + ("-race" if race else ""))
    renames = {}
    for attempt in range(6):
        ok, output, out = _build_harness_once(work, pkgs, test_pkg, rename_copies(harness_files, renames, work), instrument,
                                              rename_copies(adds or {}, renames, work), seams, race, hide_repo_tests, extra_overlay, keep_time, tags, captures)
        if ok:
            if renames:
                log("[build] harness identifiers renamed to avoid collisions with the package: %s" % ", ".join(sorted(renames)))
            log("[build] %s%s in %.1fs" % (name, " (race)" if race else "", time.time() - t0))
            return out
        new = collisions(output, renames)
        if not new:
            log(output or "")
            raise SystemExit(2)
        for n in new:
            renames[n] = "verifh_" + n
    log(output or "")
    raise SystemExit(2)


def _build_harness_once(work, pkgs, test_pkg, harness_files, instrument, adds, seams, race, hide_repo_tests, extra_overlay, keep_time, tags, captures):
    mf = modfile(work)
    overlay = {}
    overlay.update(vs_overlay())
    src = os.path.join(work, "src")
    shutil.rmtree(src, ignore_errors=True)
    os.makedirs(src, exist_ok=True)
    if instrument and pkgs:
        instr = ensure_tools()
        cmd = [instr, "-repo", REPO, "-modfile", mf, "-out", src]
        for p in pkgs:
            cmd += ["-pkg", "./" + p]
        for v, real in adds.items():
            cmd += ["-add", os.path.join(REPO, v) + "=" + real]
        for s in (seams or []):
            cmd += ["-seam", s]
        for s in (captures or []):
            cmd += ["-capture", s]
        if keep_time:
            cmd += ["-keep-time", ",".join(keep_time)]
        p = run(cmd, cwd=REPO, check=False)
        if p.returncode != 0:
            return False, "command failed: %s\n%s" % (" ".join(cmd), p.stdout), None
        overlay.update(json.load(open(os.path.join(src, "mapping.json"))))
    else:
        for v, real in adds.items():
            overlay[os.path.join(REPO, v)] = real
    if hide_repo_tests:
        for f in glob.glob(os.path.join(REPO, test_pkg, "*_test.go")):
            overlay[f] = ""
    for fn, real in harness_files.items():
        overlay[os.path.join(REPO, test_pkg, fn)] = real
    if extra_overlay:
        overlay.update(extra_overlay)
    ov = os.path.join(work, "overlay.json")
    json.dump({"Replace": overlay}, open(ov, "w"), indent=1)
    out = os.path.join(work, "h.test")
    if os.path.exists(out):
        os.remove(out)  # never run a stale binary if the build fails
    cmd = ["go", "test", "-c", "-overlay", ov, "-modfile", mf, "-vet=off", "-ldflags=-checklinkname=0",
           "-o", out]
    if race:
        cmd.append("-race")
    if tags:
        cmd += ["-tags", tags]
    cmd.append("./" + test_pkg)
    p = run(cmd, cwd=REPO, check=False)
    if p.returncode != 0:
        return False, "command failed: %s\n%s" % (" ".join(cmd), p.stdout), None
    return True, "", out


# ------------------------------------------------------------------------------------------------
# exploration

def explore(binary, harness, bound, budget_s, nshards=None, cache=False, dev_bound=-1, cfg=None,
            max_exec=0, race=False, test_run="TestVerif", env_extra=None, por=False, max_exec_per_cfg=0):
    """Run one exploration pass over nshards worker processes and merge the results."""
    nshards = nshards or NPROC
    work = os.path.dirname(binary)
    procs = []
    outs = []
    claim = os.path.join(work, "claims-%s" % harness)
    shutil.rmtree(claim, ignore_errors=True)
    os.makedirs(claim)
    for s in range(nshards):
        out = os.path.join(work, "res-%s-%d.json" % (harness, s))
        if os.path.exists(out):
            os.remove(out)
        outs.append(out)
        args = {"harness": harness, "mode": "explore", "bound": bound, "dev_bound": dev_bound,
                "cache": cache, "shard": s, "nshards": nshards, "budget_s": budget_s,
                "max_exec": max_exec, "cfg": cfg or {}, "out": out, "race": race, "claim_dir": claim, "por": por, "max_exec_per_cfg": max_exec_per_cfg}
        env = dict(GOENV)
        env["VERIF_ARGS"] = json.dumps(args)
        env.setdefault("GOGC", "400")
        if race:
            for old in glob.glob("%s/race-%s-%d.*" % (work, harness, s)):
                os.remove(old)
            env["GORACE"] = "halt_on_error=0 log_path=%s/race-%s-%d history_size=3" % (work, harness, s)
        if env_extra:
            env.update(env_extra)
        lf = open(os.path.join(work, "log-%s-%d.txt" % (harness, s)), "w")
        p = subprocess.Popen([binary, "-test.run", "^" + test_run + "$", "-test.timeout", "0"],
                             cwd=work, env=env, stdout=lf, stderr=subprocess.STDOUT)
        procs.append((p, lf))
    merged = None
    failed = []
    for s, (p, lf) in enumerate(procs):
        rc = p.wait()
        lf.close()
        # a -race test binary exits non-zero when the detector reported anything; the result file decides
        if (rc != 0 and not race) or not os.path.exists(outs[s]):
            failed.append((s, rc))
            continue
        r = json.load(open(outs[s]))
        merged = merge(merged, r)
    if failed:
        for s, rc in failed[:2]:
            log("shard %d exited with %s; log tail:" % (s, rc))
            try:
                log(open(os.path.join(work, "log-%s-%d.txt" % (harness, s))).read()[-6000:])
            except OSError:
                pass
        raise EngineError("harness %s: %d shard(s) failed" % (harness, len(failed)))
    return merged


class EngineError(Exception):
    pass


def merge(a, b):
    for k in ("violations", "samples"):
        if b.get(k) is None:
            b[k] = []
    for k in ("outcomes", "sig_counts"):
        if b.get(k) is None:
            b[k] = {}
    if a is None:
        b = dict(b)
        b["shards"] = 1
        return b
    for k in ("executions", "transitions", "states", "cache_hits", "race_errors", "step_limited", "cut_early", "sleep_blocked", "configs_capped"):
        a[k] = a.get(k, 0) + b.get(k, 0)
    for k in ("shard_mode", "configs"):
        if b.get(k):
            a[k] = b[k]
    for k in ("max_depth", "max_threads", "wall_s"):
        a[k] = max(a.get(k, 0), b.get(k, 0))
    a["exhaustive"] = a["exhaustive"] and b["exhaustive"]
    if b.get("stop_reason"):
        a["stop_reason"] = b["stop_reason"]
    for k, v in (b.get("outcomes") or {}).items():
        a["outcomes"][k] = a["outcomes"].get(k, 0) + v
    a["n_outcomes"] = len(a["outcomes"])
    for k, v in (b.get("sig_counts") or {}).items():
        a["sig_counts"][k] = a["sig_counts"].get(k, 0) + v
    have = {}
    for v in a["violations"]:
        have[v["sig"]] = have.get(v["sig"], 0) + 1
    for v in b.get("violations") or []:
        if have.get(v["sig"], 0) < 2:
            a["violations"].append(v)
            have[v["sig"]] = have.get(v["sig"], 0) + 1
    if len(a.get("samples") or []) < 3:
        a["samples"] = (a.get("samples") or []) + (b.get("samples") or [])
        a["samples"] = a["samples"][:3]
    a["shards"] += 1
    return a


def replay(binary, harness, choices, cfg=None, repeat=5, test_run="TestVerif"):
    work = os.path.dirname(binary)
    out = os.path.join(work, "replay-%s.json" % harness)
    args = {"harness": harness, "mode": "replay", "choices": choices, "cfg": cfg or {}, "out": out,
            "repeat": repeat}
    env = dict(GOENV)
    env["VERIF_ARGS"] = json.dumps(args)
    p = subprocess.run([binary, "-test.run", "^" + test_run + "$", "-test.timeout", "0"], cwd=work, env=env,
                       stdout=subprocess.PIPE, stderr=subprocess.STDOUT, text=True)
    if p.returncode != 0 or not os.path.exists(out):
        log(p.stdout[-4000:])
        raise EngineError("replay failed")
    return json.load(open(out))


# ------------------------------------------------------------------------------------------------
# known findings, violations, evidence

def load_known():
    """known_findings.txt lines:
         finding: property=<id> sig=<signature> :: <what fails>
         fixed: property=<id> <commit> <what failed>
       Only 'finding:' lines suppress; the file is never written at run time."""
    known = {}
    path = os.path.join(VERIF, "known_findings.txt")
    if not os.path.exists(path):
        return known
    for line in open(path):
        line = line.strip()
        if not line.startswith("finding:"):
            continue
        body = line[len("finding:"):].strip()
        head, _, what = body.partition("::")
        parts = head.split()
        pid = sig = None
        for p in parts:
            if p.startswith("property="):
                pid = p[len("property="):]
            elif p.startswith("sig="):
                sig = p[len("sig="):]
        if pid and sig:
            known[(pid, sig)] = what.strip()
    return known


class Report:
    """Collects what one check run covered and found, prints the interface lines and writes the
    evidence file."""

    def __init__(self, pid, tier, level):
        self.pid = pid
        self.tier = tier
        self.level = level
        self.t0 = time.time()
        self.known = load_known()
        self.known_seen = {}
        self.violations = []
        self.coverage = {}
        self.assumptions = []
        self.engine_errors = []
        self.seed = int(os.environ.get("VERIF_SEED", "0") or 0)

    def finding(self, sig, msg, replay_obj):
        """Report one violating case.  sig: stable signature (no spaces)."""
        sig = sig.replace(" ", "_")
        if (self.pid, sig) in self.known:
            if sig not in self.known_seen:
                self.known_seen[sig] = msg
            return False
        for v in self.violations:
            if v["sig"] == sig:
                return True
        os.makedirs(os.path.join(EVIDENCE, "replays"), exist_ok=True)
        h = hashlib.sha1((self.pid + sig).encode()).hexdigest()[:10]
        path = os.path.join(EVIDENCE, "replays", "%s-%s.json" % (self.pid, h))
        obj = {"property": self.pid, "sig": sig, "msg": msg}
        obj.update(replay_obj or {})
        json.dump(obj, open(path, "w"), indent=1)
        self.violations.append({"sig": sig, "msg": msg, "replay": path})
        return True

    def finish(self):
        wall = time.time() - self.t0
        for sig, msg in sorted(self.known_seen.items()):
            print("KNOWN-FINDING: property=%s sig=%s %s" % (self.pid, sig, self.known[(self.pid, sig)] or msg))
        cov = dict(self.coverage)
        cov["known_findings_seen"] = sorted(self.known_seen)
        ev = {
            "property_id": self.pid, "tier": self.tier, "seed": self.seed, "level": self.level,
            "coverage": cov, "assumptions": self.assumptions, "wall_s": round(wall, 2),
            "violations": len(self.violations),
        }
        os.makedirs(EVIDENCE, exist_ok=True)
        json.dump(ev, open(os.path.join(EVIDENCE, self.pid + ".json"), "w"), indent=1, sort_keys=True)
        for v in self.violations:
            print("VIOLATION property=%s replay=%s" % (self.pid, v["replay"]))
            print("  sig=%s %s" % (v["sig"], v["msg"][:400]))
        if self.engine_errors:
            for e in self.engine_errors:
                print("ENGINE-ERROR: %s" % e)
            # a violation shown by one part of a check stands even if another part could not be built or run
            sys.exit(1 if self.violations else 2)
        sys.exit(1 if self.violations else 0)

    def try_build(self, fn, what, **kw):
        """Builds one tier's harness; a tree against which it does not build (e.g. a changed signature of an
        unexported function the harness calls) is an engine error of that tier, the other tiers still run."""
        try:
            return fn(**kw)
        except SystemExit:
            self.engine_errors.append("%s does not build against this tree" % what)
            return None


def tier_arg(argv):
    tier = os.environ.get("VERIF_TIER", "")
    for a in argv[1:]:
        if a in ("quick", "thorough"):
            tier = a
        if a.startswith("--tier="):
            tier = a.split("=", 1)[1]
    return tier or "quick"
