"""Driver for ENUM checks: builds a test binary with the harness files overlaid (no instrumentation),
runs it over N shards, merges results and reports findings."""
import glob
import json
import os
import subprocess
import time

import vlib


def enum_overlay():
    m = {}
    base = os.path.join(vlib.VERIF, "engine", "enum")
    for f in glob.glob(os.path.join(base, "*.go")):
        m[os.path.join(vlib.REPO, "verifenum", os.path.basename(f))] = f
    return m


def build(name, test_pkg, files, hide_repo_tests=True, extra_overlay=None, race=False):
    """files: {name in test_pkg dir: real path}.  test_pkg may be a virtual directory.  A package-level
    harness identifier colliding with one of the package under test is renamed in a copy (vlib.rename_copies)."""
    t0 = time.time()
    work = vlib.workdir(name)
    mf = vlib.modfile(work)
    renames = {}
    for attempt in range(6):
        overlay = {}
        overlay.update(enum_overlay())
        overlay.update(vlib.vs_overlay())
        if hide_repo_tests:
            for f in glob.glob(os.path.join(vlib.REPO, test_pkg, "*_test.go")):
                overlay[f] = ""
        for fn, real in vlib.rename_copies(files, renames, work).items():
            overlay[os.path.join(vlib.REPO, test_pkg, fn)] = real
        if extra_overlay:
            overlay.update(extra_overlay)
        ov = os.path.join(work, "overlay.json")
        json.dump({"Replace": overlay}, open(ov, "w"), indent=1)
        out = os.path.join(work, "e.test")
        if os.path.exists(out):
            os.remove(out)  # never run a stale binary if the build fails
        cmd = ["go", "test", "-c", "-overlay", ov, "-modfile", mf, "-vet=off", "-ldflags=-checklinkname=0", "-o", out] + (["-race"] if race else []) + ["./" + test_pkg]
        p = vlib.run(cmd, cwd=vlib.REPO, check=False)
        if p.returncode == 0:
            if renames:
                vlib.log("[build] harness identifiers renamed to avoid collisions with the package: %s" % ", ".join(sorted(renames)))
            vlib.log("[build] %s in %.1fs" % (name, time.time() - t0))
            return out
        new = vlib.collisions(p.stdout, renames)
        if not new:
            break
        for n in new:
            renames[n] = "verifh_" + n
    vlib.log("command failed:", " ".join(cmd))
    vlib.log(p.stdout or "")
    raise SystemExit(2)


def run(binary, test, tier, budget_s, nshards=None, env_extra=None, accept_test_failure=False):
    """accept_test_failure: a shard that wrote its result file counts even if the test binary exits 1
    (race builds: the testing package fails a test during which the detector reported a race)."""
    nshards = nshards or vlib.NPROC
    work = os.path.dirname(binary)
    procs = []
    for s in range(nshards):
        out = os.path.join(work, "enum-%s-%d.json" % (test, s))
        if os.path.exists(out):
            os.remove(out)
        env = dict(vlib.GOENV)
        env["VERIF_ENUM_ARGS"] = json.dumps({"tier": tier, "out": out, "shard": s, "nshards": nshards, "budget_s": budget_s})
        if env_extra:
            env.update(env_extra)
        lf = open(os.path.join(work, "enumlog-%s-%d.txt" % (test, s)), "w")
        p = subprocess.Popen([binary, "-test.run", "^" + test + "$", "-test.timeout", "0"], cwd=work, env=env, stdout=lf, stderr=subprocess.STDOUT)
        procs.append((p, lf, out))
    merged = None
    failed = []
    for s, (p, lf, out) in enumerate(procs):
        rc = p.wait()
        lf.close()
        if (rc != 0 and not (accept_test_failure and rc == 1)) or not os.path.exists(out):
            failed.append((s, rc))
            continue
        merged = merge(merged, json.load(open(out)))
    if failed:
        s, rc = failed[0]
        vlib.log("enum shard %d exited with %s; log tail:" % (s, rc))
        vlib.log(open(os.path.join(work, "enumlog-%s-%d.txt" % (test, s))).read()[-6000:])
        raise vlib.EngineError("%s: %d shard(s) failed" % (test, len(failed)))
    return merged


def merge(a, b):
    for k in ("samples", "findings", "section_order"):
        if b.get(k) is None:
            b[k] = []
    for k in ("sig_counts", "sections"):
        if b.get(k) is None:
            b[k] = {}
    if a is None:
        return b
    a["evaluations"] += b["evaluations"]
    a["distinct_nontrivial"] += b["distinct_nontrivial"]
    a["exhaustive"] = a["exhaustive"] and b["exhaustive"]
    a["wall_s"] = max(a["wall_s"], b["wall_s"])
    if b.get("stop_reason"):
        a["stop_reason"] = b["stop_reason"]
    if len(a["samples"]) < 12:
        a["samples"] = (a["samples"] + b["samples"])[:12]
    for k, v in b["sig_counts"].items():
        a["sig_counts"][k] = a["sig_counts"].get(k, 0) + v
    have = {f["sig"] for f in a["findings"]}
    for f in b["findings"]:
        if f["sig"] not in have:
            a["findings"].append(f)
            have.add(f["sig"])
    for name in b["section_order"]:
        if name not in a["sections"]:
            a["sections"][name] = b["sections"][name]
            a["section_order"].append(name)
        else:
            sa, sb = a["sections"][name], b["sections"][name]
            sa["evaluations"] += sb["evaluations"]
            sa["distinct_nontrivial"] += sb["distinct_nontrivial"]
            sa["exhaustive"] = sa["exhaustive"] and sb["exhaustive"]
    return a


def report(rep, res, rule, extra=None):
    """Feed merged results into a vlib.Report (level exploration)."""
    for f in res["findings"]:
        rep.finding(f["sig"], f["msg"], {"input": f["input"], "kind": "input case", "count": res["sig_counts"].get(f["sig"])})
    cov = rep.coverage
    cov["evaluations"] = cov.get("evaluations", 0) + res["evaluations"]
    cov["distinct_nontrivial"] = cov.get("distinct_nontrivial", 0) + res["distinct_nontrivial"]
    cov["rule"] = rule
    cov["samples"] = (cov.get("samples") or []) + (res["samples"] or [])
    cov["exhaustive"] = cov.get("exhaustive", True) and res["exhaustive"]
    secs = cov.setdefault("sections", {})
    for name in res["section_order"]:
        secs[name] = res["sections"][name]
    vc = cov.setdefault("violating_cases", {})
    for k, v in res["sig_counts"].items():
        vc[k] = vc.get(k, 0) + v
    if res.get("stop_reason"):
        cov["stop_reason"] = res["stop_reason"]
    if extra:
        cov.update(extra)
