"""Common driver for SCHED checks: run a list of exploration passes over a harness binary, confirm
violations by replay, map them to known findings, write evidence."""
import json
import os
import time

import vlib


def run_passes(rep, binary, passes, total_budget_s):
    """passes: list of dicts {harness, cfg, bound, cache, dev_bound, budget_s, label}.  Passes are run in
    order until the total budget is used; a pass that does not finish is reported exhaustive:false."""
    t_end = time.time() + total_budget_s
    summary = []
    tot = {"states": 0, "transitions": 0, "executions": 0, "outcomes": 0}
    samples = []
    all_exh = True
    for ps in passes:
        left = t_end - time.time()
        if left < 3:
            summary.append({"label": ps.get("label"), "skipped": "total budget used"})
            all_exh = False
            continue
        budget = min(ps.get("budget_s", left), left)
        try:
            por = ps.get("por", ps.get("bound", -1) < 0)
            if "por" in ps:
                por = ps["por"]
            r = vlib.explore(binary, ps["harness"], ps.get("bound", -1), budget, cache=ps.get("cache", not por),
                             dev_bound=ps.get("dev_bound", -1), cfg=ps.get("cfg"), nshards=ps.get("nshards"), por=por,
                             max_exec_per_cfg=ps.get("max_exec_per_cfg", 0))
        except vlib.EngineError as e:
            rep.engine_errors.append(str(e))
            break
        s = {"label": ps.get("label") or ps["harness"], "cfg": ps.get("cfg"), "preemption_bound": ps.get("bound", -1),
             "reduction": "dynamic partial-order reduction + sleep sets (unbounded preemptions)" if por else "happens-before state cache",
             "executions": r["executions"], "executions_sleep_set_blocked": r.get("sleep_blocked", 0), "transitions": r["transitions"],
             "states": r["states"], "cache_hits": r.get("cache_hits", 0), "executions_cut_early_by_cache": r.get("cut_early", 0), "shard_mode": r.get("shard_mode"), "max_depth": r["max_depth"], "max_threads": r["max_threads"],
             "distinct_outcomes": r["n_outcomes"], "exhaustive": r["exhaustive"], "wall_s": round(r["wall_s"], 1),
             "violating_executions": r["sig_counts"], "step_limited": r.get("step_limited", 0),
             "configurations": r.get("configs"), "configurations_cut_at_execution_cap": r.get("configs_capped", 0)}
        if ps.get("max_exec_per_cfg"):
            s["execution_cap_per_configuration"] = ps["max_exec_per_cfg"]
        if not r["exhaustive"]:
            s["stop_reason"] = r.get("stop_reason")
            all_exh = False
        summary.append(s)
        # states: distinct HB state keys (cache mode); in sleep-set mode every complete execution is a
        # distinct Mazurkiewicz trace, which is what is counted
        complete = r["executions"] - r.get("sleep_blocked", 0) - r.get("cut_early", 0)
        tot["states"] += r["states"] if not por else complete
        tot["transitions"] += r["transitions"]
        tot["executions"] += r["executions"]
        tot["outcomes"] += r["n_outcomes"]
        for smp in (r.get("samples") or [])[:1]:
            samples.append({"pass": s["label"], "trace": smp})
        if r.get("step_limited"):
            rep.engine_errors.append("%s: %d executions hit the step limit" % (s["label"], r["step_limited"]))
        # confirm every distinct violation signature by replaying it 5 times
        seen = set()
        for v in r["violations"]:
            if v["sig"] in seen:
                continue
            seen.add(v["sig"])
            rp = vlib.replay(binary, ps["harness"], v["choices"], cfg=ps.get("cfg"), repeat=5)
            sigs = [f["sig"] for f in rp["fails"]]
            if not rp["stable"] or v["sig"] not in sigs:
                rep.engine_errors.append("violation %s did not reproduce deterministically (stable=%s sigs=%s)" % (v["sig"], rp["stable"], sigs))
                continue
            rep.finding(v["sig"], v["msg"], {"harness": ps["harness"], "cfg": ps.get("cfg"), "choices": v["choices"],
                                             "observations": v.get("obs"), "clause": v["clause"],
                                             "replay_cmd": "python3 /verif/checks/replay.py %s" % "<this file>"})
    return summary, tot, samples, all_exh


def sched_coverage(rep, summary, tot, samples, all_exh, extra=None):
    cov = {
        "states": max(tot["states"], 1), "transitions": max(tot["transitions"], 1),
        "traces_validated_against_impl": tot["executions"],
        "samples": samples or [{"note": "no sample recorded"}],
        "executions": tot["executions"], "distinct_outcomes": tot["outcomes"],
        "passes": summary, "exhaustive": all_exh,
        "explanation": "Every explored trace is an execution of the real (mechanically instrumented) code under the verifvs scheduler; "
                       "states = distinct happens-before state keys expanded; there is no separate model.",
    }
    if extra:
        cov.update(extra)
    rep.coverage.update(cov)
