"""Parsing and classification of Go race detector reports for C20."""
import glob
import os
import re

import vlib

FRAME = re.compile(r"^\s+(\S+)\(.*\)$|^\s+(\S+)\(\)$")


def parse_reports(paths):
    """Yield (accessA_frames, accessB_frames, text) for every report in the log files."""
    for p in paths:
        try:
            txt = open(p, errors="replace").read()
        except OSError:
            continue
        for rep in txt.split("WARNING: DATA RACE")[1:]:
            rep = rep.split("==================")[0]
            blocks = re.split(r"\n\n", rep.strip())
            acc = []
            for b in blocks:
                first = b.strip().split("\n", 1)[0]
                if re.match(r"^(Read|Write|Previous read|Previous write|Atomic|Previous atomic)", first):
                    frames = []
                    lines = b.strip().split("\n")[1:]
                    for i in range(0, len(lines) - 1, 2):
                        fn = lines[i].strip()
                        loc = lines[i + 1].strip().split(" ")[0]
                        frames.append((fn, loc))
                    acc.append((first.split(" at ")[0], frames))
            if len(acc) >= 2:
                yield acc[0], acc[1], rep


def classify_access(frames):
    """Return (kind, site): kind in {'snowflake', 'harness', 'other'}; site = file:function of the
    innermost frame that lies in the snowflake module (engine frames are skipped)."""
    if frames and (vlib.REPO + "/verifvs/") in frames[0][1]:
        # the access itself is made by the scheduler runtime (its own bookkeeping), not by a real
        # operation it executes on behalf of the program
        return "engine", frames[0][0].split("/")[-1]
    for fn, loc in frames:
        if "/pkg/mod/" in loc:
            # the innermost non-stdlib frame is in a third-party module (kcp-go, smux, pion, gorilla)
            return "thirdparty", loc.split("/pkg/mod/", 1)[1].split("@")[0]
        if (vlib.REPO + "/") not in loc:
            continue
        rel = loc.split(vlib.REPO + "/", 1)[1]
        if rel.startswith("verifvs/") or rel.startswith("verifenum/"):
            continue
        base = os.path.basename(rel.split(":")[0])
        short_fn = fn.split("/")[-1]                      # e.g. broker.(*IPC).ClientOffers()
        short_fn = short_fn[:-2] if short_fn.endswith("()") else short_fn
        short_fn = short_fn.split(".", 1)[1] if "." in short_fn else short_fn
        short_fn = re.sub(r"\.func\d+(\.\d+)*$", "", short_fn)
        short_fn = re.sub(r"\[.*\]", "", short_fn)
        site = "%s:%s" % (rel.split(":")[0], short_fn)
        if base.startswith("zz_verif_"):
            return "harness", site
        return "snowflake", site
    return "other", "?"


def collect(workdir, harness, pattern="race-%s-*"):
    """Returns (violations, harness_only, mixed): violations = {sig: example text}."""
    viol, honly, mixed, engine = {}, 0, {}, {}
    for a, b, text in parse_reports(glob.glob(os.path.join(workdir, pattern % harness))):
        ka, sa = classify_access(a[1])
        kb, sb = classify_access(b[1])
        if "engine" in (ka, kb):
            engine["<->".join(sorted([sa, sb]))] = engine.get("<->".join(sorted([sa, sb])), 0) + 1
        elif ka == "snowflake" and kb == "snowflake":
            sig = "race:" + "<->".join(sorted([sa, sb]))
            viol.setdefault(sig, "%s by %s vs %s by %s\n%s" % (a[0], sa, b[0], sb, text[:3000]))
        elif "thirdparty" in (ka, kb):
            sig = "thirdparty:" + "<->".join(sorted([sa, sb]))
            mixed.setdefault(sig, 0)
            mixed[sig] += 1
        elif "harness" in (ka, kb) and "snowflake" in (ka, kb):
            sig = "<->".join(sorted([sa, sb]))
            mixed.setdefault(sig, 0)
            mixed[sig] += 1
        else:
            honly += 1
    return viol, honly, mixed, engine
